#!/venv/bin/python
"""Re-validate every kept seeded change against /repo's CURRENT HEAD (after fix: commits): re-base the patch
(3-way if needed, rewriting patch.diff), pinned suite must pass with it, demo must exit 1 with it and 0 without it."""
import json, os, shutil, subprocess, sys, tempfile
from concurrent.futures import ThreadPoolExecutor
VERIF = os.path.dirname(os.path.dirname(os.path.abspath(__file__)))
def sh(cmd, env=None, timeout=3600):
    p = subprocess.run(cmd, shell=True, env=env, stdout=subprocess.PIPE, stderr=subprocess.STDOUT, text=True, timeout=timeout)
    return p.returncode, p.stdout
head = sh("git -C /repo rev-parse --short HEAD")[1].strip()
def one(sid):
    d = os.path.join(VERIF, "seeded", sid)
    wt = tempfile.mkdtemp(prefix=f"reval_{sid}_", dir="/tmp"); os.rmdir(wt)
    try:
        sh(f"git -C /repo worktree add -q --detach {wt} HEAD")
        rc, out = sh(f"git -C {wt} apply {d}/patch.diff")
        rebased = False
        if rc:
            rc, out = sh(f"git -C {wt} apply --3way {d}/patch.diff")
            if rc:
                return sid, "PATCH-CONFLICT", out[-300:]
            sh(f"git -C {wt} reset -q")
            rc2, diff = sh(f"git -C {wt} diff")
            open(os.path.join(d, "patch.diff"), "w").write(diff)
            rebased = True
        rc_b, out_b = sh(f"/venv/bin/python {VERIF}/tools/baseline_check.py {wt}")
        env = dict(os.environ, NASIM_TREE=wt, PYTHONDONTWRITEBYTECODE="1")
        rc_m, out_m = sh(f"/venv/bin/python {d}/demo.py", env=env)
        env = dict(os.environ, NASIM_TREE="/repo", PYTHONDONTWRITEBYTECODE="1")
        rc_c, out_c = sh(f"/venv/bin/python {d}/demo.py", env=env)
        meta = json.load(open(os.path.join(d, "meta.json")))
        meta.update(validated_at_repo_commit=head, rebased_onto_head=rebased, suite_passes_with_change=rc_b == 0,
                    demo_exit_mutated=rc_m, demo_exit_clean=rc_c, confirmed=bool(rc_b == 0 and rc_m == 1 and rc_c == 0))
        json.dump(meta, open(os.path.join(d, "meta.json"), "w"), indent=1)
        return sid, "confirmed" if meta["confirmed"] else f"NOT-CONFIRMED suite={rc_b} mutated={rc_m} clean={rc_c}", (out_c.strip().splitlines() or [""])[-1][:200] if rc_c else ""
    finally:
        sh(f"git -C /repo worktree remove --force {wt}"); shutil.rmtree(wt, ignore_errors=True)
ids = sys.argv[1:] or sorted(os.listdir(os.path.join(VERIF, "seeded")))
with ThreadPoolExecutor(int(os.environ.get("JOBS","8"))) as ex:
    for r in ex.map(one, ids):
        print(*r, flush=True)
