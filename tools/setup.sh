#!/bin/sh
# builds the overlay venv offline (z3-solver, cvc5, icontract, deal, crosshair-tool from the wheelhouse
# + a .pth onto /venv's site-packages so numpy / gymnasium / the editable nasim are importable)
set -e
cd "$(dirname "$0")/.."
if [ -x .venv/bin/python ] && .venv/bin/python -c "import z3, numpy" 2>/dev/null; then exit 0; fi
rm -rf .venv
/venv/bin/python -m venv .venv
PIP_NO_INDEX=1 .venv/bin/pip install -q --no-index --find-links /opt/veriftools/wheels z3-solver cvc5 icontract deal crosshair-tool >/dev/null 2>&1 || \
PIP_NO_INDEX=1 .venv/bin/pip install -q --no-index --find-links /opt/veriftools/wheels z3-solver cvc5
SP=$(.venv/bin/python -c "import site;print(site.getsitepackages()[0])")
echo "import site; site.addsitedir('/venv/lib/python3.12/site-packages')" > "$SP/_overlay.pth"
.venv/bin/python -c "import z3, numpy; print('overlay venv ok', z3.get_version_string())"
