#!/venv/bin/python
"""Apply each kept seeded change to a scratch worktree of /repo HEAD (outside /repo and /verif), run the
property's check against that tree, remove the worktree.  usage: run_seeded.py [ids...] [--tier quick]"""
import json, os, subprocess, sys, shutil, tempfile
from concurrent.futures import ThreadPoolExecutor
VERIF = os.path.dirname(os.path.dirname(os.path.abspath(__file__)))
def sh(cmd, **kw):
    p = subprocess.run(cmd, shell=True, stdout=subprocess.PIPE, stderr=subprocess.STDOUT, text=True, **kw)
    return p.returncode, p.stdout
import threading
LOCK = threading.Lock()
RESULTS = {}


def one(sid):
    d = os.path.join(VERIF, "seeded", sid)
    prop = sid.split("-")[0]
    wt = tempfile.mkdtemp(prefix=f"seedrun_{sid}_", dir="/tmp")
    os.rmdir(wt)
    try:
        with LOCK:
            rc, out = sh(f"git -C /repo worktree add -q --detach {wt} HEAD")
        if rc: return sid, "worktree-failed", out
        rc, out = sh(f"git -C {wt} apply {d}/patch.diff")
        if rc:
            rc, out = sh(f"git -C {wt} apply --3way {d}/patch.diff")
            if rc: return sid, "patch-does-not-apply", out[-300:]
        env = dict(os.environ, PYVC_REPO=wt)
        rc, out = sh(f"{VERIF}/checks/check.py {prop} --tier quick --tree {wt}", env=env, timeout=3600)
        lines = [l for l in out.splitlines() if l.startswith(("VIOLATION", "  failed", "CHECKER", "UNDECIDED", "OUT-OF", "KNOWN", prop + ":"))]
        return sid, {0: "MISSED", 1: "DETECTED", 2: "UNDECIDED", 3: "CHECKER-FAILURE"}.get(rc, str(rc)), "\n".join(lines[:8])
    finally:
        with LOCK:
            sh(f"git -C /repo worktree remove --force {wt}")
        shutil.rmtree(wt, ignore_errors=True)
ids = [a for a in sys.argv[1:] if not a.startswith("--")] or sorted(os.listdir(os.path.join(VERIF, "seeded")))
with ThreadPoolExecutor(3) as ex:
    for sid, verdict, detail in ex.map(one, ids):
        print(f"=== {sid}: {verdict}\n{detail}", flush=True)
        mp = os.path.join(VERIF, "seeded", sid, "meta.json")
        if os.path.exists(mp):
            m = json.load(open(mp))
            m["own_property_check_verdict"] = verdict
            m["failed_obligations"] = sorted({l.split("failed obligation:")[1].strip() for l in detail.splitlines() if "failed obligation:" in l})
            json.dump(m, open(mp, "w"), indent=1)
