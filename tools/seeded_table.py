#!/venv/bin/python
"""regenerates the seeded-change table inside DESIGN.md (between the markers) from seeded/*/meta.json"""
import json, os, glob, re
V = os.path.dirname(os.path.dirname(os.path.abspath(__file__)))
rows = ["<!-- seeded-table-begin -->", "| id | change | verdict | failed obligation(s) |", "|---|---|---|---|"]
for d in sorted(glob.glob(os.path.join(V, "seeded", "*"))):
    m = json.load(open(d + "/meta.json"))
    sid = os.path.basename(d)
    note = [x for x in m.get("needs_to_manifest", "").strip().splitlines() if x.strip()]
    title = note[0].lstrip("# ").strip() if note else ""
    title = re.split(r" - | -- | — ", title, 1)[-1]
    fo = [o.split("nasim.")[-1].split(" (")[0] for o in m.get("failed_obligations", [])]
    rows.append("| %s | %s | %s | %s |" % (sid, title[:90].replace("|", "/"), m.get("own_property_check_verdict", "?"),
                                         "; ".join("`%s`" % x[:90] for x in fo[:2])))
rows.append("<!-- seeded-table-end -->")
p = os.path.join(V, "DESIGN.md")
s = open(p).read()
tbl = "\n".join(rows)
if "<!-- seeded-table-begin -->" in s:
    s = s[:s.index("<!-- seeded-table-begin -->")] + tbl + s[s.index("<!-- seeded-table-end -->") + len("<!-- seeded-table-end -->"):]
else:
    s = s.replace("SEEDED_TABLE", tbl)
open(p, "w").write(s)
print("rows", len(rows) - 4)
