#!/venv/bin/python
"""false-alarm test on a subset: run_harmless_subset.py h21:C11,C10 h22:C11 ...  (each patch against the listed checks);
every check must exit 0.  Results are merged into harmless/results.json"""
import json, os, subprocess, sys, shutil, tempfile
from concurrent.futures import ThreadPoolExecutor
VERIF = os.path.dirname(os.path.dirname(os.path.abspath(__file__)))
def sh(cmd, **kw):
    p = subprocess.run(cmd, shell=True, stdout=subprocess.PIPE, stderr=subprocess.STDOUT, text=True, **kw)
    return p.returncode, p.stdout
def one(spec):
    h, props = spec.split(":")
    props = props.split(",")
    wt = tempfile.mkdtemp(prefix=f"harmless_{h}_", dir="/tmp"); os.rmdir(wt)
    sh(f"git -C /repo worktree add -q --detach {wt} HEAD")
    rc, out = sh(f"git -C {wt} apply {VERIF}/harmless/{h}/patch.diff")
    res = {}
    if rc:
        res = {"patch": "does-not-apply"}
    else:
        for p in props:
            rc, out = sh(f"{VERIF}/checks/check.py {p} --tier quick --tree {wt}", env=dict(os.environ, PYVC_REPO=wt), timeout=3600)
            lines = [l for l in out.splitlines() if l.startswith(("VIOLATION", "  failed", "CHECKER", "UNDECIDED", "OUT-OF", "BOUNDED-STAND", "RUN-TIME"))]
            if rc != 0:
                res[p] = {"exit": rc, "lines": lines[:8]}
            elif lines:
                res.setdefault("_notes", {})[p] = [l[:160] for l in lines[:3]]
    sh(f"git -C /repo worktree remove --force {wt}"); shutil.rmtree(wt, ignore_errors=True)
    return h, props, res
with ThreadPoolExecutor(int(os.environ.get("JOBS", "2"))) as ex:
    out = list(ex.map(one, sys.argv[1:]))
rp = os.path.join(VERIF, "harmless", "results.json")
summary = json.load(open(rp)) if os.path.exists(rp) else {}
for h, props, res in out:
    bad = {k: v for k, v in res.items() if k != "_notes"}
    summary[h] = {"checks_run": props, "non_zero_exits": bad, "notes": res.get("_notes", {})}
    print(h, "ALL-GREEN" if not bad else json.dumps(bad, indent=1)[:1500], json.dumps(res.get("_notes", {}))[:600], flush=True)
json.dump(summary, open(rp, "w"), indent=1)
