#!/venv/bin/python
"""Run the pinned test-suite in a given source tree (default /repo) and verify that every
test listed as stable_pass in /root/.vp/BASELINE.json still passes.
usage: baseline_check.py [TREE]   -> exit 0 iff all stable-pass tests pass."""
import json, os, subprocess, sys, tempfile, xml.etree.ElementTree as ET
tree = os.path.abspath(sys.argv[1]) if len(sys.argv) > 1 else "/repo"
base = json.load(open("/root/.vp/BASELINE.json"))
want = set(base["stable_pass"])
with tempfile.TemporaryDirectory() as td:
    jx = os.path.join(td, "r.xml")
    env = dict(os.environ, PYTHONPATH=tree, PYTHONDONTWRITEBYTECODE="1")
    env.pop("NASIM_VERIF", None)
    p = subprocess.run(["/venv/bin/python", "-m", "pytest", "-q", "-p", "no:cacheprovider", "--timeout=900",
                        "--continue-on-collection-errors", "-n", "0" , "--junitxml=" + jx] if False else
                       ["/venv/bin/python", "-m", "pytest", "-q", "-p", "no:cacheprovider", "--timeout=900",
                        "--continue-on-collection-errors", "--junitxml=" + jx],
                       cwd=tree, env=env, stdout=subprocess.PIPE, stderr=subprocess.STDOUT, text=True)
    passed = set()
    for tc in ET.parse(jx).getroot().iter("testcase"):
        if not any(ch.tag in ("failure", "error", "skipped") for ch in tc):
            passed.add(f"{tc.get('classname')}::{tc.get('name')}")
missing = sorted(want - passed)
print(f"tree={tree} stable_pass={len(want)} passed_now={len(passed)} stable_pass_now_failing={len(missing)}")
for m in missing[:20]:
    print("  NOW FAILING:", m)
sys.exit(1 if missing else 0)
