#!/venv/bin/python
"""Validate sub-agent produced mutants and keep the confirmed ones under /verif/seeded/<id>/.
For each /tmp/seeded_out/<PROP>/m<k>: apply patch in the scratch worktree /tmp/wt/<PROP>, run the pinned
suite (must still pass), run demo.py against the mutated tree (must exit 1) and against /repo (must exit 0)."""
import json, os, shutil, subprocess, sys
from concurrent.futures import ThreadPoolExecutor
OUT = "/tmp/seeded_out"
def sh(cmd, env=None, cwd=None, timeout=1800):
    p = subprocess.run(cmd, shell=True, env=env, cwd=cwd, stdout=subprocess.PIPE, stderr=subprocess.STDOUT, text=True, timeout=timeout)
    return p.returncode, p.stdout
def do_prop(prop):
    res = []
    wt = f"/tmp/wt/{prop}"
    for k in sorted(os.listdir(f"{OUT}/{prop}")):
        d = f"{OUT}/{prop}/{k}"
        if not os.path.isdir(d) or not os.path.exists(d + "/patch.diff"):
            continue
        sh(f"git -C {wt} checkout -q -- . && git -C {wt} clean -fdq")
        rc, out = sh(f"git -C {wt} apply {d}/patch.diff")
        meta = {"property": prop, "mutant": k, "patch_applies": rc == 0}
        if rc == 0:
            rc_b, out_b = sh(f"/venv/bin/python /verif/tools/baseline_check.py {wt}")
            meta["suite_passes_with_change"] = rc_b == 0
            meta["suite_summary"] = out_b.strip().splitlines()[-1] if out_b.strip() else ""
            env = dict(os.environ, NASIM_TREE=wt, PYTHONDONTWRITEBYTECODE="1")
            rc_m, out_m = sh(f"/venv/bin/python {d}/demo.py", env=env, timeout=1800)
            meta["demo_exit_mutated"] = rc_m
            meta["demo_output_mutated_tail"] = out_m.strip().splitlines()[-5:]
            sh(f"git -C {wt} checkout -q -- . && git -C {wt} clean -fdq")
            env = dict(os.environ, NASIM_TREE="/repo", PYTHONDONTWRITEBYTECODE="1")
            rc_c, out_c = sh(f"/venv/bin/python {d}/demo.py", env=env, timeout=1800)
            meta["demo_exit_clean"] = rc_c
            meta["confirmed"] = bool(meta["suite_passes_with_change"] and rc_m == 1 and rc_c == 0)
        else:
            meta["confirmed"] = False
        notes = open(d + "/notes.md").read() if os.path.exists(d + "/notes.md") else ""
        meta["needs_to_manifest"] = notes
        meta["ran"] = ["git apply patch.diff (scratch worktree)", "tools/baseline_check.py <worktree>",
                       "NASIM_TREE=<worktree> demo.py (expect 1)", "NASIM_TREE=/repo demo.py (expect 0)"]
        if meta["confirmed"]:
            dst = f"/verif/seeded/{prop}-{k}"
            os.makedirs(dst, exist_ok=True)
            shutil.copy(d + "/patch.diff", dst); shutil.copy(d + "/demo.py", dst)
            json.dump(meta, open(dst + "/meta.json", "w"), indent=1)
        res.append(meta)
        print(prop, k, "confirmed" if meta["confirmed"] else f"NOT confirmed {meta}", flush=True)
    return res
props = sys.argv[1:] or sorted(p for p in os.listdir(OUT) if p.startswith("C"))
with ThreadPoolExecutor(8) as ex:
    allres = [r for rs in ex.map(do_prop, props) for r in rs]
print("confirmed:", sum(r["confirmed"] for r in allres), "of", len(allres))
