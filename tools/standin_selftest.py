#!/verif/.venv/bin/python
"""self-test of the bounded stand-in (driver phase 3): every contract that is normally verified in unbounded mode only
must also pass in concrete-structured mode on the unchanged tree, otherwise a stand-in run on a refactored tree could
raise a false alarm.  Run after adding or changing such a contract."""
import os, sys
sys.path.insert(0, os.path.dirname(os.path.dirname(os.path.abspath(__file__))))
from checks import driver
REG = driver.load_contracts()
jobs = []
for q, c in sorted(REG.contracts.items()):
    if getattr(c, "verify", True) and not getattr(c, "bounded", True) and getattr(c, "unbounded", True):
        for v in c.variants():
            for cfg in driver.BOUNDED_QUICK:
                jobs.append((q, v, cfg, 20000, sys.argv[1] if len(sys.argv) > 1 else "/repo", False, frozenset()))
res = driver.run_tasks(driver._run_task, jobs, 8, 240)
bad = 0
for j, r in zip(jobs, res):
    fails = [o["name"] for o in r["results"] if o["status"] not in ("discharged", "feasible", "unknown", "infeasible")]
    if r["error"] or r["limit"] or fails:
        bad += 1
        print("NOT-ELIGIBLE", j[0], j[1], (r["error"] or "")[-200:], r["limit"], fails[:3])
print(f"stand-in self-test: {len(jobs)} tasks, {bad} failing")
sys.exit(1 if bad else 0)
