#!/venv/bin/python
"""regenerates MANIFEST.json from the table below (single source of truth for claims)"""
import json, os, subprocess
V = os.path.dirname(os.path.dirname(os.path.abspath(__file__)))
props = [json.loads(l) for l in open(os.path.join(V, "properties.jsonl"))]
NOTE = ("Trusted base: z3/cvc5 unsat answers; the pyvc engine's model of the Python subset (validated by bounded "
        "replays against the real classes and by seeded mutants, not proved); Python int mathematical, float32/"
        "float64 treated as reals; assumed contracts of builtins/NumPy/Gymnasium (listed in evidence.assumptions); "
        "reachable states over-approximated by well-formed states; global-layout precondition (HostVector class "
        "attributes equal Layout(scenario)).")
TECH = ("contract-based deductive verification: pyvc symbolically executes the real AST of each function under a "
        "sidecar contract (loop invariants, callee contracts, frame conditions) and z3/cvc5 discharge every "
        "verification condition for unbounded scenarios; bounded QF instances give replayable counterexamples")
CLAIMS = {
 "C01": ("proof", "5/C01", "Every clause is a postcondition of HostVector.perform_action / Network.perform_action proved for all scenarios, well-formed states, actions and draws."),
 "C02": ("proof", "5/C02", "Gating clauses are postconditions of Network.perform_action; pivot and traffic predicates are proved for the search loops of has_required_remote_permission / traffic_permitted (invariants) and Host.traffic_permitted."),
 "C03": ("proof", "5/C03", "Inv is proved preserved by Network.perform_action and established by Network.reset (loop invariants of reset, _update_reachable, _perform_subnet_scan); history claim follows by induction over the contracts."),
 "C04": ("proof", "5/C04", "Monotonicity, configuration immutability (masked-row equality), reset-restores-start and step-counter zeroing are postconditions/frames of Network.perform_action, Network.reset, NASimEnv.reset."),
 "C05": ("proof", "5/C05", "reward = gain - cost at NASimEnv.generative_step over the value posts of HostVector.perform_action and the discovery partial-sum invariant of _perform_subnet_scan; paid-once follows from C04 monotonicity."),
 "C06": ("proof", "5/C06", "Goal predicate proved for the search loop of all_sensitive_hosts_compromised; done/limit/counter are postconditions and frames of generative_step, step, reset, goal_reached."),
 "C07": ("proof", "5/C07", "success <=> draw < prob, at most one draw, exact error flags and no-draw cases are postconditions of Network.perform_action with the draw a symbolic real in [0,1)."),
 "C08": ("proof", "5/C08", "obs[r][c] = state[r][c] if Entitled(action, result, r, c) else 0 (truthful, minimal and complete are the three directions of this one equality) is a postcondition of State.get_observation for every action kind, with the subnet-scan loop under an invariant; HostVector.observe's ten switches are proved cell-exact; auxiliary row and initial observation likewise."),
 "C09": ("proof", "5/C09", "Layout constants, name->index maps, the vectorized row of every host, the initial tensor and the observation shape are postconditions of _update_vector_idxs, _initialize, vectorize, tensorize, generate_initial_state, get_state_dims/get_observation_dims (loop invariants for all enumerate loops). Round trips through Observation.from_numpy / State.from_numpy / numpy() / numpy_flat() are proved modulo the assumed NumPy contract (flatten is row-major and fresh, reshape inverts it). NOT covered: the readable decoders (get_readable)."),
 "C10": ("proof", "5/C10", "Space bounds cover every value (min/max loop invariants + in-box lemma), observation-space shape equals the observation's and the scenario's dims (NASimEnv.__init__), every member of either action space decodes without error (python ints, NumPy integer scalars, lists, tuples), reset/step tuple shapes; NASimGymEnv.__init__ and nasim.make_benchmark/load/generate hand the mode switches through unchanged. Bounded: run-time monitor over all registered gymnasium ids (module-level registration table). NOT covered: integer ndarrays as parameter vectors beyond the run-time integer tag of action targets, Gymnasium's own contains()."),
 "C11": ("proof", "5/C11", "Proved unbounded: load_action_list returns, for a scenario with any number of hosts / exploits / escalations, exactly the documented enumeration - block h of the list holds the four scans, every exploit and every escalation of host h in definition order with the scenario's cost, probability, service / process, OS and access (record-list loop invariants for the three loops; the flat position host*K+j is kept linear by a ghost block-start function whose two properties - blocks do not overlap, block start = host*K - are proved by induction as separate closed lemma obligations), length N*K = advertised size; parameterised decode (incl. wrap-around, undefined pairs -> zero-cost no-op), nvec, flat index->action, action mask (loop invariant), exploit_map / privesc_map hold exactly the first definition of every (service|process, os) pair for tables of any size (nested-dict loop invariant). The same contracts are re-checked on bounded concrete-structured scenarios (real loops unrolled) for replayable counterexamples."),
 "C12": ("proof", "5/C12", "Non-interference: the dynamics outputs of generative_step/step are proved equal to themselves with the three mode flags renamed (solver-discharged reads-frame), info is the action result, observation construction is proved read-only, and parameterised decoding yields the scenario's definitions (same records as the flat list)."),
 "C14": ("other", "5/C14", "Dynamics: the helper contracts (spec.* postconditions, discharged unbounded) fix every output of perform_action/reset as a function of scenario, state, action and the one draw, so equal seeds give equal trajectories given NumPy's seeded stream (assumed); a generic frame obligation on every function under contract forbids drawing from / seeding the global RNG outside the declared stochastic functions. Generation: BOUNDED - same seed twice in-process, an order-permuting set shim (two iteration orders) over the parameter grid, and a PYTHONHASHSEED sweep in sub-processes over generated benchmarks; fingerprints of hosts, firewall, exploits, escalations, sensitive hosts must agree."),
 "C15": ("other", "5/C15", "Proved unbounded (all num_hosts, all subnet counts): _generate_subnets (layout, sizes sum to num_hosts+1), _generate_topology (loop invariant: symmetric, self-connected, only DMZ public, user tree), _generate_address_space_bounds, _generate_sensitive_hosts (exactly (2,0) and one user host, requested values), _get_action_probs (length, ranges, requested values), _convert_to_service_map / _process_map / _os_map (dict-building loop invariants: keys are the name list in list order, values the drawn configuration), _get_host_value, generate_scenario (a generator object of its own, parameters handed through). BOUNDED stand-in for the stochastic functions: the full well-formedness postcondition is evaluated as a run-time contract on every scenario the real generator returns over a parameter grid x seeds; plus unit-level run-time contracts on the two name-collision retry loops (_generate_exploits, _generate_privescs) over many seeds; three recorded known findings with witnesses (alpha_V = 1, exploit names exhausted, escalation names exhausted)."),
 "C16": ("other", "5/C16", "Proved unbounded: G1 (topology is the DMZ/sensitive/user tree with parent(k) < k, DMZ public). BOUNDED stand-in for G2-G4 and the conclusion: for every generated scenario of the grid and every shipped benchmark a plan is computed by monotone closure on the real environment with all stochastic actions succeeding and replayed through NASimEnv.step, which must end terminated. The unbounded induction lemma over generator postconditions (DESIGN 5/C16) was not built."),
 "C20": ("other", "5/C20", "Proved unbounded: score bound = sum of sensitive values + sum of discovery values - hops (sum-loop invariants), and the C04/C05 obligations it rests on. BOUNDED exhaustive (all symmetric topologies on <= 5 subnets, <= 3 sensitive subnets) plus structured larger instances (chains, stars, rings, seeded random graphs with up to 8 sensitive subnets, Held-Karp reference): hop function equals its documented quantity; hops <= Steiner bound fails on branching topologies (known finding). NOT decided: the whole-episode inequality (optimisation over histories)."),
 "C17": ("other", "5/C17", "Proved unbounded (lists of any length with symbolically typed entries): the leaf validators _validate_subnets, _validate_topology (nested loop invariants), _validate_os/_services/_processes, _validate_scan_cost, _parse_step_limit accept every valid value; _validate_sensitive_hosts, _is_valid_firewall_setting, _contains_all_required_firewalls, _has_all_host_addresses, _validate_host_address, _validate_firewall (modular, against the helper contracts), _construct_host_config (name maps in scenario list order), _get_host_value, _parse_sensitive_hosts (re-keying by the parsed address) for sections of any size over an assumed contract of str()/eval() on address strings; load_scenario (a loader object of its own, file and name handed through). Whole loader: BOUNDED stand-in: the real loader is executed symbolically on concrete-structured documents (nine shipped files + synthetic ones covering one host configuration shared by several hosts (YAML anchor/alias), asymmetric topology, several public subnets, empty allow-lists, prob 1.0, no OS, empty escalation section, no step limit, negative/fractional values, host firewalls) whose numeric leaves are symbolic over the documented ranges; obligations: never raises, and the scenario equals the document field by field. Counterexamples are concretised to YAML and replayed through the real load_scenario."),
 "C18": ("other", "5/C18", "Proved unbounded: a normal return of each leaf validator (subnets, topology, name lists, scan costs, step limit, sensitive hosts, firewall rule values, firewall completeness, host-address keys, host-configuration completeness, the firewall section as a whole) implies its rule for lists / sections / topologies of any size. Whole loader: BOUNDED stand-in: for each of ~75 rule violations of the catalogue a transformer breaks exactly that rule in every base document (symbolic leaf where the rule is numeric); on every symbolic path the real loader must raise. Replay: concretised YAML through the real load_scenario."),
 "C19": ("other", "5/C19", "Global-heap frame obligations (no undeclared class-attribute/module-global reads or writes) are discharged for every operation; every constructor path installs Layout(scenario) whatever the previous global state; make_benchmark_scenario leaves no stale seed. Equal-layout independence lemma discharged; the any-layout lemma is REFUTED and recorded as a known finding (witness replayed on every run)."),
 "C13": ("proof", "5/C13", "Purity is a frame obligation over the heap (input tensor cell, env fields, current state, last obs); freshness is an allocation-identity obligation; step/generative_step agreement is a postcondition of NASimEnv.step."),
}
checks = []
for p in props:
    pid = p["id"]
    if pid not in CLAIMS:
        continue
    lvl, ref, text = CLAIMS[pid]
    checks.append({
        "property_id": pid,
        "quick_cmd": f"/venv/bin/python checks/check.py {pid} --tier quick",
        "thorough_cmd": f"/venv/bin/python checks/check.py {pid} --tier thorough",
        "evidence_file": f"evidence/{pid}.json",
        "replay_cmd_template": f"/venv/bin/python checks/check.py {pid} --replay {{path}}",
        "engine": "pyvc",
        "level_claimed": {"category": lvl, "text": text, "design_ref": "DESIGN.md section " + ref},
        "level_note": NOTE,
        "technique": TECH,
    })
NA = {}
na = [{"property_id": p["id"], "reason": NA.get(p["id"], "check not built yet (DESIGN.md Appendix B build order); claimed once its obligations discharge")}
      for p in props if p["id"] not in CLAIMS]
fixes = subprocess.run("git -C /repo log --format=%h --grep='^fix:'", shell=True, capture_output=True, text=True).stdout.split()
m = {"version": 1,
     "setup_cmd": "/bin/sh tools/setup.sh",
     "hooks": {"guard": "NASIM_VERIF", "enable": "no hooks: contracts are sidecar files under /verif/contracts keyed by qualified function name; /repo is only read (its AST is re-parsed on every run)",
               "baseline_off_cmd": "cd /repo && /venv/bin/python -m pytest -ra -q -p no:cacheprovider --timeout=900 --continue-on-collection-errors",
               "source_commits": [], "add_only": True},
     "engines": [{"name": "pyvc", "path": "pyvc/", "serves_properties": sorted(CLAIMS),
                  "kind_free_text": "AST-level symbolic executor + VC generator for Python (path splitting, loop invariants, modular callee contracts, heap with NumPy views), z3 then cvc5 back ends"}],
     "checks": checks, "not_applicable": na,
     "notes": "Repairs of genuine defects are unguarded 'fix:' commits in /repo: " + ", ".join(fixes) + "; see known_findings.json"}
json.dump(m, open(os.path.join(V, "MANIFEST.json"), "w"), indent=1)
print("claims:", len(checks), "not claimed:", len(na))
