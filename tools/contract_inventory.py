#!/verif/.venv/bin/python
"""regenerates the AS-BUILT contract inventory inside DESIGN.md (between the markers) mechanically from the registry:
every function under contract, how it is decided, which loops carry invariants, which properties its obligations serve"""
import os, sys
V = os.path.dirname(os.path.dirname(os.path.abspath(__file__)))
sys.path.insert(0, V)
from checks import driver, rt_fallback
REG = driver.load_contracts()
loops = {}
for (q, o), lc in REG.loops.items():
    loops.setdefault(q, []).append(o)
rows = ["<!-- inventory-begin -->", "| function | decided by | loop invariants | run-time fallback | serves |", "|---|---|---|---|---|"]
for q, c in sorted(REG.contracts.items()):
    props = set(c.default_tags)
    for v in c.tags.values():
        props |= set(v)
    if not getattr(c, "verify", True):
        mode = "ASSUMED (call-site model only)"
    else:
        unb, bnd = getattr(c, "unbounded", True), getattr(c, "bounded", True)
        mode = {(True, True): "unbounded proof + bounded instances", (True, False): "unbounded proof",
                (False, True): "BOUNDED only"}[(unb, bnd)]
        if getattr(c, "own_bounds", False):
            mode += " (own documents)"
    rows.append("| `%s` | %s | %s | %s | %s |" % (q.replace("nasim.", ""), mode,
                                                ", ".join(f"loop {o}" for o in sorted(loops.get(q, []))) or "–",
                                                rt_fallback.SUPPORTED.get(q, "–"), " ".join(sorted(props))))
rows.append("<!-- inventory-end -->")
p = os.path.join(V, "DESIGN.md")
s = open(p).read()
tbl = "\n".join(rows)
if "<!-- inventory-begin -->" in s:
    s = s[:s.index("<!-- inventory-begin -->")] + tbl + s[s.index("<!-- inventory-end -->") + len("<!-- inventory-end -->"):]
    open(p, "w").write(s)
    print("rows", len(rows) - 4)
else:
    print("markers missing")
