#!/venv/bin/python
"""false-alarm test: apply each behaviour-preserving refactoring (harmless/h*/patch.diff) to a scratch worktree of
/repo HEAD and run EVERY property's quick check against it; every check must exit 0."""
import json, os, subprocess, sys, shutil, tempfile
VERIF = os.path.dirname(os.path.dirname(os.path.abspath(__file__)))
props = [json.loads(l)["id"] for l in open(os.path.join(VERIF, "properties.jsonl"))]
def sh(cmd, **kw):
    p = subprocess.run(cmd, shell=True, stdout=subprocess.PIPE, stderr=subprocess.STDOUT, text=True, **kw)
    return p.returncode, p.stdout
ids = sys.argv[1:] or sorted(os.listdir(os.path.join(VERIF, "harmless")))
summary = {}
for h in ids:
    wt = tempfile.mkdtemp(prefix=f"harmless_{h}_", dir="/tmp"); os.rmdir(wt)
    sh(f"git -C /repo worktree add -q --detach {wt} HEAD")
    rc, out = sh(f"git -C {wt} apply {VERIF}/harmless/{h}/patch.diff")
    if rc:
        rc, out = sh(f"git -C {wt} apply --3way {VERIF}/harmless/{h}/patch.diff")
    res = {}
    if rc:
        res = {"patch": "does-not-apply"}
    else:
        for p in props:
            rc, out = sh(f"{VERIF}/checks/check.py {p} --tier quick --tree {wt}", env=dict(os.environ, PYVC_REPO=wt), timeout=3600)
            if rc != 0:
                lines = [l for l in out.splitlines() if l.startswith(("VIOLATION", "  failed", "CHECKER", "UNDECIDED", "OUT-OF"))]
                res[p] = {"exit": rc, "lines": lines[:6]}
    sh(f"git -C /repo worktree remove --force {wt}"); shutil.rmtree(wt, ignore_errors=True)
    summary[h] = res
    print(h, "ALL-GREEN" if not res else json.dumps(res, indent=1)[:1500], flush=True)
json.dump(summary, open(os.path.join(VERIF, "harmless", "results.json"), "w"), indent=1)
