"""replay of a hop-count counterexample: run the real get_minimal_hops_to_goal on the topology and compare with
the independently computed documented quantity W / the Steiner bound"""
import json, os, sys
sys.path.insert(0, os.path.dirname(os.path.dirname(os.path.abspath(__file__))))
from checks import c20_hops
rep = json.load(open(sys.argv[1]))
tree = os.environ.get("NASIM_TREE") or os.environ.get("PYVC_REPO") or "/repo"
f = c20_hops._import(tree)
topo, S = rep["topology"], tuple(rep["sensitive_subnets"])
got = int(f(topo, [(s, 0) for s in S]))
w, st = c20_hops.W(topo, S), c20_hops.steiner(topo, S)
bad = got != w
print(json.dumps({"tree": tree, "reproduced": bad, "hops": got, "W": w, "steiner": st,
                  "mismatches": [] if bad else ["hops equals the documented quantity"]}))
sys.exit(0 if bad else 1)
