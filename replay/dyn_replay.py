"""replay of dynamics-cluster counterexamples against the REAL classes of the tree under test.

A replay file holds the concrete inputs extracted from the solver model and the outputs the engine
predicts for them.  The real function is run on the inputs; if its outputs equal the predicted ones,
the violated obligation (false under that model) is violated by the real code.
"""
import json
import math
import os
import sys


def _import_nasim():
    tree = os.environ.get("NASIM_TREE") or os.environ.get("PYVC_REPO") or "/repo"
    if tree not in sys.path:
        sys.path.insert(0, tree)
    import nasim  # noqa
    return tree, nasim.__file__


def names(sc):
    return ([f"os{k}" for k in range(sc["n_os"])], [f"srv{k}" for k in range(sc["n_srv"])],
            [f"proc{k}" for k in range(sc["n_proc"])])


def build(sc, tensor=None):
    import numpy as np
    from nasim.scenarios.scenario import Scenario
    from nasim.scenarios.host import Host
    from nasim.envs.network import Network
    from nasim.envs.state import State
    from nasim.envs.host_vector import HostVector
    import nasim.scenarios.utils as u
    osn, srvn, procn = names(sc)
    hosts = {}
    for i, ad in enumerate(sc["addrs"]):
        ad = tuple(ad)
        fw = {}
        for k, v in sc["host_firewall"].get(f"{ad[0]},{ad[1]}", {}).items():
            fw[tuple(int(x) for x in k.split(","))] = [srvn[j] for j in v]
        cfg = sc.get("cfg")
        hosts[ad] = Host(address=ad,
                         os={n: bool(cfg["os"][i][k]) if cfg else False for k, n in enumerate(osn)},
                         services={n: bool(cfg["srv"][i][k]) if cfg else False for k, n in enumerate(srvn)},
                         processes={n: bool(cfg["proc"][i][k]) if cfg else False for k, n in enumerate(procn)},
                         firewall=fw, value=sc["hval"][i], discovery_value=sc["dval"][i])
    fw = {tuple(int(x) for x in k.split(",")): [srvn[j] for j in v] for k, v in sc["firewall"].items()}
    d = {u.SUBNETS: list(sc["subnets"]), u.TOPOLOGY: [list(r) for r in sc["topology"]], u.OS: osn, u.SERVICES: srvn,
         u.PROCESSES: procn, u.SENSITIVE_HOSTS: {tuple(a): 1.0 for a in sc["sensitive"]}, u.EXPLOITS: {},
         u.PRIVESCS: {}, u.SERVICE_SCAN_COST: 1, u.OS_SCAN_COST: 1, u.SUBNET_SCAN_COST: 1, u.PROCESS_SCAN_COST: 1,
         u.FIREWALL: fw, u.HOSTS: hosts, u.STEP_LIMIT: None, u.ADDRESS_SPACE_BOUNDS: tuple(sc["bounds"])}
    scenario = Scenario(d, name="replay")
    net = Network(scenario)
    HostVector.reset()
    h0 = hosts[tuple(sc["addrs"][0])]
    HostVector._initialize(tuple(sc["bounds"]), h0.services, h0.os, h0.processes)
    state = None
    if tensor is not None:
        state = State(np.array(tensor, dtype=np.float32), scenario.host_num_map)
    return scenario, net, state


def make_action(sc, a):
    from nasim.envs import action as A
    osn, srvn, procn = names(sc)
    k = a["kind"]
    if k == "NoOp":
        return A.NoOp()
    tgt = tuple(a["target"])
    common = dict(target=tgt, cost=a["cost"], prob=a["prob"], req_access=a["req"])
    if k == "Exploit":
        return A.Exploit(name="e", service=srvn[a["service"]], os=None if a["os"] == -1 else osn[a["os"]],
                         access=a["access"], **common)
    if k == "PrivilegeEscalation":
        return A.PrivilegeEscalation(name="pe", process=None if a["process"] == -1 else procn[a["process"]],
                                     os=None if a["os"] == -1 else osn[a["os"]], access=a["access"], **common)
    return getattr(A, k)(**common)


def close(x, y, tol=1e-4):
    if isinstance(x, bool) or isinstance(y, bool):
        return bool(x) == bool(y)
    if isinstance(x, (int, float)) and isinstance(y, (int, float)):
        return math.isclose(float(x), float(y), rel_tol=tol, abs_tol=tol)
    if isinstance(x, (list, tuple)) and isinstance(y, (list, tuple)):
        return len(x) == len(y) and all(close(a, b, tol) for a, b in zip(x, y))
    if isinstance(x, dict) and isinstance(y, dict):
        return set(x) == set(y) and all(close(x[k], y[k], tol) for k in x)
    return x == y


def env_step_oracle(rep, scenario, state, act, fake_rand, draws):
    """native evaluation of the environment-level clauses (C05 reward, C06 done/limit/counter, C13 purity/agreement)
    on the real NASimEnv for the inputs of the counterexample"""
    import numpy as np
    import copy
    from nasim.envs.environment import NASimEnv
    import nasim.scenarios.utils as u
    scenario.scenario_dict[u.STEP_LIMIT] = rep.get("step_limit")
    env = NASimEnv(scenario, fully_obs=rep["modes"]["fully_obs"], flat_actions=True, flat_obs=rep["modes"]["flat_obs"])
    from nasim.envs.host_vector import HostVector
    HostVector.reset()
    h0 = scenario.hosts[tuple(rep["scenario"]["addrs"][0])]
    HostVector._initialize(tuple(rep["scenario"]["bounds"]), h0.services, h0.os, h0.processes)
    env.current_state = state
    env.steps = rep["steps0"]
    d0 = list(rep.get("draws") or [0.5])
    bad = []
    # generative step first (must be pure), with the same draw
    draws[:] = list(d0)
    before_T = state.tensor.copy()
    before_steps, before_cur, before_obs = env.steps, env.current_state, env.last_obs
    before_obs_T = env.last_obs.tensor.copy()
    ns, gobs, grew, gdone, ginfo = env.generative_step(state, act)
    if not np.array_equal(state.tensor, before_T): bad.append("C13.pure: generative_step modified its input state")
    if env.steps != before_steps or env.current_state is not before_cur or env.last_obs is not before_obs \
       or not np.array_equal(env.last_obs.tensor, before_obs_T):
        bad.append("C13.pure: generative_step modified the environment")
    if np.shares_memory(ns.tensor, state.tensor): bad.append("C13.fresh: next state shares storage with its input")
    goal = all(ns.get_host(a).access >= 2 for a in scenario.sensitive_addresses)
    if bool(gdone) != bool(goal): bad.append("C06.done: terminal flag differs from goal predicate of the next state")
    if abs(float(grew) - (float(ginfo["value"]) - float(act.cost))) > 1e-6: bad.append("C05.reward: reward != value - cost")
    # now the real step with the same draw
    draws[:] = list(d0)
    o, rew, done, lim, info = env.step(act)
    if abs(float(rew) - float(grew)) > 1e-6 or bool(done) != bool(gdone):
        bad.append("C13.agrees: step and generative_step disagree on reward/terminal flag")
    if not np.array_equal(env.current_state.tensor, ns.tensor): bad.append("C13.installs: current state is not the generative next state")
    if not np.array_equal(state.tensor, before_T):
        bad.append("C13.installs: step overwrote the State object that was current (a state handed out earlier changes under its holder)")
    if np.shares_memory(env.current_state.tensor, state.tensor) and not np.array_equal(ns.tensor, before_T):
        bad.append("C13.fresh: the new current state shares storage with the previous one")
    if env.steps != rep["steps0"] + 1: bad.append("C06.counter: step counter not incremented by one")
    want_lim = rep.get("step_limit") is not None and rep["steps0"] + 1 >= rep["step_limit"]
    if bool(lim) != bool(want_lim): bad.append(f"C06.limit-flag: flag {lim} but steps={rep['steps0'] + 1} limit={rep.get('step_limit')}")
    exp_shape = gobs.numpy_flat().shape if rep["modes"]["flat_obs"] else gobs.numpy().shape
    if tuple(o.shape) != tuple(exp_shape): bad.append("C10: observation shape")
    return {"clause_failures": bad}


def _add_actions(scenario, sc, variant=0):
    """exploit / escalation tables for the environment-level oracles, including two definitions of the same
    (service, os) and (process, os) pair (valid: the first definition is the one the parameterised space decodes to)"""
    import nasim.scenarios.utils as u
    osn, srvn, procn = names(sc)
    scenario.scenario_dict[u.EXPLOITS] = {
        "e_a": {u.EXPLOIT_SERVICE: srvn[0], u.EXPLOIT_OS: None, u.EXPLOIT_PROB: 1.0, u.EXPLOIT_COST: 1, u.EXPLOIT_ACCESS: 1},
        "e_b": {u.EXPLOIT_SERVICE: srvn[-1], u.EXPLOIT_OS: osn[0], u.EXPLOIT_PROB: 0.5, u.EXPLOIT_COST: 2, u.EXPLOIT_ACCESS: 2},
        "e_c": {u.EXPLOIT_SERVICE: srvn[0], u.EXPLOIT_OS: None, u.EXPLOIT_PROB: 0.25, u.EXPLOIT_COST: 3, u.EXPLOIT_ACCESS: 2}}
    scenario.scenario_dict[u.PRIVESCS] = {
        "p_a": {u.PRIVESC_PROCESS: procn[0], u.PRIVESC_OS: None, u.PRIVESC_PROB: 1.0, u.PRIVESC_COST: 1, u.PRIVESC_ACCESS: 2},
        "p_b": {u.PRIVESC_PROCESS: procn[0], u.PRIVESC_OS: None, u.PRIVESC_PROB: 0.5, u.PRIVESC_COST: 2, u.PRIVESC_ACCESS: 2}}
    if variant == 1:
        # the only ROOT-granting exploit is a LATER definition of an already defined (service, os) pair: it is in the flat
        # action list but not in exploit_map (which keeps the first definition of a pair)
        scenario.scenario_dict[u.EXPLOITS]["e_b"][u.EXPLOIT_ACCESS] = 1
    scenario._e_map = None
    scenario._pe_map = None
    return 3, 2


def env_action_mask_oracle(rep, scenario, state):
    """native evaluation of the C11 action-mask clauses on the real NASimEnv: mask[k] == 1 exactly when the target
    of flat action k is a discovered host of the CURRENT state (the discovered cell is read straight from the tensor
    at the documented offset, not through the code's accessors); the call changes nothing"""
    import numpy as np
    from nasim.envs.environment import NASimEnv
    import nasim.scenarios.utils as u
    sc = rep["scenario"]
    osn, srvn, procn = names(sc)
    n_e, n_p = _add_actions(scenario, sc, rep.get("actions_variant", 0))
    env = NASimEnv(scenario, fully_obs=False, flat_actions=True, flat_obs=True)
    from nasim.envs.host_vector import HostVector
    HostVector.reset()
    h0 = scenario.hosts[tuple(sc["addrs"][0])]
    HostVector._initialize(tuple(sc["bounds"]), h0.services, h0.os, h0.processes)
    env.current_state = state
    env.steps = rep.get("steps0", 0)
    before_T = state.tensor.copy()
    before_obs, before_obs_T = env.last_obs, env.last_obs.tensor.copy()
    n = env.action_space.n
    targets = [tuple(env.action_space.get_action(k).target) for k in range(n)]
    mask = env.get_action_mask()
    bad = []
    disc_col = sc["bounds"][0] + sc["bounds"][1] + 2
    addrs = [tuple(a) for a in sc["addrs"]]
    want = [int(before_T[addrs.index(t)][disc_col] != 0) for t in targets]
    m = np.asarray(mask)
    if m.ndim != 1: bad.append("C11.mask-is-vector: mask is not one-dimensional")
    elif m.shape[0] != n: bad.append(f"C11.mask-length: {m.shape[0]} entries for {n} flat actions")
    elif [int(x) for x in m] != want: bad.append(f"C11.mask-entries: mask {[int(x) for x in m]} but discovered-target flags {want}")
    if not np.array_equal(state.tensor, before_T) or env.current_state is not state:
        bad.append("C11.mask-pure: get_action_mask modified the current state")
    if env.steps != rep.get("steps0", 0) or env.last_obs is not before_obs or not np.array_equal(env.last_obs.tensor, before_obs_T):
        bad.append("C11.mask-pure: get_action_mask modified the environment")
    return {"clause_failures": bad, "n_actions": int(n)}


def action_decode_oracle(rep, scenario):
    """native evaluation of the decode clauses (C10 / C11 / C12) on the real action spaces: every vector of the
    parameterised space - handed over as a list, a tuple or an int64 ndarray - decodes without error to the documented
    action (host index modulo the subnet size, first definition of a (service|process, os) pair, undefined pair ->
    zero-cost no-op), the caller's vector is left untouched (decoding it again gives the same action), and flat indices
    given as python ints or NumPy integers give the action at that position of load_action_list"""
    import numpy as np
    from nasim.envs.action import ParameterisedActionSpace, FlatActionSpace, load_action_list
    sc = rep["scenario"]
    osn, srvn, procn = names(sc)
    _add_actions(scenario, sc, rep.get("actions_variant", 0))
    import nasim.scenarios.utils as u
    E, P = scenario.scenario_dict[u.EXPLOITS], scenario.scenario_dict[u.PRIVESCS]
    bad = []
    psp = ParameterisedActionSpace(scenario)
    nvec = [int(x) for x in psp.nvec]
    rng = __import__("random").Random(rep.get("seed", 0))
    subs = sc["subnets"]

    def expect(v):
        t, s_, h_, o_, sv, pr = v
        sub = s_ + 1
        tgt = (sub, h_ % subs[sub])
        os_ = None if o_ == 0 else osn[o_ - 1]
        kinds = ["Exploit", "PrivilegeEscalation", "ServiceScan", "OSScan", "SubnetScan", "ProcessScan"]
        k = kinds[t]
        if k == "Exploit":
            d = next((e for e in E.values() if e[u.EXPLOIT_SERVICE] == srvn[sv] and e[u.EXPLOIT_OS] == os_), None)
            if d is None:
                return ("NoOp", None, 0.0, None)
            return (k, tgt, float(d[u.EXPLOIT_COST]), (srvn[sv], os_, float(d[u.EXPLOIT_PROB]), int(d[u.EXPLOIT_ACCESS])))
        if k == "PrivilegeEscalation":
            d = next((e for e in P.values() if e[u.PRIVESC_PROCESS] == procn[pr] and e[u.PRIVESC_OS] == os_), None)
            if d is None:
                return ("NoOp", None, 0.0, None)
            return (k, tgt, float(d[u.PRIVESC_COST]), (procn[pr], os_, float(d[u.PRIVESC_PROB]), int(d[u.PRIVESC_ACCESS])))
        return (k, tgt, 1.0, None)

    def describe(a):
        k = type(a).__name__
        if k == "NoOp":
            return ("NoOp", None, float(a.cost), None)
        extra = None
        if k == "Exploit":
            extra = (a.service, a.os, float(a.prob), int(a.access))
        if k == "PrivilegeEscalation":
            extra = (a.process, a.os, float(a.prob), int(a.access))
        return (k, tuple(int(x) for x in a.target), float(a.cost), extra)
    for _ in range(rep.get("n_vectors", 12)):
        v = [rng.randrange(n) for n in nvec]
        want = expect(v)
        for form in ("list", "tuple", "int64-array", "int32-array"):
            arg = list(v) if form == "list" else tuple(v) if form == "tuple" else \
                np.array(v, dtype=np.int64 if form == "int64-array" else np.int32)
            keep = np.array(v)
            try:
                got = describe(psp.get_action(arg))
                again = describe(psp.get_action(arg))
            except Exception as e:
                bad.append(f"C10.decode-never-raises: {form} {v}: {type(e).__name__}: {e}")
                continue
            if got != want:
                bad.append(f"C11.decode: {form} {v}: decoded {got}, documented {want}")
            if not np.array_equal(np.array(arg), keep) or again != got:
                bad.append(f"C12.decode-leaves-the-callers-vector-alone: {form} {v} became {list(np.array(arg))}; second decode {again}")
    flat = FlatActionSpace(scenario)
    ref = load_action_list(scenario)
    if flat.n != len(ref):
        bad.append(f"C11.flat-size: n={flat.n} but load_action_list has {len(ref)} entries")
    # the documented enumeration, computed from the scenario description (not through the code): per host, in host order,
    # the four scans, every exploit, every escalation - in definition order
    addrs_ = [tuple(a) for a in sc["addrs"]]
    K = 4 + len(E) + len(P)
    if flat.n != len(addrs_) * K:
        bad.append(f"C11.flat-size-is-advertised: n={flat.n} for {len(addrs_)} hosts x (4 scans + {len(E)} exploits + {len(P)} escalations)")

    def documented(k):
        h, j = divmod(k, K)
        tgt = addrs_[h]
        if j < 4:
            return (["ServiceScan", "OSScan", "SubnetScan", "ProcessScan"][j], tgt, 1.0, None)
        if j < 4 + len(E):
            d = list(E.values())[j - 4]
            return ("Exploit", tgt, float(d[u.EXPLOIT_COST]), (d[u.EXPLOIT_SERVICE], d[u.EXPLOIT_OS], float(d[u.EXPLOIT_PROB]),
                                                              int(d[u.EXPLOIT_ACCESS])))
        d = list(P.values())[j - 4 - len(E)]
        return ("PrivilegeEscalation", tgt, float(d[u.PRIVESC_COST]), (d[u.PRIVESC_PROCESS], d[u.PRIVESC_OS],
                                                                       float(d[u.PRIVESC_PROB]), int(d[u.PRIVESC_ACCESS])))
    for k in sorted({0, K - 1, K, min(flat.n, len(addrs_) * K) - 1} | {rng.randrange(len(addrs_) * K) for _ in range(4)}):
        if 0 <= k < min(flat.n, len(ref)):
            try:
                if describe(flat.get_action(k)) != documented(k):
                    bad.append(f"C11.flat-enumeration: index {k} holds {describe(flat.get_action(k))}, documented {documented(k)}")
            except Exception as e:
                bad.append(f"C10.flat-index-accepted: {k}: {type(e).__name__}")
    for _ in range(6):
        k = rng.randrange(min(flat.n, len(ref)))
        for idx in (k, np.int64(k), np.int32(k)):
            try:
                a = flat.get_action(idx)
            except Exception as e:
                bad.append(f"C10.flat-index-accepted: {type(idx).__name__} {k}: {type(e).__name__}")
                continue
            if describe(a) != describe(ref[k]):
                bad.append(f"C11.flat-index-to-action: index {k} gives {describe(a)}, list position holds {describe(ref[k])}")
    return {"clause_failures": bad[:6]}


def _width(sc):
    return sc["bounds"][0] + sc["bounds"][1] + 6 + sc["n_os"] + sc["n_srv"] + sc["n_proc"]


def _spec_row(sc, i, initial, old=None):
    """documented host vector of host i as the scenario describes it (computed from the JSON, not through the code)"""
    B0, B1 = sc["bounds"]
    W = _width(sc)
    row = list(old) if old is not None else [0.0] * W
    a = sc["addrs"][i]
    row[a[0]] = 1.0
    row[B0 + a[1]] = 1.0
    c = B0 + B1
    pub = float(sc["topology"][a[0]][0] == 1) if initial else 0.0
    row[c], row[c + 1], row[c + 2] = 0.0, pub, pub
    row[c + 3], row[c + 4], row[c + 5] = float(sc["hval"][i]), float(sc["dval"][i]), 0.0
    cfg = sc.get("cfg")
    o = c + 6
    for k in range(sc["n_os"]):
        row[o + k] = float(bool(cfg["os"][i][k])) if cfg else 0.0
    for k in range(sc["n_srv"]):
        row[o + sc["n_os"] + k] = float(bool(cfg["srv"][i][k])) if cfg else 0.0
    for k in range(sc["n_proc"]):
        row[o + sc["n_os"] + sc["n_srv"] + k] = float(bool(cfg["proc"][i][k])) if cfg else 0.0
    return row


def _layout_failures(sc):
    """HostVector's class attributes against the documented layout of the scenario"""
    from nasim.envs.host_vector import HostVector as HV
    B0, B1 = sc["bounds"]
    c = B0 + B1
    osn, srvn, procn = names(sc)
    want = {"_subnet_address_idx": 0, "_host_address_idx": B0, "_compromised_idx": c, "_reachable_idx": c + 1,
            "_discovered_idx": c + 2, "_value_idx": c + 3, "_discovery_value_idx": c + 4, "_access_idx": c + 5,
            "_os_start_idx": c + 6, "_service_start_idx": c + 6 + sc["n_os"],
            "_process_start_idx": c + 6 + sc["n_os"] + sc["n_srv"], "state_size": _width(sc),
            "num_os": sc["n_os"], "num_services": sc["n_srv"], "num_processes": sc["n_proc"]}
    bad = []
    got = {k: getattr(HV, k, None) for k in want}
    if any(got[k] != want[k] for k in want) or tuple(HV.address_space_bounds or ()) != (B0, B1):
        bad.append(f"C09.layout-constants: {({k: got[k] for k in want if got[k] != want[k]})} bounds={HV.address_space_bounds}")
    for attr, nm in (("os_idx_map", osn), ("service_idx_map", srvn), ("process_idx_map", procn)):
        if dict(getattr(HV, attr, {}) or {}) != {n: k for k, n in enumerate(nm)}:
            bad.append(f"C09.{attr}-is-scenario-order: {getattr(HV, attr, None)}")
    return bad


def _garbage_layout(sc, mode="other"):
    """an arbitrary previous global layout (another scenario's): the functions must not depend on it.  Modes: a
    completely different one; one with the same bounds and the same NAMES in another order (a scenario that lists its
    services / OSs / processes differently); one with the same names and other bounds"""
    from nasim.envs.host_vector import HostVector as HV
    HV.reset()
    osn, srvn, procn = names(sc)
    rev = lambda ns: {n: False for n in reversed(ns)}
    if mode != "other":
        # history: a scenario with a completely different layout came first, so that whatever the class remembers about
        # "the layout it was last initialised for" cannot make the next (permuted) initialisation a no-op
        HV._initialize((sc["bounds"][0] + 2, sc["bounds"][1] + 3), {"x": False, "y": False, "z": False}, {"p": False},
                       {"q": False, "r": False, "s": False, "t": False})
        HV.reset()
    if mode == "same-names-permuted":
        HV._initialize(tuple(sc["bounds"]), rev(srvn), rev(osn), rev(procn))
    elif mode == "same-names-other-bounds":
        HV._initialize((sc["bounds"][0] + 1, sc["bounds"][1] + 2), rev(srvn), rev(osn), rev(procn))
    else:
        HV._initialize((sc["bounds"][0] + 2, sc["bounds"][1] + 3), {"x": False, "y": False, "z": False}, {"p": False},
                       {"q": False, "r": False, "s": False, "t": False})


def layout_oracle(rep, scenario, net, state):
    """native evaluation of the C09 layout clauses for _update_vector_idxs / _initialize / vectorize / tensorize /
    generate_initial_state on the real classes"""
    import numpy as np
    from nasim.envs.host_vector import HostVector as HV
    from nasim.envs.state import State
    sc = rep["scenario"]
    fn = rep["qualname"].rsplit(".", 1)[1]
    variant = rep.get("variant", "default")
    prev = rep.get("prev_layout", "other")
    bounds = tuple(sc["bounds"])
    addrs = [tuple(a) for a in sc["addrs"]]
    h0 = scenario.hosts[addrs[0]]
    bad = []
    close_rows = lambda x, y: len(x) == len(y) and all(abs(float(a) - float(b)) < 1e-6 for a, b in zip(x, y))
    if fn == "_update_vector_idxs":
        _garbage_layout(sc, prev)
        HV.address_space_bounds = bounds
        HV.num_os, HV.num_services, HV.num_processes = sc["n_os"], sc["n_srv"], sc["n_proc"]
        HV._update_vector_idxs()
        bad += [b for b in _layout_failures(sc) if b.startswith("C09.layout-constants")]
    elif fn == "_initialize":
        _garbage_layout(sc, prev)
        HV._initialize(bounds, h0.services, h0.os, h0.processes)
        bad += _layout_failures(sc)
    elif fn == "vectorize":
        vec_kind, cls_kind = variant.split("/")
        _garbage_layout(sc, prev)
        if cls_kind == "initialised":
            HV.reset()
            HV._initialize(bounds, h0.services, h0.os, h0.processes)
        else:
            HV.reset()
        i = rep.get("host_index", 0)
        host = scenario.hosts[addrs[i]]
        if vec_kind == "given-row":
            T = np.array(rep["tensor"], dtype=np.float32)
            before = T.copy()
            hv = HV.vectorize(host, bounds, T[i])
            if not np.shares_memory(hv.vector, T): bad.append("C09.writes-into-given-vector: result does not use the given vector")
            if not close_rows(list(T[i]), _spec_row(sc, i, False, old=list(before[i]))):
                bad.append(f"C09.row: row {list(map(float, T[i]))} expected {_spec_row(sc, i, False, old=list(before[i]))}")
            if any(not np.array_equal(T[j], before[j]) for j in range(len(addrs)) if j != i):
                bad.append("C09.other-rows-untouched: another row of the tensor changed")
        else:
            hv = HV.vectorize(host, bounds)
            if not close_rows(list(hv.vector), _spec_row(sc, i, False)):
                bad.append(f"C09.row: vector {list(map(float, hv.vector))} expected {_spec_row(sc, i, False)}")
        bad += _layout_failures(sc)
    elif fn == "tensorize":
        _garbage_layout(sc, prev)
        HV.reset()
        st = State.tensorize(net)
        rows = [list(map(float, r)) for r in st.tensor]
        if len(rows) != len(addrs) or any(not close_rows(rows[i], _spec_row(sc, i, False)) for i in range(len(addrs))):
            bad.append(f"C09.initial-rows: tensor {rows}")
        bad += _layout_failures(sc)
    elif fn == "generate_initial_state":
        _garbage_layout(sc, prev)
        st = State.generate_initial_state(net)
        rows = [list(map(float, r)) for r in st.tensor]
        if len(rows) != len(addrs) or any(not close_rows(rows[i], _spec_row(sc, i, True)) for i in range(len(addrs))):
            bad.append(f"C09.initial-state-decodes-to-scenario: tensor {rows}")
        bad += ["C19." + b[4:] if b.startswith("C09.") else b for b in _layout_failures(sc)]
    else:
        raise SystemExit(f"layout oracle: unknown function {fn}")
    return {"clause_failures": bad}


def scalar_oracle(rep, scenario, net, state):
    """native evaluation of the clauses of the scalar queries (dims, sizes, bounds, totals, score bound, goal query):
    the expected value is computed from the JSON description of the scenario / state, not through the code"""
    import numpy as np
    import nasim.scenarios.utils as u
    sc = rep["scenario"]
    fn = rep["qualname"].rsplit(".", 1)[1]
    N, W = len(sc["addrs"]), _width(sc)
    osn, srvn, procn = names(sc)
    addrs = [tuple(a) for a in sc["addrs"]]
    sens = [tuple(a) for a in sc["sensitive"]]
    # sensitive values as the scenario would hold them: the host's value
    sval = {a: float(sc["hval"][addrs.index(a)]) for a in sens}
    scenario.scenario_dict[u.SENSITIVE_HOSTS] = dict(sval)
    n_e, n_p = _add_actions(scenario, sc, rep.get("actions_variant", 0))
    from nasim.envs.network import Network
    net = Network(scenario)
    bad = []
    eq = lambda x, y: abs(float(x) - float(y)) < 1e-6
    if fn == "get_state_dims":
        got = scenario.get_state_dims()
        if not (isinstance(got, tuple) and len(got) == 2): bad.append(f"C09.dims-tuple: {got!r}")
        elif (int(got[0]), int(got[1])) != (N, W): bad.append(f"C09.state-dims: {got} expected {(N, W)}")
    elif fn == "get_observation_dims":
        got = scenario.get_observation_dims()
        if not (isinstance(got, tuple) and len(got) == 2): bad.append(f"C09.dims-tuple: {got!r}")
        elif (int(got[0]), int(got[1])) != (N + 1, W): bad.append(f"C09.observation-dims: {got} expected {(N + 1, W)}")
    elif fn == "get_action_space_size":
        got = scenario.get_action_space_size()
        if int(got) != N * (4 + n_e + n_p): bad.append(f"C11.advertised-size: {got} expected {N * (4 + n_e + n_p)}")
    elif fn in ("host_value_bounds", "host_discovery_value_bounds"):
        got = getattr(scenario, fn)
        vals = sc["hval"] if fn == "host_value_bounds" else sc["dval"]
        if not (isinstance(got, tuple) and len(got) == 2): bad.append(f"C10.bounds-tuple: {got!r}")
        elif not all(float(got[0]) - 1e-9 <= float(v) <= float(got[1]) + 1e-9 for v in vals):
            bad.append(f"C10.bounds-cover-all-hosts: bounds {got} values {vals}")
    elif fn == "get_total_sensitive_host_value":
        got = net.get_total_sensitive_host_value()
        if not eq(got, sum(sval.values())): bad.append(f"C20.total-is-the-sum: {got} expected {sum(sval.values())}")
    elif fn == "get_total_discovery_value":
        got = net.get_total_discovery_value()
        if not eq(got, sum(float(v) for v in sc["dval"])): bad.append(f"C20.total-is-the-sum: {got} expected {sum(sc['dval'])}")
    elif fn == "get_score_upper_bound":
        from nasim.envs.environment import NASimEnv
        env = NASimEnv(scenario, fully_obs=False, flat_actions=True, flat_obs=True)
        got = env.get_score_upper_bound()
        want = sum(sval.values()) + sum(float(v) for v in sc["dval"]) - env.network.get_minimal_hops()
        if not eq(got, want): bad.append(f"C20.bound-is-values-minus-hops: {got} expected {want}")
    elif fn == "goal_reached":
        from nasim.envs.environment import NASimEnv
        from nasim.envs.host_vector import HostVector as HV
        env = NASimEnv(scenario, fully_obs=False, flat_actions=True, flat_obs=True)
        HV.reset()
        h0 = scenario.hosts[addrs[0]]
        HV._initialize(tuple(sc["bounds"]), h0.services, h0.os, h0.processes)
        acc_col = sc["bounds"][0] + sc["bounds"][1] + 5
        before = state.tensor.copy()
        want = all(before[addrs.index(a)][acc_col] >= 2 for a in sens)
        env.current_state = state
        for arg in ((), (state,)):
            got = env.goal_reached(*arg)
            if bool(got) != bool(want): bad.append(f"C06.goal-query: goal_reached{'(state)' if arg else '()'} = {got}, sensitive hosts rooted = {want}")
        if not np.array_equal(state.tensor, before) or env.current_state is not state:
            bad.append("C06.pure: goal_reached modified the state")
    else:
        raise SystemExit(f"scalar oracle: unknown function {fn}")
    return {"clause_failures": bad}


def result_dict(res):
    out = {k: bool(getattr(res, k)) for k in ("success", "connection_error", "permission_error", "undefined_error")}
    out["value"] = float(res.value)
    out["discovered"] = {f"{a[0]},{a[1]}": bool(v) for a, v in res.discovered.items()}
    out["newly_discovered"] = {f"{a[0]},{a[1]}": bool(v) for a, v in res.newly_discovered.items()}
    return out


def run(rep):
    import numpy as np
    tree, nasim_file = _import_nasim()
    sc = rep["scenario"]
    h = rep["harness"]
    draws = list(rep.get("draws", []))
    calls = {"n": 0}
    orig = np.random.rand

    def fake_rand(*a):
        calls["n"] += 1
        return draws.pop(0) if draws else 0.5
    np.random.rand = fake_rand
    actual = {"exception": None}
    try:
        scenario, net, state = build(sc, rep.get("tensor"))
        act = make_action(sc, rep["action"]) if "action" in rep else None
        try:
            if h == "hv_perform_action":
                from nasim.envs.host_vector import HostVector
                vec = np.array(rep["vector"], dtype=np.float32)
                hv = HostVector(vec)
                nxt, res = hv.perform_action(act)
                actual["next_vector"] = [float(x) for x in nxt.vector]
                actual["result"] = result_dict(res)
                actual["input_vector_after"] = [float(x) for x in vec]
                actual["aliased"] = bool(np.shares_memory(nxt.vector, vec))
                actual["__live__"] = [nxt.vector]
            elif h == "net_perform_action":
                nxt, res = net.perform_action(state, act)
                actual["next_tensor"] = nxt.tensor.tolist()
                actual["result"] = result_dict(res)
                actual["input_tensor_after"] = state.tensor.tolist()
                actual["aliased"] = bool(np.shares_memory(nxt.tensor, state.tensor))
                actual["__live__"] = [nxt.tensor]
            elif h == "net_subnet_scan":
                nxt, res = net._perform_subnet_scan(state, act)
                actual["next_tensor"] = nxt.tensor.tolist()
                actual["result"] = result_dict(res)
                # history frame on the SAME network object: a second scan (other source host, fully compromised copy of
                # the state) must not change what the first scan returned
                first = (dict(res.discovered), dict(res.newly_discovered), bool(res.success), float(res.value))
                try:
                    from nasim.envs.state import State
                    from nasim.envs.action import SubnetScan
                    T2 = np.array(rep["tensor"], dtype=np.float32)
                    c0 = sc["bounds"][0] + sc["bounds"][1]
                    T2[:, c0] = 1.0; T2[:, c0 + 1] = 1.0; T2[:, c0 + 2] = 0.0; T2[:, c0 + 5] = 2.0
                    for other in sc["addrs"]:
                        if tuple(other) != tuple(act.target):
                            T2[[tuple(a) for a in sc["addrs"]].index(tuple(other)), c0 + 2] = 1.0
                            net._perform_subnet_scan(State(T2, scenario.host_num_map), SubnetScan(tuple(other), 1.0))
                            break
                except Exception:
                    pass
                if first != (dict(res.discovered), dict(res.newly_discovered), bool(res.success), float(res.value)):
                    actual["earlier_result_modified_same_object"] = True
            elif h == "net_reset":
                nxt = net.reset(state)
                actual["next_tensor"] = nxt.tensor.tolist()
                actual["__live__"] = [nxt.tensor]
                actual["input_tensor_after"] = state.tensor.tolist()
            elif h == "net_update_reachable":
                net._update_reachable(state, tuple(rep["compromised_addr"]))
                actual["next_tensor"] = state.tensor.tolist()
            elif h == "net_hrp":
                actual["result"] = bool(net.has_required_remote_permission(state, act))
                actual["input_tensor_after"] = state.tensor.tolist()
            elif h == "net_tp":
                osn, srvn, procn = names(sc)
                actual["result"] = bool(net.traffic_permitted(state, tuple(rep["host_addr"]), srvn[rep["service"]]))
                actual["input_tensor_after"] = state.tensor.tolist()
            elif h == "state_get_observation":
                from nasim.envs.action import ActionResult
                r = rep["result"]
                pa = lambda d: {tuple(int(x) for x in k.split(",")): v for k, v in d.items()}
                res = ActionResult(r["success"], r["value"], discovered=pa(r.get("discovered", {})),
                                   newly_discovered=pa(r.get("newly_discovered", {})),
                                   connection_error=r["connection_error"], permission_error=r["permission_error"],
                                   undefined_error=r["undefined_error"], access=r.get("access"))
                obs = state.get_observation(act, res, rep["fully_obs"])
                actual["obs_tensor"] = obs.tensor.tolist()
                actual["input_tensor_after"] = state.tensor.tolist()
                actual["aliased"] = bool(np.shares_memory(obs.tensor, state.tensor))
                actual["obs_dtype"] = str(obs.tensor.dtype)
                actual["__live__"] = [obs.tensor]
            elif h == "state_get_initial_observation":
                obs = state.get_initial_observation(rep["fully_obs"])
                actual["obs_tensor"] = obs.tensor.tolist()
                actual["input_tensor_after"] = state.tensor.tolist()
                actual["aliased"] = bool(np.shares_memory(obs.tensor, state.tensor))
                actual["obs_dtype"] = str(obs.tensor.dtype)
                actual["__live__"] = [obs.tensor]
            elif h == "env_action_mask":
                actual.update(env_action_mask_oracle(rep, scenario, state))
            elif h == "action_decode":
                actual.update(action_decode_oracle(rep, scenario))
            elif h == "layout":
                actual.update(layout_oracle(rep, scenario, net, state))
            elif h == "scn_scalar":
                actual.update(scalar_oracle(rep, scenario, net, state))
            elif h == "hv_observe":
                from nasim.envs.host_vector import HostVector
                vec = np.array(rep["vector"], dtype=np.float32)
                o = HostVector(vec).observe(**rep["switches"])
                actual["obs_vector"] = [float(x) for x in o]
            elif h == "env_step":
                actual.update(env_step_oracle(rep, scenario, state, act, fake_rand, draws))
            elif h == "net_goal":
                actual["result"] = bool(net.all_sensitive_hosts_compromised(state))
                actual["input_tensor_after"] = state.tensor.tolist()
            else:
                raise SystemExit(f"unknown harness {h}")
        except Exception as e:      # the real code raised
            actual["exception"] = type(e).__name__
    finally:
        np.random.rand = orig
    actual["draws_used"] = calls["n"]
    if not rep.get("__keep_live__"):
        pass
    pred = rep.get("predicted", {})
    mism = []
    if h in ("env_step", "env_action_mask", "layout", "scn_scalar", "action_decode"):
        # clause-level native oracle: reproduced iff some environment-level clause fails on the real code
        fails = actual.get("clause_failures", [])
        if actual.get("exception"):
            fails = fails + [f"raised {actual['exception']}"]
        return {"tree": tree, "nasim_file": nasim_file, "reproduced": bool(fails),
                "mismatches": [] if fails else ["every environment-level clause holds on the real code for this input"],
                "clause_failures": fails, "actual": actual}
    for k, v in pred.items():
        if k not in actual:
            continue
        if k == "result" and isinstance(v, dict):
            for kk, vv in v.items():
                if kk in actual["result"] and not close(vv, actual["result"][kk]):
                    mism.append(f"result.{kk}: predicted {vv} actual {actual['result'][kk]}")
        elif not close(v, actual[k]):
            mism.append(f"{k}: predicted {v} actual {actual[k]}")
    return {"tree": tree, "nasim_file": nasim_file, "reproduced": not mism, "mismatches": mism, "actual": actual}


if __name__ == "__main__" and len(sys.argv) > 2 and sys.argv[1] == "--batch-actual":
    # run the real code on every input and print what it computed (used by the run-time contract fallback)
    # history frame: what an earlier call returned must not be modified by a later call of the same function on other
    # inputs (recycled buffers, shared result caches): the last few live result arrays are kept and compared with the
    # snapshot taken when they were returned
    import numpy as _np
    reps = json.load(open(sys.argv[2]))
    outs = []
    kept = []
    for rep in reps:
        try:
            a = run(rep)["actual"]
            live = a.pop("__live__", [])
            a["earlier_result_modified"] = any(not _np.array_equal(x, snap) for x, snap in kept) or \
                bool(a.pop("earlier_result_modified_same_object", False))
            if a["earlier_result_modified"]:
                kept = []
            kept = (kept + [(x, _np.array(x, copy=True)) for x in live])[-4:]
            outs.append(a)
        except Exception as e:
            outs.append({"exception": f"harness:{type(e).__name__}: {e}"})
    print("@@JSON@@" + json.dumps(outs))
    sys.exit(0)

if __name__ == "__main__" and len(sys.argv) > 2 and sys.argv[1] == "--batch":
    reps = json.load(open(sys.argv[2]))
    outs = []
    for rep in reps:
        try:
            o = run(rep)
            o["actual"].pop("__live__", None)
            outs.append({"reproduced": o["reproduced"], "mismatches": o["mismatches"][:5]})
        except Exception as e:
            outs.append({"reproduced": False, "mismatches": [f"replay raised {type(e).__name__}: {e}"]})
    print("@@JSON@@" + json.dumps(outs))
    sys.exit(0)

if __name__ == "__main__":
    rep = json.load(open(sys.argv[1]))
    out = run(rep)
    out["actual"].pop("__live__", None)
    print(json.dumps({k: out[k] for k in ("tree", "nasim_file", "reproduced", "mismatches")}, indent=1))
    sys.exit(0 if out["reproduced"] else 1)
