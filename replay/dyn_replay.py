"""replay of dynamics-cluster counterexamples against the REAL classes of the tree under test.

A replay file holds the concrete inputs extracted from the solver model and the outputs the engine
predicts for them.  The real function is run on the inputs; if its outputs equal the predicted ones,
the violated obligation (false under that model) is violated by the real code.
"""
import json
import math
import os
import sys


def _import_nasim():
    tree = os.environ.get("NASIM_TREE") or os.environ.get("PYVC_REPO") or "/repo"
    if tree not in sys.path:
        sys.path.insert(0, tree)
    import nasim  # noqa
    return tree, nasim.__file__


def names(sc):
    return ([f"os{k}" for k in range(sc["n_os"])], [f"srv{k}" for k in range(sc["n_srv"])],
            [f"proc{k}" for k in range(sc["n_proc"])])


def build(sc, tensor=None):
    import numpy as np
    from nasim.scenarios.scenario import Scenario
    from nasim.scenarios.host import Host
    from nasim.envs.network import Network
    from nasim.envs.state import State
    from nasim.envs.host_vector import HostVector
    import nasim.scenarios.utils as u
    osn, srvn, procn = names(sc)
    hosts = {}
    for i, ad in enumerate(sc["addrs"]):
        ad = tuple(ad)
        fw = {}
        for k, v in sc["host_firewall"].get(f"{ad[0]},{ad[1]}", {}).items():
            fw[tuple(int(x) for x in k.split(","))] = [srvn[j] for j in v]
        hosts[ad] = Host(address=ad, os={n: False for n in osn}, services={n: False for n in srvn},
                         processes={n: False for n in procn}, firewall=fw, value=sc["hval"][i],
                         discovery_value=sc["dval"][i])
    fw = {tuple(int(x) for x in k.split(",")): [srvn[j] for j in v] for k, v in sc["firewall"].items()}
    d = {u.SUBNETS: list(sc["subnets"]), u.TOPOLOGY: [list(r) for r in sc["topology"]], u.OS: osn, u.SERVICES: srvn,
         u.PROCESSES: procn, u.SENSITIVE_HOSTS: {tuple(a): 1.0 for a in sc["sensitive"]}, u.EXPLOITS: {},
         u.PRIVESCS: {}, u.SERVICE_SCAN_COST: 1, u.OS_SCAN_COST: 1, u.SUBNET_SCAN_COST: 1, u.PROCESS_SCAN_COST: 1,
         u.FIREWALL: fw, u.HOSTS: hosts, u.STEP_LIMIT: None, u.ADDRESS_SPACE_BOUNDS: tuple(sc["bounds"])}
    scenario = Scenario(d, name="replay")
    net = Network(scenario)
    HostVector.reset()
    h0 = hosts[tuple(sc["addrs"][0])]
    HostVector._initialize(tuple(sc["bounds"]), h0.services, h0.os, h0.processes)
    state = None
    if tensor is not None:
        state = State(np.array(tensor, dtype=np.float32), scenario.host_num_map)
    return scenario, net, state


def make_action(sc, a):
    from nasim.envs import action as A
    osn, srvn, procn = names(sc)
    k = a["kind"]
    if k == "NoOp":
        return A.NoOp()
    tgt = tuple(a["target"])
    common = dict(target=tgt, cost=a["cost"], prob=a["prob"], req_access=a["req"])
    if k == "Exploit":
        return A.Exploit(name="e", service=srvn[a["service"]], os=None if a["os"] == -1 else osn[a["os"]],
                         access=a["access"], **common)
    if k == "PrivilegeEscalation":
        return A.PrivilegeEscalation(name="pe", process=None if a["process"] == -1 else procn[a["process"]],
                                     os=None if a["os"] == -1 else osn[a["os"]], access=a["access"], **common)
    return getattr(A, k)(**common)


def close(x, y, tol=1e-4):
    if isinstance(x, bool) or isinstance(y, bool):
        return bool(x) == bool(y)
    if isinstance(x, (int, float)) and isinstance(y, (int, float)):
        return math.isclose(float(x), float(y), rel_tol=tol, abs_tol=tol)
    if isinstance(x, (list, tuple)) and isinstance(y, (list, tuple)):
        return len(x) == len(y) and all(close(a, b, tol) for a, b in zip(x, y))
    if isinstance(x, dict) and isinstance(y, dict):
        return set(x) == set(y) and all(close(x[k], y[k], tol) for k in x)
    return x == y


def env_step_oracle(rep, scenario, state, act, fake_rand, draws):
    """native evaluation of the environment-level clauses (C05 reward, C06 done/limit/counter, C13 purity/agreement)
    on the real NASimEnv for the inputs of the counterexample"""
    import numpy as np
    import copy
    from nasim.envs.environment import NASimEnv
    import nasim.scenarios.utils as u
    scenario.scenario_dict[u.STEP_LIMIT] = rep.get("step_limit")
    env = NASimEnv(scenario, fully_obs=rep["modes"]["fully_obs"], flat_actions=True, flat_obs=rep["modes"]["flat_obs"])
    from nasim.envs.host_vector import HostVector
    HostVector.reset()
    h0 = scenario.hosts[tuple(rep["scenario"]["addrs"][0])]
    HostVector._initialize(tuple(rep["scenario"]["bounds"]), h0.services, h0.os, h0.processes)
    env.current_state = state
    env.steps = rep["steps0"]
    d0 = list(rep.get("draws") or [0.5])
    bad = []
    # generative step first (must be pure), with the same draw
    draws[:] = list(d0)
    before_T = state.tensor.copy()
    before_steps, before_cur, before_obs = env.steps, env.current_state, env.last_obs
    before_obs_T = env.last_obs.tensor.copy()
    ns, gobs, grew, gdone, ginfo = env.generative_step(state, act)
    if not np.array_equal(state.tensor, before_T): bad.append("C13.pure: generative_step modified its input state")
    if env.steps != before_steps or env.current_state is not before_cur or env.last_obs is not before_obs \
       or not np.array_equal(env.last_obs.tensor, before_obs_T):
        bad.append("C13.pure: generative_step modified the environment")
    if np.shares_memory(ns.tensor, state.tensor): bad.append("C13.fresh: next state shares storage with its input")
    goal = all(ns.get_host(a).access >= 2 for a in scenario.sensitive_addresses)
    if bool(gdone) != bool(goal): bad.append("C06.done: terminal flag differs from goal predicate of the next state")
    if abs(float(grew) - (float(ginfo["value"]) - float(act.cost))) > 1e-6: bad.append("C05.reward: reward != value - cost")
    # now the real step with the same draw
    draws[:] = list(d0)
    o, rew, done, lim, info = env.step(act)
    if abs(float(rew) - float(grew)) > 1e-6 or bool(done) != bool(gdone):
        bad.append("C13.agrees: step and generative_step disagree on reward/terminal flag")
    if not np.array_equal(env.current_state.tensor, ns.tensor): bad.append("C13.installs: current state is not the generative next state")
    if env.steps != rep["steps0"] + 1: bad.append("C06.counter: step counter not incremented by one")
    want_lim = rep.get("step_limit") is not None and rep["steps0"] + 1 >= rep["step_limit"]
    if bool(lim) != bool(want_lim): bad.append(f"C06.limit-flag: flag {lim} but steps={rep['steps0'] + 1} limit={rep.get('step_limit')}")
    exp_shape = gobs.numpy_flat().shape if rep["modes"]["flat_obs"] else gobs.numpy().shape
    if tuple(o.shape) != tuple(exp_shape): bad.append("C10: observation shape")
    return {"clause_failures": bad}


def env_action_mask_oracle(rep, scenario, state):
    """native evaluation of the C11 action-mask clauses on the real NASimEnv: mask[k] == 1 exactly when the target
    of flat action k is a discovered host of the CURRENT state (the discovered cell is read straight from the tensor
    at the documented offset, not through the code's accessors); the call changes nothing"""
    import numpy as np
    from nasim.envs.environment import NASimEnv
    import nasim.scenarios.utils as u
    sc = rep["scenario"]
    osn, srvn, procn = names(sc)
    scenario.scenario_dict[u.EXPLOITS] = {
        "e_a": {u.EXPLOIT_SERVICE: srvn[0], u.EXPLOIT_OS: None, u.EXPLOIT_PROB: 1.0, u.EXPLOIT_COST: 1, u.EXPLOIT_ACCESS: 1},
        "e_b": {u.EXPLOIT_SERVICE: srvn[-1], u.EXPLOIT_OS: osn[0], u.EXPLOIT_PROB: 0.5, u.EXPLOIT_COST: 2, u.EXPLOIT_ACCESS: 2}}
    scenario.scenario_dict[u.PRIVESCS] = {
        "p_a": {u.PRIVESC_PROCESS: procn[0], u.PRIVESC_OS: None, u.PRIVESC_PROB: 1.0, u.PRIVESC_COST: 1, u.PRIVESC_ACCESS: 2}}
    env = NASimEnv(scenario, fully_obs=False, flat_actions=True, flat_obs=True)
    from nasim.envs.host_vector import HostVector
    HostVector.reset()
    h0 = scenario.hosts[tuple(sc["addrs"][0])]
    HostVector._initialize(tuple(sc["bounds"]), h0.services, h0.os, h0.processes)
    env.current_state = state
    env.steps = rep.get("steps0", 0)
    before_T = state.tensor.copy()
    before_obs, before_obs_T = env.last_obs, env.last_obs.tensor.copy()
    n = env.action_space.n
    targets = [tuple(env.action_space.get_action(k).target) for k in range(n)]
    mask = env.get_action_mask()
    bad = []
    disc_col = sc["bounds"][0] + sc["bounds"][1] + 2
    addrs = [tuple(a) for a in sc["addrs"]]
    want = [int(before_T[addrs.index(t)][disc_col] != 0) for t in targets]
    m = np.asarray(mask)
    if m.ndim != 1: bad.append("C11.mask-is-vector: mask is not one-dimensional")
    elif m.shape[0] != n: bad.append(f"C11.mask-length: {m.shape[0]} entries for {n} flat actions")
    elif [int(x) for x in m] != want: bad.append(f"C11.mask-entries: mask {[int(x) for x in m]} but discovered-target flags {want}")
    if not np.array_equal(state.tensor, before_T) or env.current_state is not state:
        bad.append("C11.mask-pure: get_action_mask modified the current state")
    if env.steps != rep.get("steps0", 0) or env.last_obs is not before_obs or not np.array_equal(env.last_obs.tensor, before_obs_T):
        bad.append("C11.mask-pure: get_action_mask modified the environment")
    return {"clause_failures": bad, "n_actions": int(n)}


def result_dict(res):
    out = {k: bool(getattr(res, k)) for k in ("success", "connection_error", "permission_error", "undefined_error")}
    out["value"] = float(res.value)
    out["discovered"] = {f"{a[0]},{a[1]}": bool(v) for a, v in res.discovered.items()}
    out["newly_discovered"] = {f"{a[0]},{a[1]}": bool(v) for a, v in res.newly_discovered.items()}
    return out


def run(rep):
    import numpy as np
    tree, nasim_file = _import_nasim()
    sc = rep["scenario"]
    h = rep["harness"]
    draws = list(rep.get("draws", []))
    calls = {"n": 0}
    orig = np.random.rand

    def fake_rand(*a):
        calls["n"] += 1
        return draws.pop(0) if draws else 0.5
    np.random.rand = fake_rand
    actual = {"exception": None}
    try:
        scenario, net, state = build(sc, rep.get("tensor"))
        act = make_action(sc, rep["action"]) if "action" in rep else None
        try:
            if h == "hv_perform_action":
                from nasim.envs.host_vector import HostVector
                vec = np.array(rep["vector"], dtype=np.float32)
                hv = HostVector(vec)
                nxt, res = hv.perform_action(act)
                actual["next_vector"] = [float(x) for x in nxt.vector]
                actual["result"] = result_dict(res)
                actual["input_vector_after"] = [float(x) for x in vec]
                actual["aliased"] = bool(np.shares_memory(nxt.vector, vec))
            elif h == "net_perform_action":
                nxt, res = net.perform_action(state, act)
                actual["next_tensor"] = nxt.tensor.tolist()
                actual["result"] = result_dict(res)
                actual["input_tensor_after"] = state.tensor.tolist()
                actual["aliased"] = bool(np.shares_memory(nxt.tensor, state.tensor))
            elif h == "net_subnet_scan":
                nxt, res = net._perform_subnet_scan(state, act)
                actual["next_tensor"] = nxt.tensor.tolist()
                actual["result"] = result_dict(res)
            elif h == "net_reset":
                nxt = net.reset(state)
                actual["next_tensor"] = nxt.tensor.tolist()
                actual["input_tensor_after"] = state.tensor.tolist()
            elif h == "net_update_reachable":
                net._update_reachable(state, tuple(rep["compromised_addr"]))
                actual["next_tensor"] = state.tensor.tolist()
            elif h == "net_hrp":
                actual["result"] = bool(net.has_required_remote_permission(state, act))
                actual["input_tensor_after"] = state.tensor.tolist()
            elif h == "net_tp":
                osn, srvn, procn = names(sc)
                actual["result"] = bool(net.traffic_permitted(state, tuple(rep["host_addr"]), srvn[rep["service"]]))
                actual["input_tensor_after"] = state.tensor.tolist()
            elif h == "state_get_observation":
                from nasim.envs.action import ActionResult
                r = rep["result"]
                pa = lambda d: {tuple(int(x) for x in k.split(",")): v for k, v in d.items()}
                res = ActionResult(r["success"], r["value"], discovered=pa(r.get("discovered", {})),
                                   newly_discovered=pa(r.get("newly_discovered", {})),
                                   connection_error=r["connection_error"], permission_error=r["permission_error"],
                                   undefined_error=r["undefined_error"], access=r.get("access"))
                obs = state.get_observation(act, res, rep["fully_obs"])
                actual["obs_tensor"] = obs.tensor.tolist()
                actual["input_tensor_after"] = state.tensor.tolist()
                actual["aliased"] = bool(np.shares_memory(obs.tensor, state.tensor))
                actual["obs_dtype"] = str(obs.tensor.dtype)
            elif h == "state_get_initial_observation":
                obs = state.get_initial_observation(rep["fully_obs"])
                actual["obs_tensor"] = obs.tensor.tolist()
                actual["input_tensor_after"] = state.tensor.tolist()
                actual["aliased"] = bool(np.shares_memory(obs.tensor, state.tensor))
                actual["obs_dtype"] = str(obs.tensor.dtype)
            elif h == "env_action_mask":
                actual.update(env_action_mask_oracle(rep, scenario, state))
            elif h == "hv_observe":
                from nasim.envs.host_vector import HostVector
                vec = np.array(rep["vector"], dtype=np.float32)
                o = HostVector(vec).observe(**rep["switches"])
                actual["obs_vector"] = [float(x) for x in o]
            elif h == "env_step":
                actual.update(env_step_oracle(rep, scenario, state, act, fake_rand, draws))
            elif h == "net_goal":
                actual["result"] = bool(net.all_sensitive_hosts_compromised(state))
                actual["input_tensor_after"] = state.tensor.tolist()
            else:
                raise SystemExit(f"unknown harness {h}")
        except Exception as e:      # the real code raised
            actual["exception"] = type(e).__name__
    finally:
        np.random.rand = orig
    actual["draws_used"] = calls["n"]
    pred = rep.get("predicted", {})
    mism = []
    if h in ("env_step", "env_action_mask"):
        # clause-level native oracle: reproduced iff some environment-level clause fails on the real code
        fails = actual.get("clause_failures", [])
        if actual.get("exception"):
            fails = fails + [f"raised {actual['exception']}"]
        return {"tree": tree, "nasim_file": nasim_file, "reproduced": bool(fails),
                "mismatches": [] if fails else ["every environment-level clause holds on the real code for this input"],
                "clause_failures": fails, "actual": actual}
    for k, v in pred.items():
        if k not in actual:
            continue
        if k == "result" and isinstance(v, dict):
            for kk, vv in v.items():
                if kk in actual["result"] and not close(vv, actual["result"][kk]):
                    mism.append(f"result.{kk}: predicted {vv} actual {actual['result'][kk]}")
        elif not close(v, actual[k]):
            mism.append(f"{k}: predicted {v} actual {actual[k]}")
    return {"tree": tree, "nasim_file": nasim_file, "reproduced": not mism, "mismatches": mism, "actual": actual}


if __name__ == "__main__" and len(sys.argv) > 2 and sys.argv[1] == "--batch-actual":
    # run the real code on every input and print what it computed (used by the run-time contract fallback)
    reps = json.load(open(sys.argv[2]))
    outs = []
    for rep in reps:
        try:
            outs.append(run(rep)["actual"])
        except Exception as e:
            outs.append({"exception": f"harness:{type(e).__name__}: {e}"})
    print(json.dumps(outs))
    sys.exit(0)

if __name__ == "__main__" and len(sys.argv) > 2 and sys.argv[1] == "--batch":
    reps = json.load(open(sys.argv[2]))
    outs = []
    for rep in reps:
        try:
            o = run(rep)
            outs.append({"reproduced": o["reproduced"], "mismatches": o["mismatches"][:5]})
        except Exception as e:
            outs.append({"reproduced": False, "mismatches": [f"replay raised {type(e).__name__}: {e}"]})
    print(json.dumps(outs))
    sys.exit(0)

if __name__ == "__main__":
    rep = json.load(open(sys.argv[1]))
    out = run(rep)
    print(json.dumps({k: out[k] for k in ("tree", "nasim_file", "reproduced", "mismatches")}, indent=1))
    sys.exit(0 if out["reproduced"] else 1)
