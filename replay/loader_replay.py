"""replay of loader counterexamples: the concretised document is written as YAML and loaded by the REAL
ScenarioLoader of the tree under test; the violated clause is then evaluated natively."""
import json, math, os, sys, tempfile


def _import():
    tree = os.environ.get("NASIM_TREE") or os.environ.get("PYVC_REPO") or "/repo"
    if tree not in sys.path:
        sys.path.insert(0, tree)
    import nasim
    return tree, nasim.__file__


def compare(doc, sc):
    """native oracle: list of mismatches between document and loaded scenario"""
    import ast
    mism = []
    pa = ast.literal_eval
    d = sc.scenario_dict
    acc = {"user": 1, "root": 2, 1: 1, 2: 2}
    num = lambda a, b: isinstance(a, (int, float)) and math.isclose(float(a), float(b), rel_tol=1e-9, abs_tol=1e-9)
    if list(sc.subnets) != [1] + list(doc["subnets"]): mism.append("subnets")
    if [list(r) for r in sc.topology] != [list(r) for r in doc["topology"]]: mism.append("topology")
    for k in ("os", "services", "processes"):
        if list(d[k]) != list(doc[k]): mism.append(k)
    want = {pa(k): v for k, v in doc["sensitive_hosts"].items()}
    if set(sc.sensitive_hosts) != set(want) or not all(num(sc.sensitive_hosts[k], v) for k, v in want.items()):
        mism.append("sensitive-hosts")
    for sec, fld, got in (("exploits", "service", sc.exploits), ("privilege_escalation", "process", sc.privescs)):
        if list(got) != list(doc[sec]): mism.append(sec); continue
        for n, e in doc[sec].items():
            g = got[n]
            os_want = None if str(e["os"]).lower() == "none" else e["os"]
            if g[fld] != e[fld] or g["os"] != os_want or not num(g["prob"], e["prob"]) or not num(g["cost"], e["cost"]) \
               or g["access"] != acc.get(e["access"]):
                mism.append(sec)
    for k in ("service_scan_cost", "os_scan_cost", "subnet_scan_cost", "process_scan_cost"):
        if not num(d[k], doc[k]): mism.append(k)
    if sc.step_limit != doc.get("step_limit"): mism.append("step-limit")
    wantfw = {pa(k): v for k, v in doc["firewall"].items()}
    if {k: list(v) for k, v in sc.firewall.items()} != {k: list(v) for k, v in wantfw.items()}: mism.append("subnet-firewall")
    for k, cfg in doc["host_configurations"].items():
        ad = pa(k)
        h = sc.hosts.get(ad)
        if h is None: mism.append("host-os-services-processes"); continue
        if {n: bool(v) for n, v in h.os.items()} != {n: n == cfg["os"] for n in doc["os"]} \
           or {n: bool(v) for n, v in h.services.items()} != {n: n in cfg["services"] for n in doc["services"]} \
           or {n: bool(v) for n, v in h.processes.items()} != {n: n in cfg["processes"] for n in doc["processes"]}:
            mism.append("host-os-services-processes")
        wanth = {pa(a): list(v) for a, v in cfg.get("firewall", {}).items()}
        if {a: list(v) for a, v in h.firewall.items()} != wanth: mism.append("host-firewall-keys-and-deny-lists")
        wv = doc["sensitive_hosts"][k] if k in doc["sensitive_hosts"] else cfg.get("value", 0)
        if not num(h.value, wv): mism.append("host-values")
    return sorted(set(mism))


def run(rep):
    import yaml
    tree, nf = _import()
    from nasim.scenarios import load_scenario
    doc = rep["doc"]
    # rebuild shared mappings (anchor / alias markers written by the concretiser)
    shared = {}

    def find(x):
        if isinstance(x, dict):
            if "__anchor__" in x:
                shared[x.pop("__anchor__")] = x
            for v in x.values():
                find(v)
        elif isinstance(x, list):
            for v in x:
                find(v)

    def link(x):
        if isinstance(x, dict):
            for k, v in list(x.items()):
                if isinstance(v, dict) and "__alias__" in v:
                    x[k] = shared[v["__alias__"]]
                else:
                    link(v)
        elif isinstance(x, list):
            for i, v in enumerate(x):
                if isinstance(v, dict) and "__alias__" in v:
                    x[i] = shared[v["__alias__"]]
                else:
                    link(v)
    find(doc)
    link(doc)
    with tempfile.NamedTemporaryFile("w", suffix=".yaml", delete=False) as f:
        yaml.safe_dump(doc, f, sort_keys=False)
        path = f.name
    raised = None
    sc = None
    try:
        sc = load_scenario(path)
    except Exception as e:
        raised = f"{type(e).__name__}: {str(e)[:120]}"
    finally:
        os.unlink(path)
    rule = rep.get("rule", "valid")
    if rule != "valid":
        reproduced = raised is None
        detail = "malformed document was ACCEPTED" if reproduced else f"rejected ({raised})"
    else:
        if raised is not None:
            reproduced, detail = True, f"valid document was REJECTED: {raised}"
        else:
            mm = compare(doc, sc)
            reproduced, detail = bool(mm), f"loaded scenario differs from the document in: {mm}" if mm else "scenario equals document"
    return {"tree": tree, "nasim_file": nf, "reproduced": reproduced, "mismatches": [] if reproduced else [detail],
            "detail": detail}


if __name__ == "__main__":
    out = run(json.load(open(sys.argv[1])))
    print(json.dumps(out, indent=1))
    sys.exit(0 if out["reproduced"] else 1)
