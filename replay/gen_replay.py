"""replay of generator counterexamples: regenerate with the recorded parameters/seed on the tree under test and
re-evaluate the violated clause with the run-time contract"""
import json, os, sys
sys.path.insert(0, os.path.dirname(os.path.dirname(os.path.abspath(__file__))))
from checks import gen_monitor as gm
rep = json.load(open(sys.argv[1]))
tree = os.environ.get("NASIM_TREE") or os.environ.get("PYVC_REPO") or "/repo"
kind = rep.get("harness")
out = {"tree": tree}
if kind == "gen-hashseed":
    d, e = gm.run_hashseeds(tree, [rep["case"]], rep.get("hashseeds", [0, 1, 2, 3]))
    out["reproduced"] = bool(d)
    out["detail"] = d or e
else:
    recs = gm._worker((tree, rep["params"], [rep["seed"]]))
    v = recs[0]["violations"]
    out["reproduced"] = any(x.split(":")[0] == rep["clause"].split(":")[0] for x in v)
    out["detail"] = v
out["mismatches"] = [] if out["reproduced"] else ["clause holds on this tree"]
print(json.dumps(out))
sys.exit(0 if out["reproduced"] else 1)
