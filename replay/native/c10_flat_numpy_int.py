"""C10 witness: every member of the flat action space (incl. what Discrete.sample() returns: np.int64) is accepted."""
import os, sys
sys.path.insert(0, os.environ.get("NASIM_TREE", "/repo"))
import numpy as np, nasim
env = nasim.make_benchmark("tiny", seed=0)
env.reset()
a = env.action_space.sample()
try:
    env.step(a)
except AssertionError as e:
    print("VIOLATED: step rejected", type(a), "->", str(e)[:80]); sys.exit(1)
print("ok: step accepted", type(a)); sys.exit(0)
