"""C11 witness: get_action_mask returns one entry per flat action, set exactly for discovered targets."""
import os, sys
sys.path.insert(0, os.environ.get("NASIM_TREE", "/repo"))
import numpy as np, nasim
env = nasim.make_benchmark("tiny", seed=0, flat_actions=True)
env.reset()
try:
    m = env.get_action_mask()
except AttributeError as e:
    print("VIOLATED: get_action_mask raised", e); sys.exit(1)
want = [int(bool(env.current_state.host_discovered(env.action_space.get_action(i).target))) for i in range(env.action_space.n)]
if list(m) != want:
    print("VIOLATED: mask mismatch"); sys.exit(1)
print("ok"); sys.exit(0)
