"""C19 witness (known finding): two environments with DIFFERENT vector layouts in one process.
Creating the second one rewrites HostVector's class-level layout, so the first one's decoding/stepping breaks.
exit 1 = the defect reproduces, exit 0 = the first environment is unaffected."""
import os, sys
sys.path.insert(0, os.environ.get("NASIM_TREE", "/repo"))
import numpy as np, nasim
def run_alone():
    np.random.seed(3)
    a = nasim.make_benchmark("tiny", seed=0, fully_obs=True, flat_actions=True, flat_obs=False)
    a.reset()
    out = []
    for i in range(6):
        o, r, d, t, info = a.step(i)
        out.append((o.copy(), r, d, t))
    return out, a.current_state.get_readable()
ref, ref_readable = run_alone()
np.random.seed(3)
a = nasim.make_benchmark("tiny", seed=0, fully_obs=True, flat_actions=True, flat_obs=False)
a.reset()
b = nasim.make_benchmark("small", seed=0)      # different layout: rewrites the class-level constants
b.reset()
try:
    got = []
    for i in range(6):
        o, r, d, t, info = a.step(i)
        got.append((o.copy(), r, d, t))
    readable = a.current_state.get_readable()
except Exception as e:
    print("REPRODUCED: first environment broke after creating the second:", type(e).__name__, e); sys.exit(1)
same = all(np.array_equal(x[0], y[0]) and x[1:] == y[1:] for x, y in zip(ref, got)) and readable == ref_readable
if not same:
    print("REPRODUCED: first environment's trajectory/decoding changed after creating the second"); sys.exit(1)
print("not reproduced: first environment unaffected"); sys.exit(0)
