"""developer runner: verify one contract (all variants) and print a summary"""
import sys, time, importlib
sys.path.insert(0, "/verif")
from pyvc.source import Repo
from pyvc.contract import REG, Policy, verify_contract
from pyvc import vc
import z3

def main():
    mods = sys.argv[1].split(",")
    qual = sys.argv[2]
    from checks import driver
    driver.load_contracts()
    only = sys.argv[3] if len(sys.argv) > 3 and not sys.argv[3].startswith("-") else None
    repo = Repo()
    concrete = None
    policy = None
    for x in sys.argv:
        if x.startswith("--concrete="):
            concrete = {"subnets": [int(v) for v in x.split("=")[1].split(",")]}
            policy = None if "--modular" in sys.argv else Policy(inline_only=True, always={'nasim.envs.host_vector.HostVector.services','nasim.envs.host_vector.HostVector.os','nasim.envs.host_vector.HostVector.processes'})
    c = REG.contracts[qual]
    tot = 0; bad = 0
    for v in (c.unbounded_variants() if concrete is None and hasattr(c, "unbounded_variants") else c.variants()):
        if only and v != only: continue
        t0 = time.time()
        obs, stats = verify_contract(repo, c, v, policy=policy, concrete=concrete, max_paths=200000)
        t1 = time.time()
        res = [vc.discharge(o, 10000, prefer_ematch=concrete is None and getattr(c, 'prefer_ematch', False)) for o in obs]
        t2 = time.time()
        nd = sum(r["status"] == "discharged" for r in res)
        print(f"[{v}] paths={stats['paths']} exits={stats['exits']} obligations={len(obs)} discharged={nd} explore={t1-t0:.2f}s solve={t2-t1:.2f}s")
        for o, r in zip(obs, res):
            if r["status"] != "discharged":
                bad += 1
                print("   ", r["status"], o.name, o.trace, r.get("reason", ""))
                if r.get("model") is not None and "-m" in sys.argv:
                    print("      model:", r["model"])
        tot += len(obs)
    print("TOTAL", tot, "not discharged", bad)

main()
