"""C19 lemmas over the contracts (no code involved):
  lemma:C19.independent-equal-layouts  -- if Layout(A) = Layout(B) (and equal name->index maps), B's constructor
      leaves every global that A reads exactly as A's contracts require  (expected: discharged)
  lemma:C19.independent-any-layout     -- the same without the proviso  (expected on the pinned tree: REFUTED;
      recorded known finding: HostVector keeps the layout in class attributes)
"""
import json, os, subprocess, sys, time
import z3

VERIF = os.path.dirname(os.path.dirname(os.path.abspath(__file__)))


def layout_terms(sig):
    L = sig.layout()
    return [L.host_idx, L.comp, L.reach, L.disc, L.value, L.dvalue, L.access, L.os0, L.srv0, L.proc0, L.W,
            z3.IntVal(0) + sig.nOS, z3.IntVal(0) + sig.nSrv, z3.IntVal(0) + sig.nProc, sig.B0, sig.B1]


def run(tree):
    from contracts import vocab as V
    from pyvc import vc
    A, Bs = V.Sigma(tag="_A"), V.Sigma(tag="_B")
    hyps = A.wfs() + Bs.wfs()
    la, lb = layout_terms(A), layout_terms(Bs)
    eq = z3.And(*[x == y for x, y in zip(la, lb)])
    res = []
    t0 = time.time()
    # after B's constructor the globals equal Layout(B) (C19.* posts of generate_initial_state / __init__);
    # A's operations require globals == Layout(A)
    r1 = vc.solve_one(hyps + [eq], eq, 10000, use_cvc5=False)
    res.append({"name": "lemma:C19.independent-equal-layouts", "status": r1["status"], "seconds": r1["seconds"]})
    s = z3.Solver()
    s.set("timeout", 10000)
    # quantifier-free core of WFS suffices for a model of two different layouts
    for h in hyps:
        if not any(z3.is_quantifier(x) for x in [h]):
            pass
    s.add(A.B0 >= 2, Bs.B0 >= 2, A.B1 >= 1, Bs.B1 >= 1, A.nOS >= 1, A.nSrv >= 1, A.nProc >= 1, Bs.nOS >= 1,
          Bs.nSrv >= 1, Bs.nProc >= 1, z3.Not(eq))
    r = s.check()
    model = None
    if r == z3.sat:
        m = s.model()
        model = {str(d): str(m[d]) for d in m.decls()}
    res.append({"name": "lemma:C19.independent-any-layout", "status": "refuted" if r == z3.sat else
                ("discharged" if r == z3.unsat else "unknown"), "seconds": time.time() - t0, "model": model})
    return res


def witness(tree, script):
    env = dict(os.environ, NASIM_TREE=tree, PYTHONPATH=tree)
    p = subprocess.run([sys.executable, os.path.join(VERIF, script)], env=env, stdout=subprocess.PIPE,
                       stderr=subprocess.STDOUT, text=True, timeout=600)
    return p.returncode, p.stdout.strip().splitlines()[-1:] if p.stdout.strip() else []
