"""input classes of recorded known findings (predicates over replay files); see known_findings.json"""
