"""checks.driver -- runs the contract verification tasks of one property and decides it.

Exit codes: 0 held / 1 violation / 2 undecided or out of reach / 3 checker failure.
"""
import importlib
import json
import multiprocessing as mp
import os
import subprocess
import sys
import time
import traceback

VERIF = os.path.dirname(os.path.dirname(os.path.abspath(__file__)))
if VERIF not in sys.path:
    sys.path.insert(0, VERIF)

CONTRACT_MODULES = ["c_host_vector", "c_network", "c_environment", "c_state", "c_layout", "c_action", "c_scenarios",
                    "c_loader", "c_score", "c_generator", "c_loader_leaf"]
BOUNDED_QUICK = [{"subnets": [1, 1, 2]}, {"subnets": [1, 2, 1], "addr_perm": [2, 0, 1], "n_sens": 2}]
BOUNDED_THOROUGH = [{"subnets": [1, 1, 2]}, {"subnets": [1, 2, 1], "addr_perm": [2, 0, 1], "n_sens": 2},
                    {"subnets": [1, 2, 1, 1]}, {"subnets": [1, 1, 1, 1], "n_sens": 2},
                    {"subnets": [1, 3], "n_srv": 1, "n_os": 1, "n_proc": 1}]

TRUSTED_BASE = [
    "z3 4.x/5.1 and cvc5 are sound for `unsat`",
    "pyvc engine's model of the Python subset (assignment, attribute/subscript load+store, if/for/while/return/"
    "break/continue/assert/raise/try, calls, comparisons, boolean short-circuit, truthiness, tuple unpacking, "
    "isinstance, classmethod/property/staticmethod) - validated by bounded replays and seeded mutants, not proved",
    "Python int is mathematical; float / np.float32 / np.int64 are treated as mathematical reals / integers "
    "(no rounding, no overflow)",
    "assumed contracts of builtins (len, range, enumerate, zip, min, max, int, float, bool, dict/list/set methods, "
    "insertion-ordered dicts), math.isclose/ceil, NumPy (zeros, copy, basic+slice indexing, row views alias their "
    "base, flatten row-major fresh, array_equal, random.rand in [0,1)), Gymnasium (Discrete/MultiDiscrete/Box "
    "constructors, Env.reset(seed) only touches self.np_random)",
    "address strings of scenario documents (loader contracts): str((a, b)) of two ints is a canonical key, eval() is a pure "
    "function of the string that yields a pair or fails, and inverts str() on canonical keys (uninterpreted functions "
    "ADDR_STR / eval_fst / eval_snd with type tags; pyvc/builtins.py)",
    "strings with a symbolic part (generator contracts): an f-string with one symbolic name and `a + b` on names are "
    "functions of their parts (uninterpreted str_format1 / str_concat); the decimal rendering of an integer inside "
    "constant text (f\"os_{i}\") is injective in the integer; str(x) of a string is x and str.lower() is a function of "
    "the string; nothing else is assumed about them",
    "while loops under a loop contract are proved PARTIALLY correct (no variant: termination is not claimed)",
    "induction principle: lemma obligations named `lemma.*.induction-base` / `-step` are closed formulas over a fresh "
    "function symbol; 'base and step hold, hence the property holds for every index' is the meta-step (used for the "
    "block-start function of load_action_list)",
    "reachable states are over-approximated by well-formed states (WF, plus Inv where stated)",
    "global layout precondition: HostVector class attributes equal Layout(scenario) (established by "
    "HostVector._initialize, whose contract is checked under C09/C19)",
]


def load_contracts():
    from pyvc.contract import REG
    for m in CONTRACT_MODULES:
        try:
            importlib.import_module("contracts." + m)
        except ModuleNotFoundError as e:
            if e.name != "contracts." + m:
                raise
    return REG


# properties whose frame obligations are generated for EVERY function under contract
UNIVERSAL_FRAME_PROPS = {"C19": None,      # no undeclared global reads / writes anywhere
                         "C13": ("nasim.envs.",),   # purity: everything generative_step can reach
                         "C14": ("nasim.envs.",),   # determinism: nobody draws from / re-seeds the global RNG undeclared
                         # independence of the draws (C07): the environment-level operations around an action (reset, step,
                         # constructors) neither draw nor re-seed
                         "C07": ("nasim.envs.environment.", "nasim.envs.gym_env.")}


# a property whose argument rests on another one (DESIGN 5/C20: "every value is paid at most once" is C05) is also decided
# by that property's obligations
# C16's last clause ("replaying that sequence on the real environment ends with the terminal flag set") is a statement about
# the dynamics: the plan exists by the liveness clauses of C01 / C02 / C03 and ends the episode by C06's terminal flag
PROP_DEPENDS = {"C20": ("C05",), "C16": ("C01", "C02", "C03", "C06")}


def _counts_for(prop, tags):
    tags = tags or []
    return prop in tags or any(d in tags for d in PROP_DEPENDS.get(prop, ()))


def tasks_for(prop, REG):
    out = []
    for q, c in REG.contracts.items():
        props = set(c.default_tags)
        for v in c.tags.values():
            props |= set(v)
        if prop in UNIVERSAL_FRAME_PROPS:
            pre = UNIVERSAL_FRAME_PROPS[prop]
            if pre is None or q.startswith(pre):
                props.add(prop)
        if _counts_for(prop, props) and getattr(c, "verify", True):
            for v in c.variants():
                out.append((q, v))
    return out


def _maybe_fallback(out, repo, c, variant, concrete, tree, timeout_ms):
    """engine out of reach on a bounded task of a supported function: evaluate the same contract as a run-time monitor on
    the real code over random concrete inputs (bounded stand-in)"""
    from checks import rt_fallback
    if not out.get("limit") or c.qualname not in rt_fallback.SUPPORTED:
        return
    if concrete is None:
        if getattr(c, "bounded", True):
            return              # the bounded task of the same contract runs the fallback
        # contract verified in unbounded mode only: the stand-in runs on the first bounded configuration
        concrete = BOUNDED_QUICK[0]
        out["concrete"] = concrete
        out["fallback_of_unbounded"] = True
    n = 150 if timeout_ms <= 20000 else 600
    try:
        r = rt_fallback.run_fallback(repo, c, variant, concrete, tree, n, seed=int(os.environ.get("VERIF_SEED", "0") or 0))
    except Exception:
        out["rt_fallback"] = {"error": traceback.format_exc()[-600:]}
        return
    if not r["failures"] and c.qualname in rt_fallback.SUPPORTED and rt_fallback.SUPPORTED[c.qualname] not in ("scn_scalar",):
        # second pass on a WIDE scenario shape (many services / processes / hosts per subnet): NumPy code that replaced a
        # loop computes in machine arithmetic (float32 mantissa, small integer dtypes), which only shows on wide vectors
        try:
            wide = dict(concrete, subnets=list(concrete["subnets"]), n_os=3, n_srv=22, n_proc=7)
            wide.pop("bounds", None)
            r2 = rt_fallback.run_fallback(repo, c, variant, wide, tree, max(40, n // 3),
                                          seed=int(os.environ.get("VERIF_SEED", "0") or 0))
            r["samples"] += r2["samples"]
            r["valid"] += r2["valid"]
            r["failures"] += r2["failures"]
            out["rt_fallback_wide"] = {"config": wide, "samples": r2["samples"], "valid": r2["valid"]}
        except Exception:
            out["rt_fallback_wide"] = {"error": traceback.format_exc()[-400:]}
    out["rt_fallback"] = {"samples": r["samples"], "valid": r["valid"], "failed_clauses": [f["label"] for f in r["failures"]]}
    for f in r["failures"]:
        lab = f["label"]
        name = f"{c.qualname}:{lab}" if lab.startswith(("frame:", "raises:")) else f"{c.qualname}:post:{lab}"
        out["results"].append({"name": name, "kind": "post", "tags": sorted(c.tags_for(lab.replace("frame:", "")) | c.all_props() | (
                                   {"C13"} if lab.startswith("frame:") and c.qualname.startswith("nasim.envs.") else set())),
                               "status": "refuted", "backend": "run-time contract on the real code", "seconds": 0.0,
                               "reason": "clause false for a concrete input/output pair of the real function",
                               "pathlen": 0, "cex": f["input"], "goal": lab})
    if r["valid"] > 0:
        out["limit_covered_by_fallback"] = True


XCHECK_HARNESSES = {"hv_perform_action", "net_perform_action", "net_subnet_scan", "net_reset", "net_update_reachable",
                    "net_hrp", "net_tp", "net_goal", "state_get_observation", "hv_observe"}


def _run_task(args):
    """worker: explore + discharge one (contract, variant, mode)"""
    q, variant, concrete, timeout_ms, tree, use_cvc5, skip = args
    xlimit = 2 if timeout_ms <= 20000 else 12
    os.environ["PYVC_REPO"] = tree
    t0 = time.time()
    out = {"qualname": q, "variant": variant, "concrete": concrete, "results": [], "error": None, "limit": None}
    try:
        import z3
        from pyvc.source import Repo
        from pyvc.contract import verify_contract, Policy
        from pyvc.values import EngineLimit
        from pyvc import vc
        REG = load_contracts()
        c = REG.contracts[q]
        repo = Repo(tree)
        fi = repo.function(q)
        out["sha"] = fi.sha
        out["file"] = os.path.relpath(fi.module.path, tree)
        try:
            obs, stats = verify_contract(repo, c, variant, policy=Policy(), concrete=concrete, max_paths=100000)
        except EngineLimit as e:
            out["limit"] = str(e)
            _maybe_fallback(out, repo, c, variant, concrete, tree, timeout_ms)
            return out
        if stats.get("limits"):
            out["limit"] = "; ".join(sorted(set(stats["limits"])))
        _maybe_fallback(out, repo, c, variant, concrete, tree, timeout_ms)
        out["stats"] = {k: (v if not isinstance(v, set) else sorted(v)) for k, v in stats.items()}
        seen_cover = set()
        cex_built = {}
        for o in obs:
            if o.name in skip:
                out["results"].append({"name": o.name, "kind": o.kind, "tags": o.info.get("tags") or [],
                                       "status": "refuted-in-bounded", "backend": "-", "seconds": 0.0,
                                       "reason": "refuted in bounded mode; unbounded attempt skipped",
                                       "pathlen": len(o.trace)})
                continue
            r = vc.discharge(o, timeout_ms, use_cvc5=use_cvc5, prefer_ematch=concrete is None and getattr(c, "prefer_ematch", False))
            rec = {"name": o.name, "kind": o.kind, "tags": o.info.get("tags") or [], "status": r["status"],
                   "backend": r["backend"], "seconds": round(r["seconds"], 4), "reason": r.get("reason", ""),
                   "pathlen": len(o.trace)}
            if r["status"] == "refuted" and r.get("model") is not None and o.info.get("cex") is not None \
                    and cex_built.get(o.name, 0) < 3:
                cex_built[o.name] = cex_built.get(o.name, 0) + 1
                try:
                    rec["cex"] = o.info["cex"](r["model"])
                except Exception as e:
                    rec["cex_error"] = f"{type(e).__name__}: {e}"
            if r["status"] != "discharged":
                rec["goal"] = str(r.get("goal", o.goal))[:600]
            out["results"].append(rec)
            # bounded mode: cover check (is this normal-exit path's hypothesis set satisfiable?)
            if concrete is not None and o.kind == "post" and tuple(o.trace) not in seen_cover:
                seen_cover.add(tuple(o.trace))
                rc = vc.solve_one(o.hyps, z3.BoolVal(False), timeout_ms, use_cvc5=False)
                # engine cross-check: a model of this path's hypotheses is an ordinary (non-failing) input; the
                # engine's predicted outputs for it must equal what the real code computes (checked by the parent)
                if rc["status"] == "refuted" and rc.get("model") is not None and o.info.get("cex") is not None \
                        and len(out.setdefault("xcheck", [])) < xlimit:
                    try:
                        x = o.info["cex"](rc["model"])
                        if x and x.get("harness") in XCHECK_HARNESSES and x.get("predicted"):
                            out["xcheck"].append(x)
                    except Exception:
                        pass
                out["results"].append({"name": f"{q}:cover:normal-exit", "kind": "cover", "tags": [],
                                       "status": "feasible" if rc["status"] == "refuted" else
                                       ("infeasible" if rc["status"] == "discharged" else "unknown"),
                                       "backend": "z3", "seconds": round(rc["seconds"], 4), "pathlen": len(o.trace)})
    except Exception:
        out["error"] = traceback.format_exc()
    out["wall"] = round(time.time() - t0, 3)
    return out


def _err_record(a, msg):
    return {"qualname": a[0], "variant": a[1], "concrete": a[2] if len(a) > 2 else None, "results": [], "limit": None,
            "error": msg}


def _child(fn, arg, conn):
    try:
        conn.send(fn(arg))
    except BaseException:          # noqa - report everything to the parent
        conn.send(_err_record(arg, traceback.format_exc()))
    finally:
        conn.close()


def run_tasks(fn, args, jobs, task_timeout, _retry=True):
    """run fn(arg) for every arg in its own process, at most `jobs` at a time, each under a hard wall-clock limit.
    A worker that dies (solver crash, OOM kill) or overruns yields an error record instead of hanging the check."""
    ctx = mp.get_context("fork")
    pending = list(enumerate(args))
    running = {}
    results = [None] * len(args)
    while pending or running:
        while pending and len(running) < jobs:
            i, a = pending.pop(0)
            pc, cc = ctx.Pipe(duplex=False)
            pr = ctx.Process(target=_child, args=(fn, a, cc), daemon=True)
            pr.start()
            cc.close()
            running[i] = (pr, pc, time.time(), a)
        time.sleep(0.02)
        for i in list(running):
            pr, pc, t0, a = running[i]
            done = False
            if pc.poll():
                try:
                    results[i] = pc.recv()
                except EOFError:
                    results[i] = None
                done = True
            elif not pr.is_alive():
                # the worker may have sent its result and exited between the poll above and this test: look again before
                # declaring it dead (this race produced a spurious "worker process died (exit code 0)" under load)
                if pc.poll(0.5):
                    try:
                        results[i] = pc.recv()
                    except EOFError:
                        results[i] = None
                done = True
            elif time.time() - t0 > task_timeout:
                pr.kill()
                results[i] = _err_record(a, f"task exceeded the hard limit of {task_timeout}s and was killed")
                results[i]["killed"] = True
                done = True
            if done:
                pr.join(timeout=5)
                if results[i] is None:
                    results[i] = _err_record(a, f"worker process died (exit code {pr.exitcode})")
                pc.close()
                del running[i]
    if _retry:
        # a worker that vanished without a result (killed by the OS, lost pipe) is run once more before it is reported
        again = [i for i, r in enumerate(results) if isinstance(r, dict) and str(r.get("error") or "").startswith("worker process died")]
        if again:
            for i, r in zip(again, run_tasks(fn, [args[i] for i in again], max(1, jobs // 2), task_timeout, _retry=False)):
                results[i] = r
    return results


def run_replay(cex, tree, path):
    os.makedirs(os.path.dirname(path), exist_ok=True)
    with open(path, "w") as f:
        json.dump(cex, f, indent=1)
    env = dict(os.environ, NASIM_TREE=tree, PYTHONPATH=tree)
    harness = cex.get("harness", "")
    if harness.startswith("rt:"):
        # run-time contract fallback: re-evaluate the contract on the real code for this input
        return rt_replay(cex, tree, path)
    script = os.path.join(VERIF, "replay", "hops_replay.py" if harness == "hops" else "loader_replay.py" if harness == "loader" else
                          ("gen_replay.py" if harness.startswith("gen") else "dyn_replay.py"))
    p = subprocess.run([sys.executable, script, path], env=env, stdout=subprocess.PIPE, stderr=subprocess.STDOUT,
                       text=True, timeout=600)
    try:
        j = json.loads(p.stdout[p.stdout.index("{"):])
    except Exception:
        j = {"reproduced": False, "mismatches": ["replay crashed: " + p.stdout[-500:]]}
    return j


def rt_replay(cex, tree, path):
    from checks import rt_fallback
    from pyvc.source import Repo
    import copy
    REG = load_contracts()
    rep = copy.deepcopy(cex)
    rep["harness"] = rep["harness"][3:]
    bpath = path + ".in"
    with open(bpath, "w") as f:
        json.dump([rep], f)
    env = dict(os.environ, NASIM_TREE=tree, PYTHONPATH=tree)
    p = subprocess.run([sys.executable, os.path.join(VERIF, "replay", "dyn_replay.py"), "--batch-actual", bpath], env=env,
                       stdout=subprocess.PIPE, stderr=subprocess.STDOUT, text=True, timeout=600)
    os.unlink(bpath)
    try:
        act = json.loads(p.stdout[p.stdout.index("@@JSON@@") + 8:])[0]
        if rep["harness"] in rt_fallback.NATIVE_ORACLE:
            fails = list(act.get("clause_failures", [])) + ([f"raises:{act['exception']}"] if act.get("exception") else [])
            return {"tree": tree, "reproduced": bool(fails), "failed_clauses": fails,
                    "mismatches": [] if fails else ["every environment-level clause holds on the real code for this input"]}
        failed, skip = rt_fallback.evaluate(Repo(tree), REG.contracts[cex["qualname"]], cex["variant"], cex["bounded_config"],
                                            rep["harness"], rep, act)
    except Exception as e:
        return {"reproduced": False, "mismatches": [f"run-time replay failed: {e}"]}
    return {"tree": tree, "reproduced": bool(failed), "mismatches": [] if failed else ["every clause holds for this input"],
            "failed_clauses": failed}


class Decision:
    def __init__(self, prop):
        self.prop = prop
        self.violations = []     # (obligation, replay path, suffix)
        self.undecided = []
        self.failures = []
        self.known = []
        self.lines = []


def check_property(prop, tier="quick", tree="/repo", record=False, jobs=None, level="proof", extra_tasks=None,
                   design_ref="", bounded_only_labels=()):
    t0 = time.time()
    REG = load_contracts()
    timeout_ms = 20000 if tier == "quick" else 60000
    tasks = tasks_for(prop, REG)
    if extra_tasks:
        tasks += extra_tasks
    if not tasks:
        print(f"CHECKER-FAILURE property={prop}: no verification tasks")
        return 3, None
    bounded = BOUNDED_QUICK if tier == "quick" else BOUNDED_THOROUGH
    jobsB = [(q, v, cfg, timeout_ms, tree, False, frozenset()) for (q, v) in tasks
             for cfg in (bounded if not getattr(REG.contracts[q], "own_bounds", False) else [{"own": True}])
             if getattr(REG.contracts[q], "bounded", True)]
    unb = lambda q: getattr(REG.contracts[q], "unbounded", True)
    njobs = jobs or min(16, os.cpu_count() or 4)
    hard = 480 if tier == "quick" else 1800
    # phase 1: bounded (quantifier-free) instances: fast, yields replayable counterexamples
    resB = run_tasks(_run_task, jobsB, njobs, hard)
    refuted_names = frozenset(o["name"] for r in resB for o in r["results"] if o["status"] == "refuted")
    # phase 2: unbounded proofs; obligations already refuted in phase 1 are not attempted again
    # unbounded tasks: a contract may name its own variants for the symbolic mode (bounded shape variants make no sense there)
    tasksA = []
    for q in dict.fromkeys(q for (q, _v) in tasks):
        c_ = REG.contracts[q]
        vs = c_.unbounded_variants() if hasattr(c_, "unbounded_variants") else [v for (q2, v) in tasks if q2 == q]
        tasksA += [(q, v) for v in vs]
    jobsA = [(q, v, None, timeout_ms, tree, True, refuted_names) for (q, v) in tasksA if unb(q)]
    resA = run_tasks(_run_task, jobsA, njobs, hard)
    # a task killed at the hard limit is out of reach (path explosion on this tree), not a checker crash: the run-time
    # fallback stands in where one exists, otherwise the function is reported undecided
    for r in resA + resB:
        if r.get("killed"):
            r["limit"] = r["error"]
            r["error"] = None
            try:
                from pyvc.source import Repo
                _maybe_fallback(r, Repo(tree), REG.contracts[r["qualname"]], r["variant"], r["concrete"], tree, timeout_ms)
            except Exception:
                r["rt_fallback"] = {"error": traceback.format_exc()[-600:]}
    res = resA + resB
    D = Decision(prop)
    # ---- crashes / out of reach
    for r in res:
        if r["error"]:
            D.failures.append(f"{r['qualname']}[{r['variant']}] crashed:\n{r['error']}")
    # unbounded-only contracts whose task fell back to the run-time stand-in are bounded results from here on
    moved = [r for r in resA if r.get("fallback_of_unbounded")]
    resA = [r for r in resA if not r.get("fallback_of_unbounded")]
    resB = resB + moved
    res = resA + resB
    # phase 3: unbounded task out of the engine's reach (and no run-time fallback): the bounded tasks of the same contract
    # stand in if every one of them explored the real code completely (no limit, no error) - labelled bounded
    standin = {}
    fb_done = {(r["qualname"], r["variant"]) for r in resB if r.get("limit_covered_by_fallback")}
    need = [(r["qualname"], r["variant"], r["limit"]) for r in resA if r["limit"] and not r["error"]
            and (r["qualname"], r["variant"]) not in fb_done]
    extra_jobs = [(q, v, cfg, timeout_ms, tree, False, frozenset()) for (q, v, _l) in need
                  if not getattr(REG.contracts[q], "bounded", True) for cfg in bounded]
    extra_res = run_tasks(_run_task, extra_jobs, njobs, hard) if extra_jobs else []
    for (q, v, lim) in need:
        own = [r for r in (resB + extra_res) if r["qualname"] == q and r["variant"] == v]
        if own and all(not r["error"] and not r["limit"] for r in own):
            standin[(q, v)] = lim
            for r in extra_res:
                if r["qualname"] == q and r["variant"] == v:
                    r["standin_for_unbounded"] = True
                    resB.append(r)
    res = resA + resB
    covered = {(r["qualname"], r["variant"]) for r in resB if r.get("limit_covered_by_fallback")} | set(standin)
    limits = [r for r in resA if r["limit"] and (r["qualname"], r["variant"]) not in covered] + \
             [r for r in resB if r["limit"] and (not unb(r["qualname"]) or r.get("fallback_of_unbounded"))
              and not r.get("limit_covered_by_fallback")]
    # generator functions whose proof is out of reach on this tree are still decided (bounded) by the run-time contract
    # monitor on the real generator, which the C14 / C15 / C16 checks always run afterwards (checks/gen_monitor.py)
    by_monitor = [r for r in limits if getattr(REG.contracts[r["qualname"]], "standin_by_monitor", False)
                  and prop in ("C14", "C15", "C16")]
    limits = [r for r in limits if r not in by_monitor]
    for r in by_monitor:
        standin[(r["qualname"], r["variant"])] = f"{r['limit']}; decided by the generator run-time monitor"
    # loader leaf functions out of reach (also in their own literal-size mode): the concrete-structured whole-loader tasks
    # of this check execute the real leaf code inlined; if every one of them finished, they decide (bounded)
    for r in list(limits):
        sc_ = getattr(REG.contracts[r["qualname"]], "standin_contract", None)
        if sc_ is None:
            continue
        own = [x for x in resB if x["qualname"] == sc_]
        if own and all(not x["error"] and not x["limit"] for x in own):
            limits.remove(r)
            standin[(r["qualname"], r["variant"])] = f"{r['limit']}; decided by the bounded tasks of {sc_.split('.')[-2]}.{sc_.split('.')[-1]}"
    D_rt = {f"{r['qualname']}[{r['variant']}]": r["rt_fallback"] for r in resB if r.get("rt_fallback")}
    # ---- aggregate mode A by obligation name
    agg = {}
    for r in resA:
        for o in r["results"]:
            if not _counts_for(prop, o["tags"]):
                continue
            a = agg.setdefault(o["name"], {"name": o["name"], "kind": o["kind"], "instances": 0, "discharged": 0,
                                           "seconds": 0.0, "backends": set(), "bad": []})
            a["instances"] += 1
            a["seconds"] += o["seconds"]
            a["backends"].add(o["backend"])
            if o["status"] == "discharged":
                a["discharged"] += 1
            else:
                a["bad"].append({"variant": r["variant"], "status": o["status"], "reason": o.get("reason", ""),
                                 "goal": o.get("goal", "")})
    # ---- bounded results by name
    bref = {}
    covers = {}
    bagg = {}
    for r in resB:
        key = (r["qualname"], r["variant"])
        for o in r["results"]:
            if o["kind"] == "cover":
                covers.setdefault(key, []).append(o["status"])
                continue
            if not _counts_for(prop, o["tags"]):
                continue
            b = bagg.setdefault(o["name"], {"instances": 0, "discharged": 0, "bounded_only": not unb(r["qualname"]),
                                            "unknown": 0})
            b["instances"] += 1
            if o["status"] == "discharged":
                b["discharged"] += 1
            elif o["status"] == "refuted":
                bref.setdefault(o["name"], []).append((r, o))
            else:
                b["unknown"] += 1
    expected_path = os.path.join(VERIF, "contracts", "expected_obligations.json")
    expected = json.load(open(expected_path)) if os.path.exists(expected_path) else {}
    exp = expected.get(prop, {})
    known = load_known(prop)
    replay_dir = os.path.join(VERIF, "replays")
    # ---- decide
    names = sorted(set(agg) | set(bref))
    for name in names:
        a = agg.get(name)
        okA = a is not None and a["discharged"] == a["instances"]
        refs = bref.get(name, [])
        if okA and not refs:
            continue
        kf = match_known(known, name)
        # try to find a replayable counterexample
        reproduced = None
        tried = 0
        last = None
        for (r, o) in refs[:8]:
            if "cex" not in o:
                continue
            tried += 1
            path = os.path.join(replay_dir, f"{prop}-{_slug(name)}-{tried}.json")
            cex = dict(o["cex"])
            cex["obligation"] = name
            cex["property"] = prop
            cex["variant"] = r["variant"]
            cex["bounded_config"] = r["concrete"]
            cex["solver_goal"] = o.get("goal", "")
            j = run_replay(cex, tree, path)
            last = (path, j)
            if j.get("reproduced"):
                reproduced = path
                break
        if reproduced:
            if kf is not None and witness_matches(kf, reproduced):
                D.known.append((kf, name))
                continue
            D.violations.append((name, reproduced, ""))
            continue
        if okA and refs:
            # bounded refutation that the unbounded proof contradicts and that does not replay: engine problem
            D.failures.append(f"bounded refutation of {name} contradicts its unbounded proof and does not replay: "
                              f"{last[1].get('mismatches') if last else 'no model'}")
            continue
        # not discharged unbounded, no replaying input
        path = os.path.join(replay_dir, f"{prop}-{_slug(name)}-noinput.json")
        os.makedirs(replay_dir, exist_ok=True)
        with open(path, "w") as f:
            json.dump({"property": prop, "obligation": name, "harness": "none",
                       "verifier_output": a["bad"] if a else [], "bounded_refutations": len(refs),
                       "replay_attempts": tried, "last_replay": last[1] if last else None}, f, indent=1)
        statuses = {b["status"] for b in (a["bad"] if a else [])}
        regressed = exp.get(name) == "discharged"
        if a is None and not refs:
            continue
        if kf is not None:
            D.known.append((kf, name))
        elif "refuted" in statuses or regressed or refs:
            D.violations.append((name, path, " no-failing-input-found"))
        else:
            D.undecided.append((name, path))
    # ---- bounded-only obligations that the bounded run could not decide
    for name, b in bagg.items():
        if b.get("bounded_only") and b["unknown"] and name not in bref:
            D.undecided.append((name, "bounded instance undecided"))
    # ---- engine cross-check on ordinary inputs (models of path hypotheses): prediction must equal the real code
    xs = [x for r in resB for x in r.get("xcheck", [])]
    xres = {"inputs": len(xs), "agree": 0, "disagree": 0}
    if xs:
        os.makedirs(replay_dir, exist_ok=True)
        bpath = os.path.join(replay_dir, f"{prop}-xcheck-batch-{os.getpid()}.json")    # unique: checks may run concurrently
        with open(bpath, "w") as f:
            json.dump(xs, f)
        env = dict(os.environ, NASIM_TREE=tree, PYTHONPATH=tree)
        p_ = subprocess.run([sys.executable, os.path.join(VERIF, "replay", "dyn_replay.py"), "--batch", bpath], env=env,
                            stdout=subprocess.PIPE, stderr=subprocess.STDOUT, text=True, timeout=1800)
        try:
            outs = json.loads(p_.stdout[p_.stdout.index("@@JSON@@") + 8:])
        except Exception:
            outs = []
            D.failures.append("engine cross-check batch crashed: " + p_.stdout[-300:])
        for x, o_ in zip(xs, outs):
            if o_.get("reproduced"):
                xres["agree"] += 1
            else:
                xres["disagree"] += 1
                if not D.violations:
                    D.failures.append(f"engine cross-check: prediction differs from the real code for harness "
                                      f"{x.get('harness')}: {o_.get('mismatches', [])[:3]}")
    D.xcheck = xres
    D.rt = D_rt
    limited_q = {r["qualname"] for r in res if r.get("limit")}
    # ---- vanished obligations
    cur_sha = {r["qualname"]: r.get("sha") for r in res if r.get("sha")}
    rec_sha = exp.get("__sha__", {}) if isinstance(exp.get("__sha__"), dict) else {}
    if exp and not record and not D.violations:
        for name, st in exp.items():
            if name == "__sha__":
                continue
            if ":raises:" in name or name.startswith("pre@"):
                continue        # exceptional-exit / call-site obligations exist only while such a path is explored
            fq = name.split(":", 1)[0]
            if fq in cur_sha and rec_sha.get(fq) is not None and cur_sha[fq] != rec_sha[fq]:
                continue        # the function's source differs from the recorded baseline: its obligations (loop
                                # invariants of a loop that no longer exists, ...) legitimately differ; the guard is
                                # about the MACHINERY dropping obligations of unchanged code
            if any(name.startswith(q + ":") or f"@{q}:" in name for q in limited_q):
                continue        # function decided by a bounded stand-in / run-time fallback on this tree (engine limit):
                                # its proof obligations are not (all) generated
            if name not in agg and name not in bagg and not limits:
                D.failures.append(f"obligation vanished: {name}")
    # ---- vacuity: every bounded task must have at least one feasible normal exit
    for (q, v) in tasks:
        if not getattr(REG.contracts[q], "bounded", True):
            continue
        st = covers.get((q, v), [])
        # vacuous = no normal-exit path at all, or every one of them has a provably contradictory hypothesis set
        # ("unknown" = quantified hypotheses the solver could neither satisfy nor refute: not evidence of vacuity)
        if not st or all(s == "infeasible" for s in st):
            lim = [r for r in resB if r["qualname"] == q and r["variant"] == v and r["limit"]]
            if not lim and not REG.contracts[q].must_not_return(v):
                D.failures.append(f"vacuity guard: no feasible normal-exit path for {q}[{v}] (covers={st})")
    n_obl = len(agg)
    n_dis = sum(1 for a in agg.values() if a["discharged"] == a["instances"])
    if n_obl == 0 and not limits and not any(b.get("bounded_only") for b in bagg.values()):
        D.failures.append("zero obligations generated")
    if record:
        expected[prop] = {n: ("discharged" if a["discharged"] == a["instances"] else "open") for n, a in agg.items()}
        expected[prop]["__sha__"] = {r["qualname"]: r["sha"] for r in res if r.get("sha")}
        for n, b in bagg.items():
            if b.get("bounded_only"):
                expected[prop][n] = "bounded-discharged" if b["discharged"] == b["instances"] else "open"
        with open(expected_path, "w") as f:
            json.dump(expected, f, indent=1, sort_keys=True)
    # ---- output
    code = 0
    for kf, name in D.known:
        print(f"KNOWN-FINDING: property={prop} {kf['what']} (obligation {name})")
    for name, path, suffix in D.violations:
        print(f"VIOLATION property={prop} replay={path}{suffix}")
        print(f"  failed obligation: {name}")
        code = 1
    for (q, v), lim in sorted(standin.items()):
        print(f"BOUNDED-STAND-IN property={prop} {q}[{v}]: unbounded proof out of the engine's reach on this tree ({lim}); "
              f"decided on the bounded configurations only")
    D.standin = {f"{q}[{v}]": lim for (q, v), lim in standin.items()}
    seen_rt = set()
    for r in resB:
        if r.get("limit_covered_by_fallback") and (r["qualname"], r["variant"]) not in seen_rt:
            seen_rt.add((r["qualname"], r["variant"]))
            print(f"RUN-TIME-FALLBACK property={prop} {r['qualname']}[{r['variant']}]: engine limit on this tree ({r['limit']}); "
                  f"the contract was evaluated on the real code over {r['rt_fallback'].get('valid')} random inputs per bounded "
                  f"configuration (bounded)")
    for f_ in D.failures:
        print(f"CHECKER-FAILURE property={prop}: {f_}")
    if code == 0 and D.failures:
        code = 3
    if code == 0 and (D.undecided or limits):
        for name, path in D.undecided:
            print(f"UNDECIDED property={prop} obligation={name} details={path}")
        for r in limits:
            print(f"OUT-OF-REACH property={prop} {r['qualname']}[{r['variant']}]: {r['limit']}")
        code = 2
    wall = time.time() - t0
    ev = build_evidence(prop, tier, level, agg, bagg, resA, resB, D, bounded, wall, n_obl, n_dis, covers, design_ref,
                        tree)
    print(f"{prop}: obligations={n_obl} discharged={n_dis} bounded-instances="
          f"{sum(b['instances'] for b in bagg.values())} violations={len(D.violations)} "
          f"known={len(D.known)} undecided={len(D.undecided)} wall={wall:.1f}s exit={code}")
    return code, ev


def _slug(name):
    return "".join(ch if ch.isalnum() else "_" for ch in name.split("nasim.")[-1])[:80]


def load_known(prop):
    p = os.path.join(VERIF, "known_findings.json")
    if not os.path.exists(p):
        return []
    j = json.load(open(p))
    return [f for f in j.get("findings", []) if f.get("property") == prop]


def match_known(known, name):
    for f in known:
        if f.get("obligation") == name:
            return f
    return None


def witness_matches(kf, replay_path):
    """a known finding suppresses a violation only for the failing input class it names"""
    cls = kf.get("input_class")
    if not cls:
        return False
    try:
        rep = json.load(open(replay_path))
    except Exception:
        return False
    from checks import known_classes
    fn = getattr(known_classes, cls, None)
    return bool(fn and fn(rep))


def assumed_contracts():
    """mechanical scan of the registry: contracts that are only ASSUMED at call sites (no verification task), and
    contracts whose call-site model is used unbounded although their own verification is bounded"""
    from pyvc.contract import REG
    out = []
    for q, c in sorted(REG.contracts.items()):
        doc = (c.__doc__ or "").strip().split("\n")[0]
        if not getattr(c, "verify", True):
            out.append(f"ASSUMED contract (call-site model only, not verified): {q} - {doc}")
        elif not getattr(c, "unbounded", True) and getattr(c, "callable_by_contract", True) \
                and type(c).havoc is not __import__("pyvc.contract", fromlist=["Contract"]).Contract.havoc:
            out.append(f"call-site model used in unbounded proofs, own verification BOUNDED only: {q}")
    return out


def build_evidence(prop, tier, level, agg, bagg, resA, resB, D, bounded, wall, n_obl, n_dis, covers, design_ref, tree):
    funcs = {}
    for r in resA:
        if "sha" in r:
            funcs[r["qualname"]] = {"file": r.get("file"), "source_sha256": r["sha"]}
    obl = []
    solver_s = 0.0
    for n, a in sorted(agg.items()):
        solver_s += a["seconds"]
        obl.append({"name": n, "kind": a["kind"], "instances": a["instances"], "discharged": a["discharged"],
                    "backend": "+".join(sorted(a["backends"])), "seconds": round(a["seconds"], 3)})
    samples = [o for o in obl[:3]]
    callees = set()
    for r in resA:
        for k, q in (r.get("stats", {}) or {}).get("calls", []):
            callees.add(f"{k}:{q}")
    ev = {
        "property_id": prop, "tier": tier, "seed": int(os.environ.get("VERIF_SEED", "0") or 0), "level": level,
        "coverage": {
            "obligations": n_obl, "discharged": n_dis,
            "checker_cmd": f"{sys.executable} checks/check.py {prop} --tier {tier}",
            "trusted_base": TRUSTED_BASE,
            "samples": samples,
            "explanation": "contract-based deductive verification: real AST of each function under contract is "
                           "executed symbolically (unbounded sizes, loop invariants, callee contracts) and every "
                           "obligation is discharged by z3/cvc5; the same obligations are re-checked on bounded "
                           "concrete-structured scenarios (QF) to obtain replayable counterexamples and as a vacuity "
                           "guard.",
            "functions_under_contract": funcs,
            "obligation_table": obl,
            "solver_seconds": round(solver_s, 2),
            "bounded_obligation_instances": sum(b["instances"] for b in bagg.values()),
            "bounded_discharged_instances": sum(b["discharged"] for b in bagg.values()),
            "bounded_configs": bounded,
            "bounded_only_obligations": {n: {"instances": b["instances"], "discharged": b["discharged"]}
                                         for n, b in sorted(bagg.items()) if b.get("bounded_only")},
            "cover_checks": {f"{k[0]}[{k[1]}]": v for k, v in covers.items()},
            "call_graph_used": sorted(callees),
            "known_findings_printed": [kf["what"] for kf, _ in D.known],
            "engine_crosscheck": getattr(D, "xcheck", {}),
            "run_time_contract_fallback": getattr(D, "rt", {}),
            "unbounded_out_of_reach_decided_by_bounded_standin": getattr(D, "standin", {}),
            "undecided": [n for n, _ in D.undecided],
            "tree": tree,
            "design_ref": design_ref,
        },
        "assumptions": TRUSTED_BASE + assumed_contracts(),
        "wall_s": round(wall, 2),
        "violations": len(D.violations),
    }
    return ev


def write_evidence(prop, ev):
    d = os.path.join(VERIF, "evidence")
    if os.path.realpath(str(ev.get("coverage", {}).get("tree", "/repo"))) != os.path.realpath("/repo"):
        # a run against a scratch tree (seeded / harmless sweeps via --tree) must not clobber the evidence of /repo
        d = os.path.join(VERIF, ".scratch_evidence")
    os.makedirs(d, exist_ok=True)
    with open(os.path.join(d, f"{prop}.json"), "w") as f:
        json.dump(ev, f, indent=1, default=str)
