"""Run-time contract fallback (bounded stand-in) for functions the deductive engine cannot execute on the tree under
test (EngineLimit: e.g. a loop replaced by NumPy vector operations).

The SAME sidecar contract is used, but as a monitor: random concrete inputs satisfying the contract's precondition are
generated for a concrete-structured scenario, the REAL function is run on each (replay/dyn_replay.py), its concrete
outputs are lifted back into the contract's vocabulary, and every `ensures` / `frame` clause is evaluated with the solver
on ground formulas.  A clause that evaluates to false is a violation with a failing input by construction.
Bounded: `samples` inputs per (function, action kind); labelled as such in the evidence, never counted as proved."""
import json
import os
import random
import subprocess
import sys

import z3

VERIF = os.path.dirname(os.path.dirname(os.path.abspath(__file__)))

SUPPORTED = {
    "nasim.envs.host_vector.HostVector.perform_action": "hv_perform_action",
    "nasim.envs.network.Network.perform_action": "net_perform_action",
    "nasim.envs.network.Network._perform_subnet_scan": "net_subnet_scan",
    "nasim.envs.network.Network._update_reachable": "net_update_reachable",
    "nasim.envs.network.Network.reset": "net_reset",
    "nasim.envs.network.Network.has_required_remote_permission": "net_hrp",
    "nasim.envs.network.Network.traffic_permitted": "net_tp",
    "nasim.envs.network.Network.all_sensitive_hosts_compromised": "net_goal",
    "nasim.envs.state.State.get_observation": "state_get_observation",
    "nasim.envs.host_vector.HostVector.observe": "hv_observe",
    "nasim.envs.environment.NASimEnv.step": "env_step",
    "nasim.envs.environment.NASimEnv.generative_step": "env_step",
    "nasim.envs.state.State.get_initial_observation": "state_get_initial_observation",
    "nasim.envs.environment.NASimEnv.get_action_mask": "env_action_mask",
    "nasim.envs.host_vector.HostVector._update_vector_idxs": "layout",
    "nasim.envs.host_vector.HostVector._initialize": "layout",
    "nasim.envs.host_vector.HostVector.vectorize": "layout",
    "nasim.envs.state.State.tensorize": "layout",
    "nasim.envs.state.State.generate_initial_state": "layout",
    "nasim.scenarios.scenario.Scenario.get_state_dims": "scn_scalar",
    "nasim.scenarios.scenario.Scenario.get_observation_dims": "scn_scalar",
    "nasim.scenarios.scenario.Scenario.get_action_space_size": "scn_scalar",
    "nasim.scenarios.scenario.Scenario.host_value_bounds": "scn_scalar",
    "nasim.scenarios.scenario.Scenario.host_discovery_value_bounds": "scn_scalar",
    "nasim.envs.network.Network.get_total_sensitive_host_value": "scn_scalar",
    "nasim.envs.network.Network.get_total_discovery_value": "scn_scalar",
    "nasim.envs.environment.NASimEnv.get_score_upper_bound": "scn_scalar",
    "nasim.envs.environment.NASimEnv.goal_reached": "scn_scalar",
    "nasim.envs.action.ParameterisedActionSpace.get_action": "action_decode",
    "nasim.envs.action.FlatActionSpace.get_action": "action_decode",
    "nasim.envs.action.ParameterisedActionSpace.__init__": "action_decode",
    "nasim.envs.action.FlatActionSpace.__init__": "action_decode",
}

# harnesses whose clauses are evaluated natively by an oracle in replay/dyn_replay.py (environment-level functions: the
# engine-side contract speaks about an abstract action space / contract-havoced callees that have no concrete lifting)
NATIVE_ORACLE = {"env_step", "env_action_mask", "layout", "scn_scalar", "action_decode"}


def random_scenario(rng, cfg):
    subs = cfg["subnets"]
    nS = len(subs)
    addrs = [(s, h) for s in range(1, nS) for h in range(subs[s])]
    if cfg.get("addr_perm"):
        addrs = [addrs[i] for i in cfg["addr_perm"]]
    n_os, n_srv, n_proc = cfg.get("n_os", 2), cfg.get("n_srv", 2), cfg.get("n_proc", 2)
    topo = [[1 if a == b else 0 for b in range(nS)] for a in range(nS)]
    sym = rng.random() < 0.6
    for a in range(nS):
        for b in range(a + 1, nS):
            x = int(rng.random() < 0.6)
            y = x if sym else int(rng.random() < 0.6)
            topo[a][b], topo[b][a] = x, y
    fw = {}
    for a in range(nS):
        for b in range(nS):
            if a != b and (topo[a][b] or topo[b][a]):
                fw[f"{a},{b}"] = [k for k in range(n_srv) if rng.random() < 0.5]
    hfw = {}
    for (ds, dh) in addrs:
        ent = {}
        for (ss, sh) in addrs:
            if rng.random() < 0.5:
                ent[f"{ss},{sh}"] = [k for k in range(n_srv) if rng.random() < 0.6]
        hfw[f"{ds},{dh}"] = ent
    nsens = cfg.get("n_sens", 1)
    sens = [list(a) for a in rng.sample(addrs, min(nsens, len(addrs)))]
    b0 = cfg.get("bounds", (nS + 1, max(subs[1:]) + 1))
    cfgs = {"os": [], "srv": [], "proc": []}
    for _ in addrs:
        k = rng.randrange(n_os)
        cfgs["os"].append([j == k for j in range(n_os)])
        cfgs["srv"].append([rng.random() < 0.5 for _j in range(n_srv)])
        cfgs["proc"].append([rng.random() < 0.5 for _j in range(n_proc)])
    return {"subnets": subs, "topology": topo, "firewall": fw, "host_firewall": hfw, "bounds": [int(b0[0]), int(b0[1])],
            "cfg": cfgs,
            "n_os": n_os, "n_srv": n_srv, "n_proc": n_proc, "addrs": [list(a) for a in addrs], "sensitive": sens,
            "hval": [rng.choice([0.0, 1.0, 5.0, -3.0, 2.5]) for _ in addrs],
            "dval": [rng.choice([0.0, 1.0, 2.0]) for _ in addrs]}


def width(sc):
    return sc["bounds"][0] + sc["bounds"][1] + 6 + sc["n_os"] + sc["n_srv"] + sc["n_proc"]


def random_row(rng, sc, i):
    W = width(sc)
    B0, B1 = sc["bounds"]
    row = [0.0] * W
    a = sc["addrs"][i]
    row[a[0]] = 1.0
    row[B0 + a[1]] = 1.0
    c = B0 + B1
    comp = rng.random() < 0.55
    acc = rng.choice([1, 2]) if comp else (0 if rng.random() < 0.8 else rng.choice([1, 2]))
    reach = rng.random() < 0.8
    disc = rng.random() < 0.75
    row[c], row[c + 1], row[c + 2] = float(comp), float(reach), float(disc)
    row[c + 3], row[c + 4], row[c + 5] = sc["hval"][i], sc["dval"][i], float(acc)
    o = c + 6
    osk = rng.randrange(sc["n_os"])
    for k in range(sc["n_os"]):
        row[o + k] = float(k == osk)
    for k in range(sc["n_srv"]):
        row[o + sc["n_os"] + k] = float(rng.random() < 0.6)
    for k in range(sc["n_proc"]):
        row[o + sc["n_os"] + sc["n_srv"] + k] = float(rng.random() < 0.6)
    return row


def random_action(rng, sc, kind):
    if kind == "NoOp":
        return {"kind": "NoOp"}
    a = {"kind": kind, "target": list(rng.choice(sc["addrs"])), "cost": rng.choice([0.0, 1.0, 2.5]),
         "prob": rng.choice([0.0, 1.0, 0.5, 0.25, 1.0]), "req": rng.choice([0, 1, 1, 2])}
    if kind == "Exploit":
        a.update(service=rng.randrange(sc["n_srv"]), os=rng.choice([-1] + list(range(sc["n_os"]))), access=rng.choice([1, 2]))
    if kind == "PrivilegeEscalation":
        a.update(process=rng.choice([-1] + list(range(sc["n_proc"]))), os=rng.choice([-1] + list(range(sc["n_os"]))),
                 access=rng.choice([1, 2]))
    return a


def random_input(rng, harness, variant, cfg):
    sc = random_scenario(rng, cfg)
    rep = {"harness": harness, "scenario": sc, "draws": []}
    kinds = ["Exploit", "PrivilegeEscalation", "ServiceScan", "OSScan", "SubnetScan", "ProcessScan", "NoOp"]
    rep["actions_variant"] = rng.choice([0, 1])       # which exploit / escalation tables the environment-level oracles install
    if harness == "action_decode":
        rep["seed"] = rng.randrange(10 ** 6)
        return rep
    if harness in ("layout", "scn_scalar"):
        rep["tensor"] = [random_row(rng, sc, i) for i in range(len(sc["addrs"]))]
        rep["host_index"] = rng.randrange(len(sc["addrs"]))
        rep["prev_layout"] = rng.choice(["other", "same-names-permuted", "same-names-permuted", "same-names-other-bounds"])
        return rep
    if harness == "hv_perform_action":
        rep["vector"] = random_row(rng, sc, rng.randrange(len(sc["addrs"])))
        rep["action"] = random_action(rng, sc, variant)
        return rep
    if harness == "hv_observe":
        rep["vector"] = random_row(rng, sc, rng.randrange(len(sc["addrs"])))
        names = ["address", "compromised", "reachable", "discovered", "access", "value", "discovery_value", "services",
                 "processes", "os"]
        rep["switches"] = {k: rng.random() < 0.5 for k in names}
        rep["switches"]["services"] = variant[2] == "1"
        rep["switches"]["processes"] = variant[3] == "1"
        return rep
    if harness == "state_get_observation":
        rep["tensor"] = [random_row(rng, sc, i) for i in range(len(sc["addrs"]))]
        rep["action"] = random_action(rng, sc, variant)
        rep["fully_obs"] = rng.random() < 0.3
        succ = rng.random() < 0.7
        flags = [False, False, False]
        if not succ and rng.random() < 0.8:
            flags[rng.randrange(3)] = True
        res = {"success": succ, "value": rng.choice([0.0, 1.0, 5.0]), "connection_error": flags[0],
               "permission_error": flags[1], "undefined_error": flags[2], "access": float(rng.choice([0, 1, 2])),
               "discovered": {}, "newly_discovered": {}}
        if variant == "SubnetScan":
            for a in sc["addrs"]:
                d = rng.random() < 0.6
                res["discovered"][f"{a[0]},{a[1]}"] = d
                res["newly_discovered"][f"{a[0]},{a[1]}"] = d and rng.random() < 0.5
        rep["result"] = res
        return rep
    rep["tensor"] = [random_row(rng, sc, i) for i in range(len(sc["addrs"]))]
    if harness == "state_get_initial_observation":
        rep["fully_obs"] = rng.random() < 0.3
        return rep
    if harness == "env_action_mask":
        rep["steps0"] = rng.choice([0, 1, 5])
        return rep
    if harness == "env_step":
        kind = variant.split("/")[0]
        lim = variant.endswith("/limit")
        rep["action"] = random_action(rng, sc, kind)
        p = rep["action"].get("prob", 1.0)
        rep["draws"] = [rng.choice([0.0, p, max(0.0, p - 0.1), min(0.999, p + 0.1)])]
        rep["steps0"] = rng.choice([0, 1, 5])
        rep["step_limit"] = rng.choice([rep["steps0"] + 1, rep["steps0"] + 2, max(1, rep["steps0"]), 100]) if lim else None
        rep["modes"] = {"fully_obs": rng.random() < 0.5, "flat_obs": rng.random() < 0.5}
        # make the goal reachable sometimes: all sensitive hosts rooted but one
        return rep
    if variant in kinds:
        rep["action"] = random_action(rng, sc, variant)
        if variant == "Exploit" and rng.random() < 0.5:
            denies = [(k, srv) for k, ent in sc["host_firewall"].items() for srvs in ent.values() for srv in srvs]
            if denies:
                k, srv = rng.choice(denies)
                rep["action"]["target"], rep["action"]["service"] = [int(x) for x in k.split(",")], srv
        p = rep["action"].get("prob", 1.0)
        rep["draws"] = [rng.choice([0.0, p, max(0.0, p - 0.1), min(0.999, p + 0.1), rng.random()])]
        if rep["draws"][0] >= 1.0:
            rep["draws"] = [0.999]
    if harness == "net_update_reachable":
        rep["compromised_addr"] = list(rng.choice(sc["addrs"]))
    if harness == "net_tp":
        rep["host_addr"] = list(rng.choice(sc["addrs"]))
        rep["service"] = rng.randrange(sc["n_srv"])
        # half of the queries ask about a (destination, service) pair some host-firewall deny entry talks about
        denies = [(k, srv) for k, ent in sc["host_firewall"].items() for srvs in ent.values() for srv in srvs]
        if denies and rng.random() < 0.5:
            k, srv = rng.choice(denies)
            rep["host_addr"], rep["service"] = [int(x) for x in k.split(",")], srv
    return rep


# ---------------------------------------------------------------------------- evaluation of the contract on concrete I/O

def _arr1(base, vals):
    t = base
    for c, v in enumerate(vals):
        t = z3.Store(t, z3.IntVal(c), z3.RealVal(repr(float(v))))
    return t


def _arr2(base, rows):
    t = base
    for i, r in enumerate(rows):
        t = z3.Store(t, z3.IntVal(i), _arr1(z3.Select(base, z3.IntVal(i)), r))
    return t


def input_facts(sig, rep, S):
    """ground hypotheses equating the harness symbols with the concrete input"""
    sc = rep["scenario"]
    nS = len(sc["subnets"])
    iv = z3.IntVal
    f = []
    for a in range(nS):
        for b in range(nS):
            f.append(sig.topo(iv(a), iv(b)) == sc["topology"][a][b])
            has = f"{a},{b}" in sc["firewall"]
            f.append(sig.fwdom(iv(a), iv(b)) == has)
            for k in range(sc["n_srv"]):
                f.append(sig.allow(iv(a), iv(b), iv(k)) == (has and k in sc["firewall"][f"{a},{b}"]))
    for (ds, dh) in sc["addrs"]:
        ent = sc["host_firewall"].get(f"{ds},{dh}", {})
        for (ss, sh) in sc["addrs"]:
            has = f"{ss},{sh}" in ent
            f.append(sig.hfwdom(iv(ds), iv(dh), iv(ss), iv(sh)) == has)
            for k in range(sc["n_srv"]):
                f.append(sig.deny(iv(ds), iv(dh), iv(ss), iv(sh), iv(k)) == (has and k in ent[f"{ss},{sh}"]))
    for i in range(len(sc["addrs"])):
        f.append(sig.hval(iv(i)) == z3.RealVal(repr(float(sc["hval"][i]))))
        f.append(sig.dval(iv(i)) == z3.RealVal(repr(float(sc["dval"][i]))))
    for j, a in enumerate(sc["sensitive"]):
        f.append(z3.And(sig.ssub(iv(j)) == a[0], sig.shid(iv(j)) == a[1]))
    act = getattr(S, "act", None)
    if act is not None and "action" in rep and rep["action"]["kind"] != "NoOp":
        a = rep["action"]
        rv = lambda x: z3.RealVal(repr(float(x)))
        f += [act.tsub == a["target"][0], act.thid == a["target"][1], act.cost == rv(a["cost"]), act.prob == rv(a["prob"]),
              act.req == a["req"]]
        if a["kind"] == "Exploit":
            f += [act.srv == a["service"], act.os == a["os"], act.access == a["access"]]
        if a["kind"] == "PrivilegeEscalation":
            f += [act.proc == a["process"], act.os == a["os"], act.access == a["access"]]
    return f


def lift_result(I, S, harness, rep, actual):
    """construct the engine-side result objects from the real outputs"""
    from pyvc.values import Obj, NpCell, NpArr, PyDict, AbsVal, SymV, A1, A2
    from contracts.c_host_vector import DictSort, EMPTY_DICT
    from contracts import vocab as V
    sig = S.sig
    L = sig.layout()

    def ares(r):
        arcls = I.repo.cls("nasim.envs.action.ActionResult")
        pa = lambda d: PyDict({tuple(int(x) for x in k.split(",")): bool(v) for k, v in d.items()})
        f = {"success": bool(r["success"]), "value": float(r["value"]), "connection_error": bool(r["connection_error"]),
             "permission_error": bool(r["permission_error"]), "undefined_error": bool(r["undefined_error"]),
             "discovered": pa(r.get("discovered", {})), "newly_discovered": pa(r.get("newly_discovered", {}))}
        for k in ("services", "os", "processes"):
            f[k] = AbsVal(EMPTY_DICT, "dict")
        f["access"] = 0.0
        return Obj(arcls, f, fresh=True)
    if harness == "hv_observe":
        c = NpCell(_arr1(z3.K(z3.IntSort(), z3.RealVal(0)), actual["obs_vector"]), (L.W,), dtype="float32", fresh=True)
        return NpArr(c)
    if harness in ("state_get_observation", "state_get_initial_observation"):
        obscls = I.repo.cls("nasim.envs.observation.Observation")
        N1 = len(rep["tensor"]) + 1
        base = z3.K(z3.IntSort(), z3.K(z3.IntSort(), z3.RealVal(0)))
        oc = NpCell(_arr2(base, actual["obs_tensor"]), (N1, L.W), dtype=actual.get("obs_dtype", "float32"),
                    fresh=not actual.get("aliased", False))
        if "input_tensor_after" in actual:
            S.a["self"].fields["tensor"].cell.content = _arr2(S.old["T"], actual["input_tensor_after"])
        from pyvc.values import mk
        return Obj(obscls, {"obs_shape": (N1, mk(L.W, "int") if z3.is_expr(L.W) else L.W), "aux_row": N1 - 1, "tensor": NpArr(oc)},
                   fresh=True)
    if harness == "hv_perform_action":
        cell0 = S.old["cell"]
        cell0.content = _arr1(S.old["vec"], actual["input_vector_after"])
        aliased = actual.get("aliased", False)
        ncell = cell0 if aliased else NpCell(_arr1(S.old["vec"], actual["next_vector"]), (L.W,), fresh=True)
        nxt = Obj(I.repo.cls("nasim.envs.host_vector.HostVector"), {"vector": NpArr(ncell)}, fresh=True)
        return (nxt, ares(actual["result"]))
    T0 = S.old.get("T")
    if harness in ("net_perform_action", "net_subnet_scan"):
        st = S.a.get("state") or S.a.get("next_state")
        cell0 = st.fields["tensor"].cell
        if harness == "net_perform_action":
            cell0.content = _arr2(T0, actual["input_tensor_after"])
            if actual.get("aliased"):
                nxt = st
                cell0.content = _arr2(T0, actual["next_tensor"])
            else:
                nxt = V.state_obj(I, sig, _arr2(T0, actual["next_tensor"]), fresh=True, label="next")
        else:
            cell0.content = _arr2(T0, actual["next_tensor"])
            nxt = st
        I.ctx.draws[:] = [("rand", z3.RealVal(repr(float(u)))) for u in rep.get("draws", [])][:actual.get("draws_used", 0)]
        return (nxt, ares(actual["result"]))
    if harness == "net_reset":
        st = S.a["state"]
        st.fields["tensor"].cell.content = _arr2(T0, actual["input_tensor_after"])
        return V.state_obj(I, sig, _arr2(T0, actual["next_tensor"]), fresh=True, label="reset")
    if harness == "net_update_reachable":
        S.a["state"].fields["tensor"].cell.content = _arr2(T0, actual["next_tensor"])
        return None
    if harness in ("net_hrp", "net_tp", "net_goal"):
        S.a["state"].fields["tensor"].cell.content = _arr2(T0, actual["input_tensor_after"])
        return bool(actual["result"])
    raise ValueError(harness)


def evaluate(repo, c, variant, cfg, harness, rep, actual):
    """returns list of failed clause labels for one concrete input/output pair"""
    from pyvc.interp import Interp, PathCtx
    from pyvc.contract import Policy
    from pyvc import builtins as B_
    ctx = PathCtx([], [], 2000)
    ctx.expand = True
    I = Interp(repo, ctx, Policy())
    B_.INF_SYMBOL = None
    I.ext_state["concrete"] = cfg
    I.ext_state["tolerate_ctor_limit"] = True
    S = c.setup(I, variant)
    S.variant, S.callsite = variant, False
    for _, t in c.requires(I, S):
        ctx.assume(t)
    c.snapshot(I, S)
    T0 = S.old.get("T")
    facts = input_facts(S.sig, rep, S)
    if T0 is not None and "tensor" in rep:
        rows = rep["tensor"]
        for i, r in enumerate(rows):
            for col, v in enumerate(r):
                facts.append(z3.Select(z3.Select(T0, z3.IntVal(i)), z3.IntVal(col)) == z3.RealVal(repr(float(v))))
    if "vec" in S.old and "vector" in rep:
        for col, v in enumerate(rep["vector"]):
            facts.append(z3.Select(S.old["vec"], z3.IntVal(col)) == z3.RealVal(repr(float(v))))
    if harness == "hv_observe":
        for k, v in rep["switches"].items():
            t = S.extra["sw"][k]
            if not z3.is_true(t) and not z3.is_false(t):
                facts.append(t == bool(v))
    if harness == "state_get_observation":
        r = rep["result"]
        rv = lambda x: z3.RealVal(repr(float(x)))
        facts += [z3.Bool("r_success") == r["success"], z3.Bool("r_conn") == r["connection_error"],
                  z3.Bool("r_perm") == r["permission_error"], z3.Bool("r_undef") == r["undefined_error"],
                  z3.Real("r_value") == rv(r["value"]), z3.Real("r_access") == rv(r.get("access", 0.0)),
                  z3.Bool("fully_obs") == bool(rep["fully_obs"])]
        for i, a in enumerate(rep["scenario"]["addrs"]):
            k = f"{a[0]},{a[1]}"
            if k in r.get("discovered", {}):
                facts.append(S.extra["dis"](z3.IntVal(i)) == bool(r["discovered"][k]))
                facts.append(S.extra["new"](z3.IntVal(i)) == bool(r["newly_discovered"][k]))
    if harness == "state_get_initial_observation":
        facts.append(z3.Bool("fully_obs") == bool(rep["fully_obs"]))
    if harness == "net_update_reachable":
        ad = S.a["compromised_addr"]
        from pyvc.values import ival
        facts += [ival(ad[0]) == rep["compromised_addr"][0], ival(ad[1]) == rep["compromised_addr"][1]]
    if harness == "net_tp":
        from pyvc.values import ival, nameval
        ad = S.a["host_addr"]
        facts += [ival(ad[0]) == rep["host_addr"][0], ival(ad[1]) == rep["host_addr"][1], nameval(S.a["service"]) == rep["service"]]
    if actual.get("exception"):
        return [f"raises:{actual['exception']}"], None
    if actual.get("earlier_result_modified"):
        # history frame (evaluated natively over the batch): this call modified what an earlier call had returned
        return ["frame:C13.results-of-earlier-calls-untouched"], None
    S.result = lift_result(I, S, harness, rep, actual)
    S.exc = None
    failed = []
    s = z3.Solver()
    s.set("timeout", 5000)
    for h in ctx.pc + facts:
        s.add(h)
    if s.check() != z3.sat:
        return None, "input does not satisfy the contract's precondition"      # not a valid sample
    for label, g in list(c.ensures(I, S)) + [("frame:" + l, t) for l, t in c.frame(I, S)]:
        from pyvc.vc import expand_quantifiers
        g = expand_quantifiers(g if z3.is_expr(g) else z3.BoolVal(bool(g)))
        s.push()
        s.add(z3.Not(g))
        r = s.check()
        s.pop()
        if r == z3.sat:
            failed.append(label)
    return failed, None


def run_fallback(repo, c, variant, cfg, tree, samples, seed=0):
    """returns dict(samples, valid, failures=[{label, input}])"""
    harness = SUPPORTED[c.qualname]
    import zlib
    rng = random.Random(zlib.crc32(f"{c.qualname}|{variant}|{seed}|{sorted(cfg.items())}".encode()))   # same inputs in every process
    reps = [random_input(rng, harness, variant, cfg) for _ in range(samples)]
    for rep in reps:
        rep["qualname"], rep["variant"] = c.qualname, variant
    os.makedirs(os.path.join(VERIF, "replays"), exist_ok=True)
    bpath = os.path.join(VERIF, "replays", f"rt-{harness}-{variant.replace(chr(47), chr(95))}-{os.getpid()}.json")
    with open(bpath, "w") as f:
        json.dump(reps, f)
    env = dict(os.environ, NASIM_TREE=tree, PYTHONPATH=tree)
    p = subprocess.run([sys.executable, os.path.join(VERIF, "replay", "dyn_replay.py"), "--batch-actual", bpath], env=env,
                       stdout=subprocess.PIPE, stderr=subprocess.STDOUT, text=True, timeout=1800)
    os.unlink(bpath)
    actuals = json.loads(p.stdout[p.stdout.index("@@JSON@@") + 8:])
    out = {"samples": samples, "valid": 0, "failures": []}
    seen = set()
    for rep, act in zip(reps, actuals):
        if harness in NATIVE_ORACLE:
            # environment-level clauses are evaluated natively by the oracle of replay/dyn_replay.py
            failed = list(act.get("clause_failures", [])) + ([f"raises:{act['exception']}"] if act.get("exception") else [])
            failed = [f.split(":")[0] for f in failed]
            skip = None
        else:
            failed, skip = evaluate(repo, c, variant, cfg, harness, rep, act)
        if failed is None:
            continue
        out["valid"] += 1
        for label in failed:
            if label not in seen:
                seen.add(label)
                out["failures"].append({"label": label, "input": dict(rep, harness="rt:" + harness, qualname=c.qualname,
                                                                     variant=variant, bounded_config=cfg, actual=act)})
    return out
