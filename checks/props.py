"""per-property entry points"""
from checks import driver

PROOF_PROPS = {
    "C01": "5/C01", "C02": "5/C02", "C03": "5/C03", "C04": "5/C04", "C05": "5/C05", "C06": "5/C06", "C07": "5/C07",
    "C13": "5/C13", "C09": "5/C09", "C19": "5/C19", "C08": "5/C08",
}


OTHER_PROPS = {"C11": "5/C11", "C17": "5/C17", "C18": "5/C18"}
PROOF_PROPS.update({"C10": "5/C10", "C12": "5/C12"})


def run(prop, tier, tree, record):
    if prop in OTHER_PROPS:
        code, ev = driver.check_property(prop, tier=tier, tree=tree, record=record, level="other",
                                         design_ref=OTHER_PROPS[prop])
        if ev is not None:
            driver.write_evidence(prop, ev)
        return code
    if prop == "C19":
        return run_c19(tier, tree, record)
    if prop in PROOF_PROPS:
        code, ev = driver.check_property(prop, tier=tier, tree=tree, record=record, level="proof",
                                         design_ref=PROOF_PROPS[prop])
        if ev is not None:
            driver.write_evidence(prop, ev)
        return code
    print(f"CHECKER-FAILURE: property {prop} has no check")
    return 3


def run_c19(tier, tree, record):
    """frame obligations (no undeclared global reads/writes, layout installed by every constructor) + the two
    independence lemmas; the any-layout lemma is a recorded known finding with a native witness"""
    import json, os
    from checks import c19_extra
    code, ev = driver.check_property("C19", tier=tier, tree=tree, record=record, level="other", design_ref="5/C19")
    lem = c19_extra.run(tree)
    known = driver.load_known("C19")
    extra_lines = []
    for l in lem:
        if l["status"] == "discharged":
            continue
        kf = driver.match_known(known, l["name"])
        if kf is not None:
            rc, last = c19_extra.witness(tree, kf["witness"])
            if rc == 1:
                print(f"KNOWN-FINDING: property=C19 {kf['what']}")
                l["known_finding"] = True
                continue
            l["witness_no_longer_reproduces"] = True
            continue
        path = os.path.join(driver.VERIF, "replays", "C19-lemma.json")
        os.makedirs(os.path.dirname(path), exist_ok=True)
        json.dump({"property": "C19", "obligation": l["name"], "harness": "none", "verifier_output": l}, open(path, "w"), indent=1)
        print(f"VIOLATION property=C19 replay={path} no-failing-input-found")
        code = 1 if code in (0, 2) else code
    if ev is not None:
        ev["coverage"]["lemmas"] = lem
        ev["coverage"]["explanation"] += (" C19: global-heap frame obligations are discharged for every operation; "
                                          "the equal-layout independence lemma is discharged; the any-layout lemma is "
                                          "refuted (known finding, witness replayed natively on every run).")
        driver.write_evidence("C19", ev)
    return code
