"""per-property entry points"""
from checks import driver

PROOF_PROPS = {
    "C01": "5/C01", "C02": "5/C02", "C03": "5/C03", "C04": "5/C04", "C05": "5/C05", "C06": "5/C06", "C07": "5/C07",
    "C13": "5/C13", "C09": "5/C09", "C19": "5/C19", "C08": "5/C08",
}


OTHER_PROPS = {"C17": "5/C17", "C18": "5/C18"}
PROOF_PROPS.update({"C10": "5/C10", "C12": "5/C12", "C11": "5/C11"})


def c17_reload_monitor(tree):
    """run-time contract on load_scenario over a two-step history: a file that is rewritten and loaded again (same
    path, same second) must yield the scenario of its NEW content (u.load_yaml is otherwise an assumed dependency)"""
    import os, subprocess, sys, json
    code = r'''
import sys, os, tempfile, yaml
sys.path.insert(0, sys.argv[1])
from nasim.scenarios import load_scenario
src = os.path.join(sys.argv[1], "nasim", "scenarios", "benchmark", "tiny.yaml")
doc = yaml.safe_load(open(src))
d = tempfile.mkdtemp()
p = os.path.join(d, "s.yaml")
yaml.safe_dump(doc, open(p, "w"), sort_keys=False)
a = load_scenario(p)
doc["step_limit"] = 7
doc["os_scan_cost"] = 3
doc["firewall"]["(1, 2)"] = ["ssh"]
yaml.safe_dump(doc, open(p, "w"), sort_keys=False)
b = load_scenario(p)
ok = b.step_limit == 7 and b.os_scan_cost == 3 and list(b.firewall[(1, 2)]) == ["ssh"] and a.step_limit == 1000
print("RELOAD-OK" if ok else "RELOAD-STALE")
'''
    p = subprocess.run([sys.executable, "-c", code, tree], stdout=subprocess.PIPE, stderr=subprocess.STDOUT, text=True,
                       timeout=300, env=dict(os.environ, PYTHONPATH=tree))
    return "RELOAD-OK" in p.stdout, p.stdout[-300:]


def _monitor_violation(prop, slug, obligation, details, code):
    import json, os
    path = os.path.join(driver.VERIF, "replays", f"{prop}-{slug}.json")
    os.makedirs(os.path.dirname(path), exist_ok=True)
    json.dump({"harness": "none", "property": prop, "obligation": obligation, "failing_inputs": details}, open(path, "w"), indent=1)
    print(f"VIOLATION property={prop} replay={path}")
    print(f"  failed obligation: {obligation} (run-time contract on the real code, bounded)")
    return 1 if code in (0, 2) else code


def gym_registry_monitor(prop, tree, code, ev):
    """C10 / C12: the gymnasium.make() registration table (module-level code, not a function under contract)"""
    from checks import gym_monitor
    r = gym_monitor.run(tree)
    if ev is not None:
        ev["coverage"]["gym_registration_monitor"] = {k: v for k, v in r.items() if k != "bad"} | {"failures": len(r.get("bad", []))}
    if r.get("error"):
        print(f"CHECKER-FAILURE property={prop}: gym registration monitor crashed: {r['error'][-300:]}")
        return 3 if code == 0 else code
    if r["bad"]:
        code = _monitor_violation(prop, "gym-registration", "nasim.__init__:registration:" + prop +
                                  ".registered-id-builds-the-documented-modes", r["bad"][:5], code)
        if ev is not None:
            ev["violations"] = ev.get("violations", 0) + 1
    return code


def hops_frame_monitor(prop, tree, code, ev):
    """C06 / C20: get_minimal_hops_to_goal (assumed at call sites) must not modify the goal list it is handed"""
    from checks import c20_hops
    r = c20_hops.frame_check(tree)
    if ev is not None:
        ev["coverage"]["hops_frame_monitor"] = {"calls": r["calls"], "failures": len(r["bad"])}
    if r["bad"]:
        code = _monitor_violation(prop, "hops-frame", "nasim.envs.utils.get_minimal_hops_to_goal:frame:" + prop +
                                  ".arguments-untouched", r["bad"][:3], code)
        if ev is not None:
            ev["violations"] = ev.get("violations", 0) + 1
    return code


def run(prop, tier, tree, record):
    if prop in OTHER_PROPS:
        code, ev = driver.check_property(prop, tier=tier, tree=tree, record=record, level="other",
                                         design_ref=OTHER_PROPS[prop])
        if prop == "C17":
            import json, os
            ok, out = c17_reload_monitor(tree)
            if ev is not None:
                ev["coverage"]["reload_history_monitor"] = "ok" if ok else out
            if not ok:
                path = os.path.join(driver.VERIF, "replays", "C17-reload.json")
                os.makedirs(os.path.dirname(path), exist_ok=True)
                json.dump({"harness": "none", "property": "C17", "obligation": "load_scenario:post:C17.reload-reflects-the-file",
                           "verifier_output": out}, open(path, "w"), indent=1)
                print(f"VIOLATION property=C17 replay={path} no-failing-input-found")
                print("  failed obligation: nasim.scenarios.load_scenario:post:C17.reload-reflects-the-file (run-time contract, "
                      "history: load, rewrite, load)")
                code = 1
        if ev is not None:
            driver.write_evidence(prop, ev)
        return code
    if prop == "C09":
        return run_c09(tier, tree, record)
    if prop == "C19":
        return run_c19(tier, tree, record)
    if prop == "C20":
        return run_c20(tier, tree, record)
    if prop in ("C14", "C15", "C16"):
        return run_gen(prop, tier, tree, record)
    if prop in PROOF_PROPS:
        code, ev = driver.check_property(prop, tier=tier, tree=tree, record=record, level="proof",
                                         design_ref=PROOF_PROPS[prop])
        if prop in ("C10", "C12", "C06"):
            code = gym_registry_monitor(prop, tree, code, ev)
        if prop == "C06":
            code = hops_frame_monitor(prop, tree, code, ev)
        if ev is not None:
            driver.write_evidence(prop, ev)
        return code
    print(f"CHECKER-FAILURE: property {prop} has no check")
    return 3


def run_c19(tier, tree, record):
    """frame obligations (no undeclared global reads/writes, layout installed by every constructor) + the two
    independence lemmas; the any-layout lemma is a recorded known finding with a native witness"""
    import json, os
    from checks import c19_extra
    code, ev = driver.check_property("C19", tier=tier, tree=tree, record=record, level="other", design_ref="5/C19")
    lem = c19_extra.run(tree)
    known = driver.load_known("C19")
    extra_lines = []
    for l in lem:
        if l["status"] == "discharged":
            continue
        kf = driver.match_known(known, l["name"])
        if kf is not None:
            rc, last = c19_extra.witness(tree, kf["witness"])
            if rc == 1:
                print(f"KNOWN-FINDING: property=C19 {kf['what']}")
                l["known_finding"] = True
                continue
            l["witness_no_longer_reproduces"] = True
            continue
        path = os.path.join(driver.VERIF, "replays", "C19-lemma.json")
        os.makedirs(os.path.dirname(path), exist_ok=True)
        json.dump({"property": "C19", "obligation": l["name"], "harness": "none", "verifier_output": l}, open(path, "w"), indent=1)
        print(f"VIOLATION property=C19 replay={path} no-failing-input-found")
        code = 1 if code in (0, 2) else code
    if ev is not None:
        ev["coverage"]["lemmas"] = lem
        ev["coverage"]["explanation"] += (" C19: global-heap frame obligations are discharged for every operation; "
                                          "the equal-layout independence lemma is discharged; the any-layout lemma is "
                                          "refuted (known finding, witness replayed natively on every run).")
        driver.write_evidence("C19", ev)
    return code


def run_c20(tier, tree, record):
    """unbounded: score bound = sum of sensitive values + sum of discovery values - hops (sum-loop invariants);
    bounded exhaustive: the hop function against its documented quantity W and against the Steiner bound"""
    import json, os
    from checks import c20_hops
    code, ev = driver.check_property("C20", tier=tier, tree=tree, record=record, level="other", design_ref="5/C20")
    code = hops_frame_monitor("C20", tree, code, ev)
    r = c20_hops.run(tree, tier)
    if r.get("reference_mismatch"):
        print("CHECKER-FAILURE: C20 the two independent reference computations of W disagree")
        return 3
    known = driver.load_known("C20")
    rdir = os.path.join(driver.VERIF, "replays")
    os.makedirs(rdir, exist_ok=True)
    for i, v in enumerate(r["viol_i"][:5]):
        path = os.path.join(rdir, f"C20-hops-{i + 1}.json")
        v = dict(v, harness="hops", property="C20", obligation="get_minimal_hops_to_goal:post:C20.hops-is-documented-quantity")
        j = driver.run_replay(v, tree, path)
        print(f"VIOLATION property=C20 replay={path}" + ("" if j.get("reproduced") else " no-failing-input-found"))
        print("  failed obligation: nasim.envs.utils.get_minimal_hops_to_goal:post:C20.hops-is-documented-quantity (bounded)")
        code = 1
    if r["viol_ii_known"]:
        kf = driver.match_known(known, "get_minimal_hops_to_goal:post:C20.hops-at-most-steiner")
        hops, st = c20_hops.witness(tree)
        if kf is not None and hops > st:
            print(f"KNOWN-FINDING: property=C20 {kf['what']}")
        elif kf is None:
            path = os.path.join(rdir, "C20-steiner-1.json")
            json.dump(dict(r["viol_ii_known"][0], harness="none", property="C20",
                           obligation="get_minimal_hops_to_goal:post:C20.hops-at-most-steiner"), open(path, "w"), indent=1)
            print(f"VIOLATION property=C20 replay={path}")
            code = 1
    if ev is not None:
        ev["coverage"].update({
            "evaluations": r["evaluations"], "distinct_nontrivial": r["distinct_nontrivial"], "exhaustive": True,
            "rule": f"every symmetric self-connected 0/1 topology on 3..{r['nmax']} subnets x every non-empty set of <= 3 "
                    "reachable sensitive subnets; non-trivial = more than one sensitive subnet or W != Steiner; plus "
                    f"{r['structured_instances']} structured larger instances (chains, stars, rings, seeded random connected "
                    f"graphs) with up to {r['max_sensitive_subnets']} sensitive subnets, W by Held-Karp DP",
            "bounded_hops": {"clause_i_failures": len(r["viol_i"]), "clause_ii_failures_known_class": len(r["viol_ii_known"]),
                             "nmax": r["nmax"], "wall_s": round(r["wall"], 2)}})
        ev["coverage"]["samples"] = (ev["coverage"].get("samples") or []) + r["samples"]
        ev["coverage"]["explanation"] += (" C20: the score bound's arithmetic is proved (sum-loop invariants); the hop "
            "function is checked by BOUNDED exhaustive enumeration with contracts as run-time monitors (not proved); "
            "the whole-episode inequality is an optimisation over histories and is NOT decided (reduced on paper to "
            "hops <= Steiner + C05).")
        ev["violations"] = ev.get("violations", 0) + len(r["viol_i"])
        driver.write_evidence("C20", ev)
    return code


def run_gen(prop, tier, tree, record):
    """C14 / C15 / C16: contracts as run-time monitors on the real generator over a parameter grid x seeds
    (bounded stand-in), plus - for C14 - the deductive determinism obligations of the dynamics contracts"""
    import json, os, time
    from checks import gen_monitor as gm
    t0 = time.time()
    code, ev = 0, None
    # deductive part: dynamics determinism (C14); generator arithmetic / structure functions (C15, C16-G1)
    code, ev = driver.check_property(prop, tier=tier, tree=tree, record=record, level="other", design_ref="5/" + prop)
    rdir = os.path.join(driver.VERIF, "replays")
    os.makedirs(rdir, exist_ok=True)
    res, ngrid, seeds = gm.run_grid(tree, tier)
    prefix = {"C14": "C14.", "C15": "C15.", "C16": "C16."}[prop]
    bad = [(r, v) for r in res for v in r["violations"] if v.startswith(prefix)]
    known = driver.load_known(prop)
    nviol = 0
    seen = set()
    for r, v in bad:
        clause = v.split(":")[0]
        if clause in seen:
            continue
        seen.add(clause)
        nviol += 1
        path = os.path.join(rdir, f"{prop}-gen-{nviol}.json")
        rep = {"harness": "gen", "property": prop, "obligation": f"ScenarioGenerator.generate:post:{clause}",
               "clause": v, "params": r["params"], "seed": r["seed"]}
        j = driver.run_replay(rep, tree, path)
        print(f"VIOLATION property={prop} replay={path}" + ("" if j.get("reproduced") else " no-failing-input-found"))
        print(f"  failed obligation: nasim.scenarios.generator.ScenarioGenerator.generate:post:{v} (run-time contract)")
        code = 1
    extra = {}
    if prop == "C14":
        d, n = gm.run_shim(tree, tier)
        extra["set_order_shim"] = {"cases": n, "differences": len(d)}
        sys_path = tree
        import sys as _s
        if sys_path not in _s.path:
            _s.path.insert(0, sys_path)
        from nasim.scenarios.benchmark.generated import AVAIL_GEN_BENCHMARKS as B
        cases = []
        names = ["tiny-gen", "small-gen", "medium-gen", "pocp-2-gen"] if tier == "quick" else list(B)
        for n_ in names:
            p = {k: v for k, v in B[n_].items() if k not in ("name", "seed", "max_score")}
            for s in ((0,) if tier == "quick" else (0, 1, 2)):
                cases.append([p, s])
        g = gm.grid(tier)
        for p in g[::(9 if tier == "quick" else 3)]:
            cases.append([p, 0])
        for p in [p for p in g if gm.is_dense(p)][:(4 if tier == "quick" else 12)]:
            cases.append([p, 0])
            cases.append([p, 1])
        # larger name tables: a set that is left with a handful of free names has many possible iteration orders
        for p in (dict(num_hosts=5, num_services=5, num_os=3, num_processes=2, num_exploits=19),
                  dict(num_hosts=6, num_services=4, num_os=2, num_processes=3, num_exploits=11, num_privescs=3)):
            for s in ((0, 1, 2) if tier == "quick" else range(6)):
                cases.append([p, s])
        hs = [0, 1, 2, 3, 4, 5] if tier == "quick" else list(range(12))
        hd, herr = gm.run_hashseeds(tree, cases, hs)
        extra["hashseed_sweep"] = {"cases": len(cases), "hashseeds": hs, "differences": len(hd), "errors": herr}
        k = 0
        for x in (d[:2] + hd[:2]):
            k += 1
            case = x.get("case") or [x["params"], x["seed"]]
            path = os.path.join(rdir, f"C14-hashseed-{k}.json")
            rep = {"harness": "gen-hashseed", "property": "C14", "case": case, "hashseeds": [0, 1, 2, 3],
                   "obligation": "ScenarioGenerator.generate:post:C14.same-seed-same-scenario-in-every-process"}
            j = driver.run_replay(rep, tree, path)
            print(f"VIOLATION property=C14 replay={path}" + ("" if j.get("reproduced") else " no-failing-input-found"))
            print("  failed obligation: nasim.scenarios.generator.ScenarioGenerator.generate:post:"
                  "C14.same-seed-same-scenario-in-every-process (run-time contract / order_determined(np.random.choice argument))")
            code = 1
        if herr:
            print(f"CHECKER-FAILURE property=C14: hash-seed sub-process failed: {herr}")
            code = code or 3
    if prop == "C16":
        # the nine shipped benchmark scenarios: solve with contracts' semantics on the real env, replay via step()
        import glob
        import sys as _s
        if tree not in _s.path:
            _s.path.insert(0, tree)
        from nasim.scenarios import load_scenario
        shipped = {}
        for f in sorted(glob.glob(os.path.join(tree, "nasim", "scenarios", "benchmark", "*.yaml"))):
            n = os.path.basename(f)[:-5]
            try:
                plan = gm.solve(load_scenario(f), tree)
            except Exception as e:
                plan = None
                shipped[n] = f"error {type(e).__name__}: {e}"
            if plan is None:
                nviol += 1
                path = os.path.join(rdir, f"C16-shipped-{n}.json")
                json.dump({"harness": "none", "property": "C16", "obligation": f"shipped benchmark {n} is solvable",
                           "verifier_output": shipped.get(n, "greedy closure with all stochastic actions succeeding never reaches the goal")},
                          open(path, "w"), indent=1)
                print(f"VIOLATION property=C16 replay={path} no-failing-input-found")
                print(f"  failed obligation: shipped benchmark {n}: Solvable(scenario) (plan replayed through NASimEnv.step)")
                code = 1
            else:
                shipped[n] = {"plan_len": len(plan), "replayed_terminated": True}
        extra["shipped_benchmarks"] = shipped
        # static sufficient conditions G2-G4 over many seeds of the generated benchmark parameter sets; a scenario that
        # violates one is then solved for real (a G-violation that is still solvable is not a C16 violation)
        sbad, sn = gm.run_static(tree, tier)
        extra["static_G2_G4"] = {"scenarios": sn, "with_G_violation": len(sbad)}
        from nasim.scenarios.generator import ScenarioGenerator
        shown = 0
        for r_ in sbad[:40]:
            try:
                sc_ = ScenarioGenerator().generate(seed=r_["seed"], **r_["params"])
                plan_ = gm.solve(sc_, tree)
            except Exception:
                plan_ = None
            if plan_ is None and shown < 2:
                shown += 1
                nviol += 1
                path = os.path.join(rdir, f"C16-static-{shown}.json")
                rep = {"harness": "gen", "property": "C16", "clause": "C16.unsolvable", "params": r_["params"], "seed": r_["seed"],
                       "obligation": "ScenarioGenerator.generate:post:" + ",".join(r_["violations"])}
                j = driver.run_replay(rep, tree, path)
                print(f"VIOLATION property=C16 replay={path}" + ("" if j.get("reproduced") else " no-failing-input-found"))
                print(f"  failed obligation: nasim.scenarios.generator.ScenarioGenerator.generate:post:{r_['violations']} and unsolvable (run-time contract)")
                code = 1
    if prop == "C15":
        for f in known:
            w = f.get("witness_name")
            st = gm.run_witness(tree, w, 10 if tier == "quick" else 30)
            extra.setdefault("known_witnesses", {})[w] = st
            if st != "ok":
                print(f"KNOWN-FINDING: property=C15 {f['what']}")
    wall = time.time() - t0
    nontriv = len({json.dumps(r["params"], sort_keys=True) for r in res})
    cov = {"evaluations": len(res), "distinct_nontrivial": nontriv,
           "rule": f"parameter grid of {ngrid} documented-valid parameter sets (minus the recorded known-finding classes) x "
                   f"seeds {seeds}; every returned scenario is checked against the postcondition written from the property "
                   "statement; distinct = distinct parameter sets",
           "samples": [{"params": r["params"], "seed": r["seed"], "violations": r["violations"], "solvable": r["solvable"],
                        "plan_len": r.get("plan_len")} for r in res[:3]],
           "explanation": "BOUNDED stand-in: contracts evaluated as run-time monitors on the real ScenarioGenerator.generate "
                          "(the stochastic generator functions are outside the deductive engine's reach: object-valued "
                          "np.random.choice over sets/dicts, retry loops, f-string keyed dicts). Nothing is counted as proved.",
           "checker_cmd": f"checks/check.py {prop} --tier {tier}", "trusted_base": driver.TRUSTED_BASE,
           "obligations": 0, "discharged": 0}
    cov.update(extra)
    if ev is not None:
        for k, v in cov.items():
            if k in ("explanation",):
                ev["coverage"][k] = ev["coverage"][k] + " " + v
            elif k in ("obligations", "discharged", "checker_cmd", "trusted_base"):
                continue
            else:
                ev["coverage"][k] = v
        ev["wall_s"] = round(wall, 2)
        ev["violations"] = ev.get("violations", 0) + nviol
    else:
        ev = {"property_id": prop, "tier": tier, "seed": int(os.environ.get("VERIF_SEED", "0") or 0), "level": "other",
              "coverage": cov, "assumptions": driver.TRUSTED_BASE + [
                  "A-RNG0: np.random.random_sample never returns exactly 0.0 for generated probabilities",
                  "NumPy's seeded global stream is a function of the seed (not verified)"],
              "wall_s": round(wall, 2), "violations": nviol}
    driver.write_evidence(prop, ev)
    print(f"{prop}: generator runs={len(res)} parameter-sets={ngrid} violations={nviol} wall={wall:.1f}s exit={code}")
    return code


def run_c09(tier, tree, record):
    import json, os
    from checks import c09_monitor
    code, ev = driver.check_property("C09", tier=tier, tree=tree, record=record, level="proof", design_ref="5/C09")
    bad, err = c09_monitor.run(tree)
    if err is not None:
        bad = [f"the monitored calls raised: {err[-200:]}"]
    if bad:
        path = os.path.join(driver.VERIF, "replays", "C09-roundtrip-monitor.json")
        os.makedirs(os.path.dirname(path), exist_ok=True)
        json.dump({"harness": "none", "property": "C09", "obligation": "run-time contracts: array round trips / readable decoders / aux row",
                   "verifier_output": bad}, open(path, "w"), indent=1)
        print(f"VIOLATION property=C09 replay={path} no-failing-input-found")
        for b in bad[:4]:
            print(f"  failed obligation: (run-time contract) {b}")
        code = 1
    if ev is not None:
        ev["coverage"]["run_time_contracts"] = {"what": "array round trips (from_numpy / numpy / numpy_flat), readable decoders, "
                                                        "aux row, on tiny / small-honeypot / medium / generated with custom bounds",
                                                "failures": bad}
        driver.write_evidence("C09", ev)
    return code
