"""per-property entry points"""
from checks import driver

PROOF_PROPS = {
    "C01": "5/C01", "C02": "5/C02", "C03": "5/C03", "C04": "5/C04", "C05": "5/C05", "C06": "5/C06", "C07": "5/C07",
    "C13": "5/C13", "C09": "5/C09", "C19": "5/C19", "C08": "5/C08",
}


def run(prop, tier, tree, record):
    if prop in PROOF_PROPS:
        code, ev = driver.check_property(prop, tier=tier, tree=tree, record=record, level="proof",
                                         design_ref=PROOF_PROPS[prop])
        if ev is not None:
            driver.write_evidence(prop, ev)
        return code
    print(f"CHECKER-FAILURE: property {prop} has no check")
    return 3
