"""Generator cluster (C14 / C15 / C16): contracts evaluated as RUN-TIME MONITORS on the real generator.

The stochastic generator functions (object-valued np.random.choice over python sets/dicts, retry loops, f-string
keyed dicts) are outside the deductive engine's reach.  As the stated bounded stand-in, the real
ScenarioGenerator.generate is run over a parameter grid x seeds (and, for C14, x PYTHONHASHSEED values in
sub-processes) and the postconditions below - written from the property statements - are evaluated on every
returned scenario.  This is exploration with contracts as oracles; nothing here is counted as proved.
"""
import itertools
import json
import math
import os
import subprocess
import sys
import time


def _import(tree):
    if tree not in sys.path:
        sys.path.insert(0, tree)
    import nasim  # noqa
    from nasim.scenarios.generator import ScenarioGenerator
    return ScenarioGenerator


# ------------------------------------------------------------------ C15: well-formedness postcondition

def wf_violations(sc, p):
    """list of violated clause labels of C15 for scenario sc generated with parameters p"""
    v = []
    d = sc.scenario_dict
    num_exploits = p.get("num_exploits") or p["num_services"]
    num_privescs = p.get("num_privescs") or p.get("num_processes", 2)
    num_os, num_proc = p.get("num_os", 2), p.get("num_processes", 2)
    hosts, subnets, topo = sc.hosts, sc.subnets, sc.topology
    nS = len(subnets)
    if len(hosts) != p["num_hosts"] or sum(subnets) != p["num_hosts"] + 1: v.append("C15.num-hosts")
    if set(hosts) != {(s, h) for s in range(1, nS) for h in range(subnets[s])}: v.append("C15.addresses")
    if len(sc.os) != num_os or len(set(sc.os)) != num_os: v.append("C15.num-os")
    if len(sc.services) != p["num_services"] or len(set(sc.services)) != p["num_services"]: v.append("C15.num-services")
    if len(sc.processes) != num_proc or len(set(sc.processes)) != num_proc: v.append("C15.num-processes")
    if len(sc.exploits) != num_exploits: v.append("C15.num-exploits")
    if len(sc.privescs) != num_privescs: v.append("C15.num-privescs")
    # topology: square, symmetric, self-connected, only the DMZ (1) public
    if len(topo) != nS or any(len(r) != nS for r in topo): v.append("C15.topology-shape")
    else:
        if any(topo[a][b] != topo[b][a] for a in range(nS) for b in range(nS)): v.append("C15.topology-symmetric")
        if any(topo[a][a] != 1 for a in range(nS)): v.append("C15.topology-self-connected")
        if any((topo[s][0] == 1) != (s == 1) for s in range(1, nS)): v.append("C15.only-dmz-public")
        if any(x not in (0, 1) for r in topo for x in r): v.append("C15.topology-entries")
    for ad, h in hosts.items():
        if sum(bool(x) for x in h.os.values()) != 1 or list(h.os) != list(sc.os): v.append("C15.host-one-os")
        if sum(bool(x) for x in h.services.values()) < 1 or list(h.services) != list(sc.services): v.append("C15.host-services")
        if sum(bool(x) for x in h.processes.values()) < 1 or list(h.processes) != list(sc.processes): v.append("C15.host-processes")
        if h.firewall: v.append("C15.host-firewall-empty")

    def probs_ok(spec, got, mixed_ok):
        if spec is None:
            return all(0 < x <= 1 for x in got)
        if spec == "mixed":
            return mixed_ok and all(x in (0.3, 0.6, 0.9) for x in got)
        if isinstance(spec, list):
            return list(got) == list(spec)
        return all(x == spec for x in got)
    eprobs = [e["prob"] for e in sc.exploits.values()]
    if not probs_ok(p.get("exploit_probs", 1.0), eprobs, True): v.append("C15.exploit-probs")
    if any(not (0 < x <= 1) for x in eprobs): v.append("C15.exploit-probs-range")
    for e in sc.exploits.values():
        if e["service"] not in sc.services or (e["os"] is not None and e["os"] not in sc.os): v.append("C15.exploit-refs")
        if e["cost"] != p.get("exploit_cost", 1): v.append("C15.exploit-cost")
        if e["access"] not in (1, 2): v.append("C15.exploit-access")
    pprobs = [e["prob"] for e in sc.privescs.values()]
    if not probs_ok(p.get("privesc_probs", 1.0), pprobs, False): v.append("C15.privesc-probs")
    for e in sc.privescs.values():
        if e["process"] not in sc.processes or (e["os"] is not None and e["os"] not in sc.os): v.append("C15.privesc-refs")
        if e["cost"] != p.get("privesc_cost", 1): v.append("C15.privesc-cost")
        if e["access"] != 2: v.append("C15.privesc-access")
    # sensitive hosts: (2,0) and exactly one user host with the requested values
    sh = sc.sensitive_hosts
    rs, ru = p.get("r_sensitive", 10), p.get("r_user", 10)
    users = [a for a in sh if a[0] >= 3]
    if len(sh) != 2 or (2, 0) not in sh or len(users) != 1 or any(a not in hosts for a in sh): v.append("C15.sensitive-hosts")
    else:
        if sh[(2, 0)] != rs or sh[users[0]] != ru: v.append("C15.sensitive-values")
        if not p.get("random_goal", False) and users[0] != (nS - 1, subnets[-1] - 1): v.append("C15.sensitive-user-host")
    for ad, h in hosts.items():
        want = float(sh[ad]) if ad in sh else float(p.get("base_host_value", 1))
        if h.value != want: v.append("C15.host-values")
        if h.discovery_value != p.get("host_discovery_value", 1): v.append("C15.host-discovery-values")
    # firewall
    fw = sc.firewall
    if len(topo) == nS:
        want_keys = {(a, b) for a in range(nS) for b in range(nS) if a != b and topo[a][b] == 1}
        if set(fw) != want_keys: v.append("C15.firewall-keys")
        r = p.get("restrictiveness", 5)
        for (a, b), allowed in fw.items():
            if any(s not in sc.services for s in allowed): v.append("C15.firewall-defined-services")
            if a > 2 and b > 2:
                if set(allowed) != set(sc.services): v.append("C15.firewall-user-user-open")
            elif b != 0:
                if not (1 <= len(allowed) <= max(r, 1)): v.append("C15.firewall-restrictiveness")
    b = p.get("address_space_bounds")
    if b is not None and tuple(sc.address_space_bounds) != tuple(b): v.append("C15.address-bounds")
    if b is None and tuple(sc.address_space_bounds) != (nS, max(subnets)): v.append("C15.address-bounds")
    if sc.step_limit != p.get("step_limit"): v.append("C15.step-limit")
    for k in ("service_scan_cost", "os_scan_cost", "subnet_scan_cost", "process_scan_cost"):
        if d[k] != p.get(k, 1): v.append("C15.scan-costs")
    return sorted(set(v))


# ------------------------------------------------------------------ C16: solvability (replayed on the real environment)

def solve(sc, tree):
    """greedy closure on the REAL environment with every stochastic action succeeding (np.random.rand -> 0.0).
    Progress is monotone (C04), so trying every action until nothing changes is complete.  Returns the plan
    (list of flat action indices) if the goal is reached, else None."""
    import numpy as np
    from nasim.envs import NASimEnv
    orig = np.random.rand
    np.random.rand = lambda *a: 0.0
    try:
        env = NASimEnv(sc, fully_obs=True, flat_actions=True, flat_obs=True)
        env.reset()
        plan = []
        n = env.action_space.n
        changed = True
        while changed:
            changed = False
            for i in range(n):
                a = env.action_space.get_action(i)
                before = env.current_state.tensor.copy()
                ns, res = env.network.perform_action(env.current_state, a)
                if res.success and not np.array_equal(ns.tensor, before):
                    env.current_state = ns
                    plan.append(i)
                    changed = True
                    if env.goal_reached():
                        break
            if env.goal_reached():
                break
        if not env.goal_reached():
            return None
        # replay through step()
        env.reset()
        done = False
        for i in plan:
            _, _, done, _, _ = env.step(i)
        return plan if done else None
    finally:
        np.random.rand = orig


# ------------------------------------------------------------------ C14: fingerprints

def fingerprint(sc):
    hosts = {str(a): [list(h.os.items()), list(h.services.items()), list(h.processes.items()), h.value,
                      h.discovery_value] for a, h in sc.hosts.items()}
    fw = {str(k): sorted(v) for k, v in sc.firewall.items()}
    fwo = {str(k): list(v) for k, v in sc.firewall.items()}
    return json.dumps({"subnets": list(sc.subnets), "topology": [[int(x) for x in r] for r in sc.topology],
                       "hosts": hosts, "firewall_sets": fw, "firewall_key_order": list(fwo),
                       "exploits": {k: dict(v) for k, v in sc.exploits.items()},
                       "privescs": {k: dict(v) for k, v in sc.privescs.items()},
                       "sensitive": {str(k): v for k, v in sc.sensitive_hosts.items()}}, sort_keys=True, default=str)


# ------------------------------------------------------------------ parameter grid (documented domain minus known-finding classes)

def in_known_hang_class(p):
    """K of the recorded C15 findings: parameter sets for which a retry loop can fail to terminate"""
    ns, no, npc = p["num_services"], p.get("num_os", 2), p.get("num_processes", 2)
    ne = p.get("num_exploits") or ns
    npe = p.get("num_privescs") or npc
    if ne > ns * (no + 1):
        return "exploit-names-exhausted"
    if npe > npc:
        return "privesc-names-can-exhaust"
    if not p.get("uniform", False) and p.get("alpha_V", 2.0) == 1.0:
        return "alpha_V-equals-1"
    return None


def grid(tier):
    out = []
    hosts = [3, 5, 8, 13] if tier == "quick" else [3, 4, 5, 7, 8, 9, 13, 18, 41, 45]
    base = []
    for nh in hosts:
        # (1, 2, 1): one service / one process but several OSs - the corner where a host's vulnerability hinges on its OS
        for (ns, no, npc) in ([(1, 1, 1), (2, 2, 2), (3, 2, 2), (1, 2, 1)] if tier == "quick" else
                              [(1, 1, 1), (2, 1, 2), (2, 2, 2), (3, 2, 2), (3, 3, 3), (5, 3, 2), (1, 2, 1), (1, 3, 1), (2, 3, 1)]):
            base.append(dict(num_hosts=nh, num_services=ns, num_os=no, num_processes=npc))
    variants = [dict(), dict(uniform=True), dict(restrictiveness=1), dict(restrictiveness=2, random_goal=True),
                dict(exploit_probs="mixed", r_sensitive=7, r_user=3), dict(exploit_probs=None, privesc_probs=None),
                dict(exploit_probs=0.5, privesc_probs=0.25, exploit_cost=2.5, privesc_cost=3, base_host_value=0,
                     host_discovery_value=2, step_limit=50),
                dict(alpha_H=0.5, alpha_V=2.5, lambda_V=2.0), dict(num_exploits=1, num_privescs=1),
                # almost every (service, os) exploit name is used: the name-collision retry loop runs long
                dict(num_exploits="dense")]
    if tier != "quick":
        variants += [dict(address_space_bounds=(30, 9)), dict(restrictiveness=3, uniform=True, random_goal=True),
                     dict(service_scan_cost=0, os_scan_cost=2, subnet_scan_cost=3, process_scan_cost=4)]
    for b in base:
        for v in variants:
            p = dict(b, **v)
            if p.get("num_exploits") == "dense":
                p["num_exploits"] = max(1, p["num_services"] * (p["num_os"] + 1) - 1)
            if "address_space_bounds" in p and (p["num_hosts"] > 40):
                continue
            if in_known_hang_class(p) is None:
                out.append(p)
    return out


def is_dense(p):
    return p.get("num_exploits") == max(1, p["num_services"] * (p.get("num_os", 2) + 1) - 1) and p.get("num_exploits", 0) >= 5


def _worker(args):
    tree, p, seeds = args
    import numpy as np
    G = _import(tree)
    out = []
    for seed in seeds:
        rec = {"params": p, "seed": seed, "violations": [], "solvable": None}
        try:
            sc = G().generate(seed=seed, **p)
        except Exception as e:
            rec["violations"].append(f"C15.generate-raised:{type(e).__name__}:{str(e)[:80]}")
            out.append(rec)
            continue
        rec["violations"] += wf_violations(sc, p)
        fp = fingerprint(sc)
        sc2 = G().generate(seed=seed, **p)
        if fingerprint(sc2) != fp:
            rec["violations"].append("C14.same-seed-same-process")
        rec["fp"] = fp
        try:
            plan = solve(sc, tree)
            rec["solvable"] = plan is not None
            rec["plan_len"] = len(plan) if plan else None
            if plan is None:
                rec["violations"].append("C16.unsolvable")
        except Exception as e:
            rec["violations"].append(f"C16.solver-raised:{type(e).__name__}:{str(e)[:80]}")
        out.append(rec)
    return out


def _run_pool(fn, args, jobs, hard):
    """per-task processes with a hard limit (a generator that never terminates must not hang the check)"""
    from checks import driver
    out = driver.run_tasks(fn, args, jobs, hard)
    return out


def _unit_worker(args):
    """run-time contracts on the two name-collision retry loops in isolation (cheap, so many seeds): exactly the
    requested number of distinct, well-formed definitions, the i-th definition carrying the i-th requested probability"""
    tree, cfg, seeds = args
    import numpy as np
    G = _import(tree)
    ns, no, npc, ne, npe = cfg
    out = []
    for seed in seeds:
        rec = {"params": {"unit": "retry-loops", "num_services": ns, "num_os": no, "num_processes": npc,
                          "num_exploits": ne, "num_privescs": npe}, "seed": seed, "violations": [], "solvable": None}
        try:
            g = G()
            g._generate_os(no); g._generate_services(ns); g._generate_processes(npc)
            np.random.seed(seed)
            eprobs = [round(0.05 + 0.9 * (i + 1) / (ne + 1), 4) for i in range(ne)]
            pprobs = [round(0.05 + 0.9 * (i + 1) / (npe + 1), 4) for i in range(npe)]
            g._generate_exploits(ne, 2.5, list(eprobs))
            g._generate_privescs(npe, 3.5, list(pprobs))
            for lab, tab, n, key, pool, probs, cost in (("exploits", g.exploits, ne, "service", g.services, eprobs, 2.5),
                                                        ("privescs", g.privescs, npe, "process", g.processes, pprobs, 3.5)):
                if len(tab) != n: rec["violations"].append(f"C15.num-{lab}")
                pairs = [(d[key], d["os"]) for d in tab.values()]
                if len(set(pairs)) != len(pairs): rec["violations"].append(f"C15.{lab}-distinct-pairs")
                if any(d[key] not in pool or (d["os"] is not None and d["os"] not in g.os) for d in tab.values()):
                    rec["violations"].append(f"C15.{lab[:-1]}-refs")
                if sorted(float(d["prob"]) for d in tab.values()) != sorted(probs): rec["violations"].append(f"C15.{lab[:-1]}-probs")
                if any(d["cost"] != cost for d in tab.values()): rec["violations"].append(f"C15.{lab[:-1]}-cost")
            if not (any(d["os"] is None for d in g.privescs.values()) or
                    all(any(d["os"] == o for d in g.privescs.values()) for o in g.os)):
                rec["violations"].append("C16.G3-escalation-for-every-os")
        except Exception as e:      # noqa
            rec["violations"].append(f"C15.generate-raised:{type(e).__name__}:{str(e)[:80]}")
        if rec["violations"]:
            out.append(rec)
    out.append({"params": {"unit": "retry-loops", "cfg": list(cfg)}, "seed": None, "violations": [], "solvable": None,
                "unit_runs": len(seeds)})
    return out


UNIT_CFGS = [(2, 2, 2, 2, 2), (2, 1, 2, 3, 2), (3, 2, 3, 4, 3), (1, 2, 3, 2, 2), (3, 3, 3, 3, 3), (2, 2, 4, 5, 3)]


def run_grid(tree, tier, jobs=16):
    g = grid(tier)
    seeds = [0, 1, 2] if tier == "quick" else list(range(8))
    args = [(tree, p, seeds) for p in g]
    res = _run_pool(_worker, args, jobs, 120 if tier == "quick" else 600)
    useeds = list(range(150 if tier == "quick" else 1000))
    uargs = [(tree, cfg, useeds) for cfg in UNIT_CFGS if in_known_hang_class(
        dict(num_services=cfg[0], num_os=cfg[1], num_processes=cfg[2], num_exploits=cfg[3], num_privescs=cfg[4])) is None]
    ures = _run_pool(_unit_worker, uargs, jobs, 120 if tier == "quick" else 600)
    flat = []
    for a, rs in zip(uargs, ures):
        if isinstance(rs, dict) and rs.get("error"):
            flat.append({"params": {"unit": "retry-loops", "cfg": list(a[1])}, "seed": 0, "solvable": None,
                         "violations": [f"C15.generate-did-not-terminate-or-crashed:{rs['error'][:80]}"]})
        else:
            flat.extend(r for r in rs if r["violations"])
    for a, rs in zip(args, res):
        if isinstance(rs, dict) and rs.get("error"):
            flat.append({"params": a[1], "seed": a[2][0], "solvable": None,
                         "violations": [f"C15.generate-did-not-terminate-or-crashed:{rs['error'][:80]}"]})
        else:
            flat.extend(rs)
    return flat, len(g), seeds


HASH_CHILD = r'''
import sys, json
sys.path.insert(0, sys.argv[1])
sys.path.insert(0, sys.argv[2])
from checks import gen_monitor as gm
G = gm._import(sys.argv[1])
out = {}
for p, seed in json.loads(sys.argv[3]):
    out[json.dumps([p, seed], sort_keys=True)] = gm.fingerprint(G().generate(seed=seed, **p))
print(json.dumps(out))
'''


def run_hashseeds(tree, cases, hashseeds):
    """generate the same (params, seed) cases under several PYTHONHASHSEED values in sub-processes"""
    verif = os.path.dirname(os.path.dirname(os.path.abspath(__file__)))
    fps = {}
    for hs in hashseeds:
        env = dict(os.environ, PYTHONHASHSEED=str(hs), PYTHONPATH=tree)
        p = subprocess.run([sys.executable, "-c", HASH_CHILD, tree, verif, json.dumps(cases)], env=env,
                           stdout=subprocess.PIPE, stderr=subprocess.PIPE, text=True, timeout=1800)
        try:
            line = [l for l in p.stdout.splitlines() if l.startswith("{")][-1]
            fps[hs] = json.loads(line)
        except Exception:
            fps[hs] = {"error": (p.stdout + p.stderr)[-400:]}
    diffs = []
    keys = set()
    for v in fps.values():
        keys |= set(v) - {"error"}
    for k in sorted(keys):
        vals = {hs: fps[hs].get(k) for hs in hashseeds}
        if len(set(vals.values())) > 1:
            diffs.append({"case": json.loads(k), "distinct_fingerprints": len(set(vals.values()))})
    errors = {hs: v["error"] for hs, v in fps.items() if "error" in v}
    return diffs, errors


# ------------------------------------------------------------------ in-process set-order shim (C14)

def make_ordered_set(order):
    class OrderedIterSet(set):
        """a set whose iteration order is fixed by `order` (ascending / descending by repr): stands for two
        different hash randomisations"""
        def __iter__(self):
            return iter(sorted(set.__iter__(self), key=repr, reverse=(order == "desc")))

        def copy(self):
            return OrderedIterSet(set.__iter__(self))
    return OrderedIterSet


def generate_with_set_order(tree, p, seed, order):
    G = _import(tree)
    import nasim.scenarios.generator as gen
    old = gen.__dict__.get("set", None)
    gen.__dict__["set"] = make_ordered_set(order)
    try:
        return G().generate(seed=seed, **p)
    finally:
        if old is None:
            gen.__dict__.pop("set", None)
        else:
            gen.__dict__["set"] = old


def _shim_worker(args):
    tree, p, seeds = args
    out = []
    for s in seeds:
        try:
            a = fingerprint(generate_with_set_order(tree, p, s, "asc"))
            b = fingerprint(generate_with_set_order(tree, p, s, "desc"))
            if a != b:
                out.append({"params": p, "seed": s})
        except Exception as e:
            out.append({"params": p, "seed": s, "error": f"{type(e).__name__}: {e}"})
    return out


def run_shim(tree, tier, jobs=16):
    g = grid(tier)
    seeds = [0, 1, 2] if tier == "quick" else list(range(8))
    res = _run_pool(_shim_worker, [(tree, p, seeds) for p in g], jobs, 120 if tier == "quick" else 600)
    return [r for rs in res if isinstance(rs, list) for r in rs], len(g) * len(seeds)


# ------------------------------------------------------------------ witnesses of the recorded C15 findings

WITNESSES = {
    "alpha_V-equals-1": dict(num_hosts=5, num_services=2, alpha_V=1.0, seed=0),
    "exploit-names-exhausted": dict(num_hosts=5, num_services=1, num_os=1, num_exploits=3, seed=0),
    "privesc-names-can-exhaust": dict(num_hosts=5, num_services=1, num_os=1, num_processes=1, num_privescs=2, seed=1),
}


def run_witness(tree, name, timeout=15):
    """returns 'raises:<Kind>', 'hangs', or 'ok'"""
    p = WITNESSES[name]
    code = ("import sys; sys.path.insert(0, %r)\nfrom nasim.scenarios.generator import ScenarioGenerator\n"
            "ScenarioGenerator().generate(**%r)\nprint('GEN-OK')\n" % (tree, p))
    try:
        r = subprocess.run([sys.executable, "-c", code], stdout=subprocess.PIPE, stderr=subprocess.PIPE, text=True,
                           timeout=timeout, env=dict(os.environ, PYTHONPATH=tree))
    except subprocess.TimeoutExpired:
        return "hangs"
    if "GEN-OK" in r.stdout:
        return "ok"
    last = (r.stderr.strip().splitlines() or ["?"])[-1]
    return "raises:" + last.split(":")[0]


# ------------------------------------------------------------------ C16: static sufficient conditions G2-G4 (cheap: many seeds)

def g_violations(sc):
    """G2 every subnet has a host vulnerable to some exploit; G3 every sensitive host is root-vulnerable (root exploit,
    or exploit + escalation applicable to its OS); G4 every firewall rule into a non-user subnet admits a service
    for which some host of the destination is exploit-vulnerable (user<->user rules admit everything)"""
    v = []

    def e_ok(h, e):
        return bool(h.services[e["service"]]) and (e["os"] is None or bool(h.os[e["os"]]))

    def pe_ok(h, pe):
        return bool(h.processes[pe["process"]]) and (pe["os"] is None or bool(h.os[pe["os"]]))
    nS = len(sc.subnets)
    for s in range(1, nS):
        hs = [h for a, h in sc.hosts.items() if a[0] == s]
        if not any(e_ok(h, e) for h in hs for e in sc.exploits.values()):
            v.append("C16.G2-subnet-has-vulnerable-host")
    for a in sc.sensitive_hosts:
        h = sc.hosts[a]
        ok = any(e_ok(h, e) and (e["access"] == 2 or any(pe_ok(h, pe) for pe in sc.privescs.values()))
                 for e in sc.exploits.values())
        if not ok:
            v.append("C16.G3-sensitive-host-root-vulnerable")
    for (a, b), allowed in sc.firewall.items():
        if b == 0:
            continue
        hs = [h for ad, h in sc.hosts.items() if ad[0] == b]
        if not any(e["service"] in allowed and e_ok(h, e) for h in hs for e in sc.exploits.values()):
            v.append("C16.G4-firewall-admits-an-exploitable-service")
    return sorted(set(v))


def _static_worker(args):
    tree, p, seeds = args
    G = _import(tree)
    out = []
    for s in seeds:
        try:
            sc = G().generate(seed=s, **p)
            gv = g_violations(sc)
            if gv:
                out.append({"params": p, "seed": s, "violations": gv})
        except Exception as e:
            out.append({"params": p, "seed": s, "violations": [f"C15.generate-raised:{type(e).__name__}"]})
    return out


def run_static(tree, tier, jobs=16):
    """benchmark parameter sets x many seeds, static conditions only"""
    if tree not in sys.path:
        sys.path.insert(0, tree)
    from nasim.scenarios.benchmark.generated import AVAIL_GEN_BENCHMARKS as B
    names = ["tiny-gen", "small-gen", "medium-gen", "large-gen"] if tier == "quick" else [n for n in B if "pocp" not in n]
    nseeds = 120 if tier == "quick" else 400
    args = []
    for n in names:
        p = {k: v for k, v in B[n].items() if k not in ("name", "seed", "max_score")}
        for lo in range(0, nseeds, 20):
            args.append((tree, p, list(range(lo, lo + 20))))
    res = _run_pool(_static_worker, args, jobs, 300 if tier == "quick" else 1800)
    bad = [r for rs in res if isinstance(rs, list) for r in rs]
    return bad, len(args) * 20
