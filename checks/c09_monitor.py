"""C09 run-time contracts (bounded stand-in for the clauses about array round trips and readable decoders):
evaluated on the real code for shipped + generated scenarios (custom address bounds included)."""
import os, subprocess, sys, json

CHILD = r'''
import sys, json
sys.path.insert(0, sys.argv[1])
import numpy as np, nasim
from nasim.envs.state import State
from nasim.envs.observation import Observation
from nasim.envs.host_vector import HostVector
bad = []
def check(name, env):
    sc = env.scenario
    for flat in (True, False):
        pass
    o, _ = env.reset()
    obs2d = env.last_obs.numpy().copy()
    shape = env.current_state.shape()
    # 1-D observation is the row-major flattening of the 2-D one
    if not np.array_equal(env.last_obs.numpy_flat(), obs2d.flatten()): bad.append(f"{name}: numpy_flat != flatten(numpy)")
    # a few steps, same relation after the tensor was written
    np.random.seed(0)
    for i in range(min(12, env.action_space.n)):
        env.step(i)
        if not np.array_equal(env.last_obs.numpy_flat(), env.last_obs.numpy().flatten()):
            bad.append(f"{name}: numpy_flat != flatten(numpy) after step"); break
    cur2d = env.last_obs.numpy().copy()
    for src in (cur2d, cur2d.flatten()):
        ob = Observation.from_numpy(src.copy(), shape)
        if not np.array_equal(ob.numpy(), cur2d): bad.append(f"{name}: Observation.from_numpy(...).numpy() lost content ({src.ndim}-D input)")
        if not np.array_equal(ob.numpy_flat(), cur2d.flatten()): bad.append(f"{name}: Observation.from_numpy(...).numpy_flat() lost content ({src.ndim}-D input)")
        hs, aux = ob.get_readable()
        hs0, aux0 = env.last_obs.get_readable()
        if json.dumps([hs, aux], default=str) != json.dumps([hs0, aux0], default=str): bad.append(f"{name}: readable decoding differs after from_numpy")
    st2d = env.current_state.numpy().copy()
    for src in (st2d, st2d.flatten()):
        st = State.from_numpy(src.copy(), shape, env.current_state.host_num_map)
        if not np.array_equal(st.numpy(), st2d) or not np.array_equal(st.numpy_flat(), st2d.flatten()):
            bad.append(f"{name}: State.from_numpy round trip lost content ({src.ndim}-D input)")
    # decoding the INITIAL state reproduces every host definition of the scenario
    env.reset()
    init = env.current_state
    for addr, host in sc.hosts.items():
        r = init.get_host(addr).readable()
        want = {"Address": addr, "Value": float(host.value), "Discovery Value": float(host.discovery_value)}
        for k, v in want.items():
            got = r[k]
            if k == "Address":
                got = (int(got[0]), int(got[1]))
            if got != v and not (isinstance(v, float) and abs(float(got) - v) < 1e-5):
                bad.append(f"{name}: decoded {k} of {addr} is {got}, scenario says {v}")
        for n, b in list(host.os.items()) + list(host.services.items()) + list(host.processes.items()):
            if bool(r[n]) != bool(b): bad.append(f"{name}: decoded flag {n} of {addr} is {r[n]}, scenario says {b}")
    # documented layout of the aux row
    env.reset()
    o, r, d, t, info = env.step(0)
    aux = env.last_obs.numpy()[-1]
    want = [float(info["success"]), float(info["connection_error"]), float(info["permission_error"]), float(info["undefined_error"])]
    if [float(x) for x in aux[:4]] != want or any(float(x) != 0 for x in aux[4:]): bad.append(f"{name}: aux row {list(aux[:6])} != {want}")

for n in ("tiny", "small-honeypot", "medium"):
    for fo in (True, False):
        check(f"{n}/fully_obs={fo}", nasim.make_benchmark(n, seed=0, fully_obs=fo, flat_actions=True, flat_obs=False))
HostVector.reset()
env = nasim.generate(8, 3, num_os=2, num_processes=2, seed=3, address_space_bounds=(9, 7), base_host_value=2.5, host_discovery_value=3)
check("generated/custom-bounds", env)
print("C09MON " + json.dumps(bad))
'''


def run(tree):
    p = subprocess.run([sys.executable, "-c", CHILD, tree], stdout=subprocess.PIPE, stderr=subprocess.STDOUT, text=True,
                       timeout=900, env=dict(os.environ, PYTHONPATH=tree))
    for l in p.stdout.splitlines():
        if l.startswith("C09MON "):
            return json.loads(l[7:]), None
    return None, p.stdout[-600:]
