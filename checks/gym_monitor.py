"""C10 / C12 run-time contract (bounded stand-in) for the gymnasium.make() entry points: the module-level
registration table of nasim/__init__.py is not a function and so is out of the contracts' reach.  Every registered
id must describe (kwargs) and - for the small benchmarks - produce an environment in the modes its documented name
encodes: PO = partially observable, 2D = 2-D observations, VA = parameterised (vector) actions."""
import json, os, subprocess, sys

CHILD = r'''
import sys, json
sys.path.insert(0, sys.argv[1])
import gymnasium as gym
import numpy as np
import nasim
from nasim.scenarios.benchmark import AVAIL_BENCHMARKS
from nasim.envs.action import FlatActionSpace, ParameterisedActionSpace
bad, n_ids, n_made = [], 0, 0
small = {"tiny", "tiny-hard", "tiny-small", "small"}
from nasim.scenarios import make_benchmark_scenario
for b in AVAIL_BENCHMARKS:
    base = "".join(g.capitalize() for g in b.split("-"))
    limit = make_benchmark_scenario(b, 0).step_limit     # the scenario's own horizon (C06: the only source of truncation)
    for fully in (True, False):
        for d2 in (False, True):
            for va in (False, True):
                name = base + ("" if fully else "PO") + ("2D" if d2 else "") + ("VA" if va else "") + "-v0"
                want = {"fully_obs": fully, "flat_obs": not d2, "flat_actions": not va}
                n_ids += 1
                try:
                    spec = gym.spec(name)
                except Exception as e:
                    bad.append(f"{name}: not registered ({type(e).__name__})"); continue
                kw = dict(spec.kwargs)
                if kw.get("scenario") != b or any(bool(kw.get(k)) != v for k, v in want.items()):
                    bad.append(f"{name}: registered kwargs {kw} do not match the documented name"); continue
                if spec.max_episode_steps is not None and spec.max_episode_steps != limit:
                    bad.append(f"{name}: registered with max_episode_steps={spec.max_episode_steps} but the scenario's step "
                               f"limit is {limit}: gymnasium's TimeLimit wrapper would raise the step-limit flag at another step")
                    continue
                if b not in small:
                    continue
                n_made += 1
                env = gym.make(name).unwrapped
                got = {"fully_obs": env.fully_obs, "flat_obs": env.flat_obs, "flat_actions": env.flat_actions}
                if got != want:
                    bad.append(f"{name}: environment modes {got}, documented {want}"); continue
                o, _ = env.reset(seed=0)
                if (o.ndim == 1) != want["flat_obs"] or tuple(o.shape) != tuple(env.observation_space.shape):
                    bad.append(f"{name}: observation shape {o.shape} vs space {env.observation_space.shape}")
                if isinstance(env.action_space, FlatActionSpace) != want["flat_actions"] or \
                   isinstance(env.action_space, ParameterisedActionSpace) == want["flat_actions"]:
                    bad.append(f"{name}: action space {type(env.action_space).__name__}")
print("@@JSON@@" + json.dumps({"ids": n_ids, "made": n_made, "bad": bad}))
'''


def run(tree):
    env = dict(os.environ, PYTHONPATH=tree, PYTHONDONTWRITEBYTECODE="1")
    p = subprocess.run([sys.executable, "-c", CHILD, tree], env=env, stdout=subprocess.PIPE, stderr=subprocess.STDOUT,
                       text=True, timeout=1800)
    try:
        return json.loads(p.stdout[p.stdout.index("@@JSON@@") + 8:])
    except Exception:
        return {"error": p.stdout[-800:]}


if __name__ == "__main__":
    print(run(sys.argv[1] if len(sys.argv) > 1 else "/repo"))
