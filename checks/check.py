#!/venv/bin/python
"""check.py <PROPERTY> [--tier quick|thorough] [--replay FILE] [--record] [--tree DIR]

Bootstrap: re-executes itself under /verif/.venv (overlay venv: z3-solver, cvc5, ... from the offline
wheelhouse + /venv's site-packages), building it first if missing.
Exit 0 held / 1 VIOLATION / 2 undecided or out of reach / 3 checker failure.
"""
import json
import os
import subprocess
import sys

VERIF = os.path.dirname(os.path.dirname(os.path.abspath(__file__)))
VENV_PY = os.path.join(VERIF, ".venv", "bin", "python")


def bootstrap():
    if os.path.exists(VENV_PY):
        try:
            subprocess.run([VENV_PY, "-c", "import z3, numpy"], check=True, stdout=subprocess.DEVNULL,
                           stderr=subprocess.DEVNULL)
            return
        except Exception:
            pass
    subprocess.run(["/bin/sh", os.path.join(VERIF, "tools", "setup.sh")], check=True, cwd=VERIF)


def main():
    if os.path.realpath(sys.prefix) != os.path.realpath(os.path.join(VERIF, ".venv")):
        bootstrap()
        env = dict(os.environ, PYVC_BOOTSTRAPPED="1", PYTHONDONTWRITEBYTECODE="1")
        os.execve(VENV_PY, [VENV_PY, os.path.abspath(__file__)] + sys.argv[1:], env)
    sys.path.insert(0, VERIF)
    os.chdir(VERIF)
    args = sys.argv[1:]
    if not args:
        print(__doc__)
        return 3
    prop = args[0]
    tier = os.environ.get("VERIF_TIER") or "quick"
    tree = os.environ.get("PYVC_REPO", "/repo")
    record = False
    replay = None
    i = 1
    while i < len(args):
        if args[i] == "--tier":
            tier = args[i + 1]; i += 2
        elif args[i] == "--replay":
            replay = args[i + 1]; i += 2
        elif args[i] == "--record":
            record = True; i += 1
        elif args[i] == "--tree":
            tree = args[i + 1]; i += 2
        else:
            i += 1
    os.environ["PYVC_REPO"] = tree
    os.environ["VERIF_TIER_ACTIVE"] = tier
    if replay:
        from checks import driver
        rep = json.load(open(replay))
        if rep.get("harness") in (None, "none"):
            print(json.dumps(rep, indent=1)[:4000])
            print("replay file carries no failing input (no-failing-input-found): obligation and verifier output above")
            return 1
        j = driver.run_replay(rep, tree, replay)
        print(json.dumps({k: j.get(k) for k in ("tree", "nasim_file", "reproduced", "mismatches")}, indent=1))
        print("violation reproduced on the real code" if j.get("reproduced") else "NOT reproduced")
        return 1 if j.get("reproduced") else 0
    from checks import props
    return props.run(prop, tier, tree, record)


if __name__ == "__main__":
    try:
        rc = main()
    except SystemExit:
        raise
    except Exception:
        import traceback
        traceback.print_exc()
        print("CHECKER-FAILURE: exception in check.py")
        rc = 3
    sys.exit(rc)
