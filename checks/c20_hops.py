"""C20, bounded stand-in for utils.get_minimal_hops_to_goal (Floyd-Warshall + permutations: the engine forks on
every comparison, so the function is out of reach of the path-splitting executor).

Exhaustive over a stated bound: every symmetric, self-connected 0/1 topology on nS <= NMAX subnets (internet = 0)
and every non-empty set of <= 3 sensitive subnets all reachable from the internet.  The REAL function is run with
two contracts as run-time monitors:
  (i)  result == W(topology, S): the documented quantity (length of a shortest walk that visits the internet and
       every sensitive subnet, in the best order) computed independently (BFS + permutations);
  (ii) result <= SteinerHosts(topology, S): the least number of subnets (one compromised host each) in a connected
       subnet set containing a public position and every sensitive subnet  -- the clause of the property.
(ii) is known to fail where the optimal walk must revisit a subnet (known finding); every failure of (ii) with
(i) intact is that finding; any failure of (i), or of (ii) on a topology where W <= Steiner, is a VIOLATION."""
import itertools, json, os, sys, time
from collections import deque


def _import(tree):
    if tree not in sys.path:
        sys.path.insert(0, tree)
    from nasim.envs.utils import get_minimal_hops_to_goal
    return get_minimal_hops_to_goal


def bfs(topo, src):
    n = len(topo)
    d = [None] * n
    d[src] = 0
    q = deque([src])
    while q:
        a = q.popleft()
        for b in range(n):
            if topo[a][b] == 1 and d[b] is None:
                d[b] = d[a] + 1
                q.append(b)
    return d


def W(topo, S):
    nodes = [0] + sorted(S)
    dist = {a: bfs(topo, a) for a in nodes}
    best = None
    for pm in itertools.permutations(nodes):
        tot = 0
        ok = True
        for a, b in zip(pm, pm[1:]):
            if dist[a][b] is None:
                ok = False
                break
            tot += dist[a][b]
        if ok and (best is None or tot < best):
            best = tot
    return best


def W_dp(topo, S):
    """the same quantity by Held-Karp dynamic programming over subsets (exact, independent of the permutation
    search in the code and in W above): shortest open walk through the metric closure visiting every node"""
    nodes = [0] + sorted(S)
    m = len(nodes)
    dist = [bfs(topo, a) for a in nodes]
    D = [[dist[i][nodes[j]] for j in range(m)] for i in range(m)]
    INF = float("inf")
    best = [[INF] * m for _ in range(1 << m)]
    for i in range(m):
        best[1 << i][i] = 0
    for mask in range(1 << m):
        for last in range(m):
            cur = best[mask][last]
            if cur == INF:
                continue
            for nxt in range(m):
                if mask & (1 << nxt) or D[last][nxt] is None:
                    continue
                v = cur + D[last][nxt]
                if v < best[mask | (1 << nxt)][nxt]:
                    best[mask | (1 << nxt)][nxt] = v
    r = min(best[(1 << m) - 1])
    return None if r == INF else r


def structured(tier):
    """larger instances than the exhaustive family reaches: many sensitive subnets (up to 8) on chains, stars,
    caterpillars, rings and seeded random connected graphs; (topology, sensitive subnets) pairs"""
    import random
    out = []

    def graph(n, edges):
        t = [[1 if a == b else 0 for b in range(n)] for a in range(n)]
        for a, b in edges:
            t[a][b] = t[b][a] = 1
        return t
    ks = (4, 5, 6, 7, 8) if tier == "quick" else (4, 5, 6, 7, 8, 9)
    for k in ks:
        n = k + 1
        out.append(("chain", graph(n, [(i, i + 1) for i in range(n - 1)]), tuple(range(1, n))))
        out.append(("star", graph(n + 1, [(0, 1)] + [(1, i) for i in range(2, n + 1)]), tuple(range(2, n + 1))))
        out.append(("ring", graph(n, [(i, (i + 1) % n) for i in range(n)]), tuple(range(1, n))))
    rng = random.Random(20)
    for r in range(6 if tier == "quick" else 30):
        k = rng.choice((5, 6, 7, 8) if tier == "quick" else (5, 6, 7, 8, 9))
        n = k + 1 + rng.randrange(0, 3)
        edges = [(rng.randrange(0, i), i) for i in range(1, n)]            # random tree: connected
        edges += [(rng.randrange(n), rng.randrange(n)) for _ in range(rng.randrange(0, 3))]
        edges = [(a, b) for a, b in edges if a != b]
        out.append((f"random-{r}", graph(n, edges), tuple(sorted(rng.sample(range(1, n), k)))))
    return out


def steiner(topo, S):
    n = len(topo)
    others = [x for x in range(1, n) if x not in S]
    best = None
    for k in range(len(others) + 1):
        for extra in itertools.combinations(others, k):
            nodes = {0} | set(S) | set(extra)
            seen = {0}
            q = deque([0])
            while q:
                a = q.popleft()
                for b in nodes:
                    if b not in seen and topo[a][b] == 1:
                        seen.add(b)
                        q.append(b)
            if seen == nodes:
                return len(nodes) - 1
    return best


def topologies(n):
    pairs = [(a, b) for a in range(n) for b in range(a + 1, n)]
    for bits in itertools.product([0, 1], repeat=len(pairs)):
        t = [[1 if a == b else 0 for b in range(n)] for a in range(n)]
        for (a, b), x in zip(pairs, bits):
            t[a][b] = t[b][a] = x
        yield t


def run(tree, tier):
    f = _import(tree)
    nmax = 5 if tier == "quick" else 6
    t0 = time.time()
    evals = 0
    nontrivial = 0
    viol_i, viol_ii_known, viol_ii_new = [], [], []
    samples = []
    for n in range(3, nmax + 1):
        for topo in topologies(n):
            d0 = bfs(topo, 0)
            reach = [s for s in range(1, n) if d0[s] is not None]
            for k in range(1, min(3, len(reach)) + 1):
                for S in itertools.combinations(reach, k):
                    evals += 1
                    got = int(f(topo, [(s, 0) for s in S]))
                    w = W(topo, S)
                    st = steiner(topo, S)
                    if w != st or k > 1:
                        nontrivial += 1
                    if len(samples) < 3 and k == 2 and n == 4:
                        samples.append({"topology": topo, "sensitive_subnets": list(S), "hops": got, "W": w, "steiner": st})
                    if got != w:
                        viol_i.append({"topology": topo, "sensitive_subnets": list(S), "hops": got, "W": w, "steiner": st})
                    elif got > st:
                        viol_ii_known.append({"topology": topo, "sensitive_subnets": list(S), "hops": got, "steiner": st})
    # self-check of the two independent reference computations against each other on a sample
    ref_mismatch = 0
    for smp in samples:
        if W(smp["topology"], smp["sensitive_subnets"]) != W_dp(smp["topology"], smp["sensitive_subnets"]):
            ref_mismatch += 1
    big = 0
    for name, topo, S in structured(tier):
        evals += 1
        big += 1
        nontrivial += 1
        got = int(f(topo, [(s, 0) for s in S]))
        w = W_dp(topo, S)
        if len(S) <= 6 and W(topo, S) != w:
            ref_mismatch += 1
        if got != w:
            viol_i.append({"topology": topo, "sensitive_subnets": list(S), "hops": got, "W": w, "family": name})
        elif len(topo) <= 9:
            st = steiner(topo, S)
            if got > st:
                viol_ii_known.append({"topology": topo, "sensitive_subnets": list(S), "hops": got, "steiner": st})
    return {"evaluations": evals, "distinct_nontrivial": nontrivial, "nmax": nmax, "viol_i": viol_i,
            "structured_instances": big, "max_sensitive_subnets": 8 if tier == "quick" else 9,
            "reference_mismatch": ref_mismatch,
            "viol_ii_known": viol_ii_known, "samples": samples, "wall": time.time() - t0}


def frame_check(tree):
    """frame clause of get_minimal_hops_to_goal / Network.get_minimal_hops (assumed at call sites: "reads its arguments
    only"): neither the topology nor the list of sensitive addresses - which the network shares with the goal test - is
    modified by the call.  Run-time contract on the real code (bounded: the instances below)."""
    import copy
    f = _import(tree)
    bad = []
    n = 0
    for name, topo, S in structured("quick")[:9] + [("t3", t, (1, 2)) for t in list(topologies(3))[-2:]]:
        sens = [(s, 0) for s in S]
        t0, s0 = copy.deepcopy(topo), copy.deepcopy(sens)
        try:
            f(topo, sens)
        except Exception as e:      # noqa
            bad.append({"family": name, "what": f"raised {type(e).__name__}"})
            continue
        n += 1
        if topo != t0 or sens != s0:
            bad.append({"family": name, "topology": t0, "sensitive": s0, "what": "argument modified by the call",
                        "after": {"topology": topo, "sensitive": sens}})
    # through the public API of a real environment: asking for the hop count / score bound must not change the goal
    import nasim
    import numpy as np
    for bench in ("tiny", "small"):
        env = nasim.make_benchmark(bench, seed=0)
        before = copy.deepcopy(list(env.network.sensitive_addresses))
        topo0 = np.array(env.network.topology).tolist()
        env.reset()
        g0 = bool(env.goal_reached())
        env.get_minimum_hops() if hasattr(env, "get_minimum_hops") else env.network.get_minimal_hops()
        env.get_score_upper_bound()
        n += 1
        if list(env.network.sensitive_addresses) != before or np.array(env.network.topology).tolist() != topo0 \
           or bool(env.goal_reached()) != g0:
            bad.append({"family": "api:" + bench, "what": "hop / score-bound query changed the network's goal or topology",
                        "sensitive_before": before, "sensitive_after": list(env.network.sensitive_addresses)})
    return {"calls": n, "bad": bad}


def witness(tree):
    """known finding witness: star with three sensitive leaves (DESIGN 6)"""
    f = _import(tree)
    topo = [[1, 1, 0, 0, 0], [1, 1, 1, 1, 1], [0, 1, 1, 0, 0], [0, 1, 0, 1, 0], [0, 1, 0, 0, 1]]
    S = (2, 3, 4)
    return int(f(topo, [(s, 0) for s in S])), steiner(topo, S)


if __name__ == "__main__":
    r = run(sys.argv[1] if len(sys.argv) > 1 else "/repo", "quick")
    print({k: (v if not isinstance(v, list) else len(v)) for k, v in r.items()})
    print(witness(sys.argv[1] if len(sys.argv) > 1 else "/repo"))
