"""contracts for the vector layout (C09 / C19): HostVector._update_vector_idxs, _initialize, vectorize,
State.tensorize, State.generate_initial_state"""
import z3

from pyvc.contract import Contract, LoopContract, Scope, contract, loop_contract
from pyvc.values import (SymV, Obj, NpCell, NpArr, AbsVal, SDict, SymSeq, SymDict, PyDict, ClassRef, Opaque, NameK,
                         mk, ival, rval, bval, nameval, NONE_ID, A1, A2)
from . import vocab as V
from .c_network import tensor_of, reset_rows

I_, R_, B_ = z3.IntSort(), z3.RealSort(), z3.BoolSort()
HVQ = "nasim.envs.host_vector.HostVector"

LAYOUT_ATTRS = ["_host_address_idx", "_compromised_idx", "_reachable_idx", "_discovered_idx", "_value_idx",
                "_discovery_value_idx", "_access_idx", "_os_start_idx", "_service_start_idx", "_process_start_idx",
                "state_size"]


def hv_state(I):
    hv = I.repo.cls(HVQ)
    I.ensure_class_state(hv)
    return I.class_state[hv.qualname]


def havoc_class_state(I, tag="prev"):
    """arbitrary previous global layout (another scenario's, or none)"""
    st = hv_state(I)
    for a in LAYOUT_ATTRS + ["num_os", "num_services", "num_processes"]:
        st[a] = SymV(z3.Int(f"{tag}{a}"), "int")
    st["_subnet_address_idx"] = SymV(z3.Int(f"{tag}_subnet_address_idx"), "int")
    for m in ("os_idx_map", "service_idx_map", "process_idx_map"):
        st[m] = SDict(1, "int", z3.Const(f"{tag}_{m}_dom", z3.ArraySort(I_, B_)),
                      z3.Const(f"{tag}_{m}_val", z3.ArraySort(I_, I_)), fresh=False, label=tag + m)
    # any OTHER class attribute that some method assigns (a memo, a "last layout" marker ...) is process-wide state too
    # and holds whatever an earlier environment left there
    import ast
    from pyvc.values import Opaque
    cls = I.repo.cls(HVQ)
    for fi in cls.methods.values():
        for n in ast.walk(fi.node):
            if isinstance(n, (ast.Assign, ast.AugAssign, ast.AnnAssign)):
                for t in (n.targets if isinstance(n, ast.Assign) else [n.target]):
                    if isinstance(t, ast.Attribute) and isinstance(t.value, ast.Name) and t.value.id in ("cls", cls.name) \
                            and t.attr not in st_known(st):
                        st[t.attr] = Opaque(f"{tag} value of class attribute {t.attr}")
    return st


def st_known(st):
    return set(LAYOUT_ATTRS) | {"num_os", "num_services", "num_processes", "_subnet_address_idx", "os_idx_map",
                                "service_idx_map", "process_idx_map", "address_space_bounds", "state_size"}


def layout_installed(sig, st):
    """the class attributes equal Layout(sig): list of (label, z3 Bool)"""
    L = sig.layout()
    want = {"_subnet_address_idx": z3.IntVal(0), "_host_address_idx": L.host_idx, "_compromised_idx": L.comp,
            "_reachable_idx": L.reach, "_discovered_idx": L.disc, "_value_idx": L.value,
            "_discovery_value_idx": L.dvalue, "_access_idx": L.access, "_os_start_idx": L.os0,
            "_service_start_idx": L.srv0, "_process_start_idx": L.proc0, "state_size": L.W,
            "num_os": ival(sig.nOS), "num_services": ival(sig.nSrv), "num_processes": ival(sig.nProc)}
    cs = []
    for k, w in want.items():
        v = st.get(k)
        if isinstance(v, (SymV, int)) and not isinstance(v, bool):
            cs.append(ival(v) == w)
        else:
            cs.append(z3.BoolVal(False))
    b = st.get("address_space_bounds")
    if isinstance(b, tuple) and len(b) == 2:
        cs.append(z3.And(ival(b[0]) == sig.B0, ival(b[1]) == sig.B1))
    else:
        cs.append(z3.BoolVal(False))
    out = [("C09.layout-constants", z3.And(*cs))]
    for m, n in (("os_idx_map", sig.nOS), ("service_idx_map", sig.nSrv), ("process_idx_map", sig.nProc)):
        out.append((f"C09.{m}-is-scenario-order", idxmap_ok(sig, st.get(m), n)))
    return out


def idxmap_ok(sig, m, n):
    """name k (k-th entry of the scenario list) maps to index k, for every k < n"""
    if isinstance(m, SDict):
        return sig.forall_range(n, lambda k: z3.And(z3.Select(m.dom, ival(k)), z3.Select(m.val, ival(k)) == ival(k)), "ix")
    if isinstance(m, PyDict):
        if not isinstance(n, int):
            return z3.BoolVal(False)
        ok = list(m.d.keys()) == [NameK(k) for k in range(n)] and all(
            isinstance(v, int) and v == k for k, v in enumerate(m.d.values()))
        return z3.BoolVal(ok)
    if isinstance(m, SymDict):
        return z3.BoolVal(getattr(m, "label", "").endswith("_idx_map"))
    return z3.BoolVal(False)


def cfg_dicts(sig, I, i):
    h = sig.host_obj(I, sig.addr(i))
    return h


# ---------------------------------------------------------------------------- _update_vector_idxs

@contract
class UpdateVectorIdxs(Contract):
    global_writes_allowed = (HVQ,)
    qualname = HVQ + "._update_vector_idxs"
    callable_by_contract = False
    tags = {"": ("C09", "C19", "C10", "C01", "C08")}
    bounded = True

    def setup(self, I, variant):
        sig = V.Sigma(concrete=I.ext_state.get("concrete"))
        for ax in sig.wfs():
            I.ctx.assume(ax)
        I.ext_state["sig"] = sig
        st = havoc_class_state(I)
        st["address_space_bounds"] = (mk(sig.B0, "int"), mk(sig.B1, "int"))
        st["num_os"], st["num_services"], st["num_processes"] = (mk(ival(sig.nOS), "int"), mk(ival(sig.nSrv), "int"),
                                                                 mk(ival(sig.nProc), "int"))
        S = Scope(sig=sig)
        cls = ClassRef(I.repo.cls(HVQ))
        S.a = {"cls": cls}
        S.call_args = ([cls], {})
        return S

    def ensures(self, I, S):
        sig = S.sig
        L = sig.layout()
        st = hv_state(I)
        out = [layout_installed(sig, st)[0]]
        g = lambda k: ival(st[k])
        # documented order: blocks adjacent, disjoint, sized by the scenario
        out.append(("C09.blocks-adjacent", z3.And(
            g("_host_address_idx") == sig.B0, g("_compromised_idx") == sig.B0 + sig.B1,
            g("_reachable_idx") == g("_compromised_idx") + 1, g("_discovered_idx") == g("_compromised_idx") + 2,
            g("_value_idx") == g("_compromised_idx") + 3, g("_discovery_value_idx") == g("_compromised_idx") + 4,
            g("_access_idx") == g("_compromised_idx") + 5, g("_os_start_idx") == g("_compromised_idx") + 6,
            g("_service_start_idx") == g("_os_start_idx") + ival(sig.nOS),
            g("_process_start_idx") == g("_service_start_idx") + ival(sig.nSrv),
            g("state_size") == sig.B0 + sig.B1 + 6 + ival(sig.nOS) + ival(sig.nSrv) + ival(sig.nProc))))
        return out


# ---------------------------------------------------------------------------- _initialize

class _IdxLoop(LoopContract):
    qualname = HVQ + "._initialize"
    tags = ("C09", "C19", "C10")
    attr = None

    def snapshot(self, I, fr, seq):
        return {}

    def havoc(self, I, fr, entry, seq):
        st = hv_state(I)
        st[self.attr] = SDict(1, "int", I.ctx.fresh(self.attr + "_dom", z3.ArraySort(I_, B_)),
                              I.ctx.fresh(self.attr + "_val", z3.ArraySort(I_, I_)), fresh=True, label=self.attr)

    def inv(self, I, fr, entry, seq, k):
        sig = I.ext_state["sig"]
        m = hv_state(I)[self.attr]
        if isinstance(m, PyDict):
            return [("prefix", z3.BoolVal(not m.d))] if z3.is_int_value(z3.simplify(k)) and z3.simplify(k).as_long() == 0 \
                else [("prefix", z3.BoolVal(False))]
        j = sig.qvar("ix")
        return [("prefix", z3.ForAll([j], z3.Implies(z3.And(0 <= j, j < k),
                                                    z3.And(z3.Select(m.dom, j), z3.Select(m.val, j) == j))))]


@loop_contract
class InitOsLoop(_IdxLoop):
    ordinal = 0
    attr = "os_idx_map"


@loop_contract
class InitSrvLoop(_IdxLoop):
    ordinal = 1
    attr = "service_idx_map"


@loop_contract
class InitProcLoop(_IdxLoop):
    ordinal = 2
    attr = "process_idx_map"


@contract
class Initialize(Contract):
    global_writes_allowed = (HVQ,)
    qualname = HVQ + "._initialize"
    # the installed name -> column maps are what every later step() looks names up in: a stale map makes a member of
    # the action space raise KeyError (C10)
    # ... and makes the trajectory depend on what ran earlier in the process (C14)
    tags = {"": ("C09", "C19", "C01", "C08", "C10", "C14")}

    def setup(self, I, variant):
        sig = V.Sigma(concrete=I.ext_state.get("concrete"))
        for ax in sig.wfs():
            I.ctx.assume(ax)
        I.ext_state["sig"] = sig
        havoc_class_state(I)
        h = sig.host_obj(I, sig.addr(0))
        S = Scope(sig=sig)
        cls = ClassRef(I.repo.cls(HVQ))
        bounds = (mk(sig.B0, "int"), mk(sig.B1, "int"))
        S.a = {"cls": cls}
        S.call_args = ([cls, bounds, h.fields["services"], h.fields["os"], h.fields["processes"]], {})
        return S

    def bind(self, I, fi, args, kwargs):
        S = super().bind(I, fi, args, kwargs)
        S.sig = I.ext_state["sig"]
        return S

    def ensures(self, I, S):
        return layout_installed(S.sig, hv_state(I))

    def havoc(self, I, S):
        S.sig.install_layout(I)
        I.ctx.writes.append(("classattr", HVQ, "*layout*"))
        return None


# ---------------------------------------------------------------------------- vectorize

def vec_after(sig, i, old, c):
    """content of cell c after HostVector.vectorize(host i, bounds, vector) where the vector held `old`"""
    L = sig.layout()
    b = lambda t: z3.If(t, z3.RealVal(1), z3.RealVal(0))
    i = ival(i)
    return z3.If(c == sig.asub_t(i), z3.RealVal(1),
           z3.If(c == sig.B0 + sig.ahid_t(i), z3.RealVal(1),
           z3.If(z3.Or(c == L.comp, c == L.reach, c == L.disc, c == L.access), z3.RealVal(0),
           z3.If(c == L.value, sig.hval(i),
           z3.If(c == L.dvalue, sig.dval(i),
           z3.If(z3.And(L.os0 <= c, c < L.srv0), b(sig.os_of(i, c - L.os0)),
           z3.If(z3.And(L.srv0 <= c, c < L.proc0), b(sig.srv_of(i, c - L.srv0)),
           z3.If(z3.And(L.proc0 <= c, c < L.W), b(sig.proc_of(i, c - L.proc0)),
                 z3.Select(old, c)))))))))


class _CfgLoop(LoopContract):
    qualname = HVQ + ".vectorize"
    tags = ("C09", "C05")
    which = None     # (start attr of Layout, config fn name)

    def snapshot(self, I, fr, seq):
        vec = fr.locals["vector"]
        return {"vec": vec, "old": vec.content()}

    def havoc(self, I, fr, entry, seq):
        entry["vec"].set_content(I.ctx.fresh("vec_" + self.which[1], A1))

    def inv(self, I, fr, entry, seq, k):
        sig = I.ext_state["sig"]
        L = sig.layout()
        i = I.ext_state["host_i"]
        start = getattr(L, self.which[0])
        fn = getattr(sig, self.which[1])
        c = sig.qvar("vc")
        b = lambda t: z3.If(t, z3.RealVal(1), z3.RealVal(0))
        cur = entry["vec"].content()
        return [("block-prefix", z3.ForAll([c], z3.Select(cur, c) == z3.If(
            z3.And(start <= c, c < start + k), b(fn(ival(i), c - start)), z3.Select(entry["old"], c))))]


@loop_contract
class VecOsLoop(_CfgLoop):
    ordinal = 0
    which = ("os0", "os_of")


@loop_contract
class VecSrvLoop(_CfgLoop):
    ordinal = 1
    which = ("srv0", "srv_of")


@loop_contract
class VecProcLoop(_CfgLoop):
    ordinal = 2
    which = ("proc0", "proc_of")


@contract
class Vectorize(Contract):
    global_writes_allowed = (HVQ,)
    qualname = HVQ + ".vectorize"
    optional_params_modelled = ("vector",)       # both call shapes are verified (variants fresh-vector / given-row)
    # the value / discovery-value cells it writes are what rewards are paid from (C05)
    tags = {"": ("C09", "C19", "C04", "C01", "C08", "C05")}      # tensorize's C01 / C08 clauses rest on the row this writes

    def modifies(self, I, S):
        v = S.extra.get("vec")
        return [v.cell] if v is not None else []

    def variants(self):
        return ["fresh-vector/uninitialised", "fresh-vector/initialised", "given-row/initialised"]

    def setup(self, I, variant):
        vec_kind, cls_kind = variant.split("/")
        sig = V.Sigma(concrete=I.ext_state.get("concrete"))
        for ax in sig.wfs():
            I.ctx.assume(ax)
        I.ext_state["sig"] = sig
        if cls_kind == "initialised":
            sig.install_layout(I)
        else:
            st = havoc_class_state(I)
            st["address_space_bounds"] = None
        L = sig.layout()
        i = z3.Int("vz_i") if sig.symbolic else 0
        if sig.symbolic:
            I.ctx.assume(z3.And(0 <= i, i < sig.N))
        I.ext_state["host_i"] = i
        h = sig.host_obj(I, sig.addr(i))
        cls = ClassRef(I.repo.cls(HVQ))
        bounds = (mk(sig.B0, "int"), mk(sig.B1, "int"))
        S = Scope(sig=sig)
        S.extra["i"] = i
        if vec_kind == "given-row":
            T = z3.Const("Tvz", A2)
            cell = NpCell(T, (ival(sig.N), L.W), fresh=False, label="tensor")
            vec = NpArr(cell, ival(i))
            S.call_args = ([cls, h, bounds, vec], {})
            S.extra["vec"] = vec
        else:
            S.call_args = ([cls, h, bounds], {})
            S.extra["vec"] = None
        S.a = {"cls": cls, "host": h, "address_space_bounds": bounds}
        return S

    def requires(self, I, S):
        # the bounds argument is only read when the class is not initialised yet (it then fixes the layout of every
        # vector built afterwards): there it has to be the scenario's address-space bounds
        if hv_state(I).get("address_space_bounds") is not None:
            return []
        b = S.a.get("address_space_bounds")
        sig = S.sig
        ok = isinstance(b, tuple) and len(b) == 2 and all(
            isinstance(x, (SymV, int)) and not isinstance(x, bool) for x in b)
        return [("C09.bounds-argument-is-scenario-bounds",
                 z3.And(ival(b[0]) == sig.B0, ival(b[1]) == sig.B1) if ok else z3.BoolVal(False))]

    def bind(self, I, fi, args, kwargs):
        S = super().bind(I, fi, args, kwargs)
        S.sig = I.ext_state["sig"]
        S.extra["vec"] = S.a.get("vector")
        ad = S.a["host"].fields["address"]
        sig = S.sig
        if sig.symbolic:
            S.extra["i"] = sig.hnum(ival(ad[0]), ival(ad[1]))
        else:
            S.extra["i"] = sig.addrs.index((ad[0], ad[1]))
        return S

    def snapshot(self, I, S):
        v = S.extra.get("vec")
        S.old["vec"] = v.content() if v is not None else z3.K(I_, z3.RealVal(0))
        S.old["T"] = v.cell.content if v is not None else None

    def ensures(self, I, S):
        sig = S.sig
        L = sig.layout()
        i = S.extra["i"]
        res = S.result
        out = []
        ok_obj = isinstance(res, Obj) and res.cls.name == "HostVector" and isinstance(res.fields.get("vector"), NpArr)
        out.append(("C09.returns-hostvector", z3.BoolVal(ok_obj)))
        if not ok_obj:
            return out
        arr = res.fields["vector"]
        if S.extra.get("vec") is not None:
            out.append(("C09.writes-into-given-vector", z3.BoolVal(arr.cell is S.extra["vec"].cell)))
        cur = arr.content()
        c = sig.qvar("vc")
        out.append(("C09.row", z3.ForAll([c], z3.Implies(z3.And(0 <= c, c < L.W),
                                                        z3.Select(cur, c) == vec_after(sig, i, S.old["vec"], c)))))
        if S.old["T"] is not None:
            j = sig.qvar("vr")
            row = arr.row if arr.row is not None else ival(i)
            out.append(("C09.other-rows-untouched", z3.ForAll([j], z3.Implies(
                j != row, z3.Select(arr.cell.content, j) == z3.Select(S.old["T"], j)))))
        out += layout_installed(sig, hv_state(I))
        return out

    def havoc(self, I, S):
        sig = S.sig
        L = sig.layout()
        S.sig.install_layout(I)
        v = S.extra.get("vec")
        hvcls = I.repo.cls(HVQ)
        if v is None:
            cell = NpCell(I.ctx.fresh("vz_new", A1), (L.W,), fresh=True, label="vectorized")
            arr = NpArr(cell)
        else:
            if not v.cell.fresh:
                I.ctx.writes.append(("cell", v.cell))
            v.set_content(I.ctx.fresh("vz_row", A1))
            arr = v
        return Obj(hvcls, {"vector": arr}, fresh=True)


# ---------------------------------------------------------------------------- tensorize

def tensor_rows_ok(sig, T, k, zero_rest):
    L = sig.layout()
    j, c = sig.qvar("tr"), sig.qvar("tc")
    rows = z3.ForAll([j, c], z3.Implies(z3.And(0 <= j, j < k, 0 <= c, c < L.W),
                                        z3.Select(z3.Select(T, j), c) == V.row_spec(sig, j, c)))
    if not zero_rest:
        return rows
    rest = z3.ForAll([j, c], z3.Implies(z3.And(k <= j, j < ival(sig.N)), z3.Select(z3.Select(T, j), c) == 0))
    return z3.And(rows, rest)


@loop_contract
class TensorizeLoop(LoopContract):
    qualname = "nasim.envs.state.State.tensorize"
    ordinal = 0
    tags = ("C09", "C04", "C19")

    def snapshot(self, I, fr, seq):
        return {"cell": fr.locals["tensor"].cell}

    def havoc(self, I, fr, entry, seq):
        entry["cell"].content = I.ctx.fresh("T_tz", A2)
        for v in ("host_addr", "host", "host_num"):
            fr.locals.pop(v, None)

    def inv(self, I, fr, entry, seq, k):
        sig = I.ext_state["sig"]
        I.ext_state["tensorize_i"] = k if not z3.is_int_value(z3.simplify(k)) else z3.simplify(k)
        return [("rows", tensor_rows_ok(sig, entry["cell"].content, k, True))] + \
            [("layout-" + l, t) for l, t in layout_installed(sig, hv_state(I))]


@contract
class Tensorize(Contract):
    global_writes_allowed = (HVQ,)
    qualname = "nasim.envs.state.State.tensorize"
    tags = {"": ("C09", "C04", "C19", "C01", "C08", "C05")}

    def setup(self, I, variant):
        sig = V.Sigma(concrete=I.ext_state.get("concrete"))
        for ax in sig.wfs():
            I.ctx.assume(ax)
        I.ext_state["sig"] = sig
        st = havoc_class_state(I)
        st["address_space_bounds"] = None          # State.reset() ran just before (see generate_initial_state)
        I.ext_state["tensorize_i"] = z3.IntVal(0) if sig.symbolic else 0
        net = sig.network_obj(I)
        cls = ClassRef(I.repo.cls("nasim.envs.state.State"))
        S = Scope(sig=sig)
        S.a = {"cls": cls, "network": net}
        S.call_args = ([cls, net], {})
        return S

    def bind(self, I, fi, args, kwargs):
        S = super().bind(I, fi, args, kwargs)
        S.sig = I.ext_state["sig"]
        return S

    def requires(self, I, S):
        b = hv_state(I).get("address_space_bounds")
        return [("layout-reset", z3.BoolVal(b is None))]

    def ensures(self, I, S):
        sig = S.sig
        res = S.result
        ok = isinstance(res, Obj) and res.cls.name == "State"
        out = [("C09.returns-state", z3.BoolVal(ok))]
        if ok:
            T = tensor_of(res).content
            out.append(("C09.initial-rows", tensor_rows_ok(sig, T, ival(sig.N), False)))
            out.append(("C09.fresh-tensor", z3.BoolVal(tensor_of(res).fresh)))
        out += layout_installed(sig, hv_state(I))
        return out

    def havoc(self, I, S):
        sig = S.sig
        sig.install_layout(I)
        I.ctx.writes.append(("classattr", HVQ, "*layout*"))
        T = I.ctx.fresh("T_tensorized", A2)
        return V.state_obj(I, sig, T, fresh=True, label="tensorized")


# ---------------------------------------------------------------------------- generate_initial_state

@contract
class GenerateInitialState(Contract):
    global_writes_allowed = (HVQ,)
    qualname = "nasim.envs.state.State.generate_initial_state"
    tags = {"": ("C09", "C04", "C19", "C01", "C10", "C14")}

    def setup(self, I, variant):
        sig = V.Sigma(concrete=I.ext_state.get("concrete"))
        for ax in sig.wfs():
            I.ctx.assume(ax)
        I.ext_state["sig"] = sig
        st = havoc_class_state(I)
        # arbitrary previous scenario: bounds may be set (another environment exists) or not
        st["address_space_bounds"] = (SymV(z3.Int("prevB0"), "int"), SymV(z3.Int("prevB1"), "int"))
        net = sig.network_obj(I)
        cls = ClassRef(I.repo.cls("nasim.envs.state.State"))
        S = Scope(sig=sig)
        S.a = {"cls": cls, "network": net}
        S.call_args = ([cls, net], {})
        return S

    def bind(self, I, fi, args, kwargs):
        S = super().bind(I, fi, args, kwargs)
        S.sig = I.ext_state["sig"]
        return S

    def ensures(self, I, S):
        sig = S.sig
        L = sig.layout()
        res = S.result
        ok = isinstance(res, Obj) and res.cls.name == "State"
        out = [("C09.returns-state", z3.BoolVal(ok))]
        if ok:
            T = tensor_of(res).content
            j, c = sig.qvar("gr"), sig.qvar("gc")
            pub = lambda jj: z3.If(sig.public(sig.asub(jj)), z3.RealVal(1), z3.RealVal(0))
            want = z3.If(z3.Or(c == L.reach, c == L.disc), pub(j), V.row_spec(sig, j, c))
            out.append(("C09.initial-state-decodes-to-scenario", z3.ForAll([j, c], z3.Implies(
                z3.And(0 <= j, j < ival(sig.N), 0 <= c, c < L.W), z3.Select(z3.Select(T, j), c) == want))))
        out += [("C19." + l[4:] if l.startswith("C09.") else l, t) for l, t in layout_installed(sig, hv_state(I))]
        return out

    def havoc(self, I, S):
        sig = S.sig
        sig.install_layout(I)
        I.ctx.writes.append(("classattr", HVQ, "*layout*"))
        T = I.ctx.fresh("T_initial", A2)
        return V.state_obj(I, sig, T, fresh=True, label="initial_state")
