"""unbounded contracts for the arithmetic / structural functions of nasim/scenarios/generator.py (C15, C16-G1).
The stochastic host-configuration, vulnerability-repair and firewall functions remain bounded (checks/gen_monitor.py)."""
import z3

from pyvc.contract import Contract, LoopContract, Scope, contract, loop_contract
from pyvc.values import (SymV, Obj, NpCell, NpArr, SymSeq, PyDict, PyList, mk, ival, rval, bval, A1, A2)

GQ = "nasim.scenarios.generator.ScenarioGenerator."
I_, R_, B_ = z3.IntSort(), z3.RealSort(), z3.BoolSort()


def gen_obj(I, **fields):
    return Obj(I.repo.cls("nasim.scenarios.generator.ScenarioGenerator"), dict(fields), fresh=False, label="generator")


def ceil_div(n, d):
    return (n + (d - 1)) / d        # integer division (z3 Int `/` is div)


# ---------------------------------------------------------------------------- _generate_subnets

@contract
class GenerateSubnets(Contract):
    qualname = GQ + "_generate_subnets"
    callable_by_contract = False
    bounded = False
    tags = {"": ("C15", "C16")}

    def setup(self, I, variant):
        n = z3.Int("num_hosts")
        I.ctx.assume(n > 2)                   # the documented domain (leading assert of generate)
        g = gen_obj(I)
        S = Scope()
        S.extra["n"] = n
        S.a = {"self": g}
        S.call_args = ([g, SymV(n, "int")], {})
        return S

    def modifies(self, I, S):
        return [S.a["self"]]

    def ensures(self, I, S):
        n = S.extra["n"]
        subs = S.a["self"].fields.get("subnets")
        ok = isinstance(subs, SymSeq)
        out = [("C15.subnets-is-list", z3.BoolVal(ok))]
        if not ok:
            return out
        dmz, sens = ceil_div(n, 40), ceil_div(n, 41)
        user = n - dmz - sens
        k, rem = user / 5, user % 5
        ln = ival(subs.n)
        j = z3.Int("sub_j")
        e = lambda i: ival(subs.elem(i))
        out.append(("C15.subnet-layout", z3.And(
            ln == 3 + k + z3.If(rem != 0, 1, 0), e(z3.IntVal(0)) == 1, e(z3.IntVal(1)) == dmz, e(z3.IntVal(2)) == sens,
            z3.Implies(z3.And(3 <= j, j < 3 + k), e(j) == 5), z3.Implies(rem != 0, e(3 + k) == rem))))
        # lemma (arithmetic over the layout): the sizes add up to the requested number of hosts (+1 for the internet)
        out.append(("C15.sizes-sum-to-num-hosts", 1 + dmz + sens + 5 * k + rem == n + 1))
        out.append(("C15.at-least-four-subnets-all-non-empty", z3.And(
            ln >= 4, z3.Implies(z3.And(0 <= j, j < ln), e(j) >= 1))))
        return out


# ---------------------------------------------------------------------------- _generate_topology

def topo_spec(nS, r, c):
    """documented topology: internet-DMZ, DMZ-sensitive, DMZ-user, sensitive-user, user subnets in a binary tree"""
    b = lambda t: z3.If(t, z3.RealVal(1), z3.RealVal(0))
    block = z3.And(r <= 3, c <= 3, z3.Not(z3.And(r == 0, c > 1)), z3.Not(z3.And(r > 1, c == 0)))
    pos = r - 3
    parent = ((pos - 1) / 2) + 3
    left, right = 2 * pos + 4, 2 * pos + 5
    tree = z3.And(r >= 3, nS > 4, z3.Or(c == r, z3.And(pos > 0, c == parent), z3.And(c == left, left < nS),
                                        z3.And(c == right, right < nS)))
    return b(z3.Or(block, tree))


@loop_contract
class GenerateTopologyLoop(LoopContract):
    qualname = GQ + "_generate_topology"
    ordinal = 2          # loops 0,1 are the concrete 4x4 block; loop 2 is the user-tree loop
    tags = ("C15", "C16")

    def snapshot(self, I, fr, seq):
        t = fr.locals["topology"]
        return {"arr": t, "T0": t.content()}

    def havoc(self, I, fr, entry, seq):
        entry["arr"].set_content(I.ctx.fresh("Ttopo", A2))
        for v in ("row", "pos", "parent", "child_left", "child_right"):
            fr.locals.pop(v, None)

    def inv(self, I, fr, entry, seq, k):
        nS = ival(fr.locals["num_subnets"])
        T = entry["arr"].content()
        r, c = z3.Int("tl_r"), z3.Int("tl_c")
        done = z3.Or(r < 3, z3.And(3 <= r, r < 3 + k))
        # rows already produced hold the documented content; later user rows still hold what the 4x4 block left there
        later = z3.If(r == 3, z3.If(z3.And(c >= 1, c <= 3), z3.RealVal(1), z3.RealVal(0)), z3.RealVal(0))
        return [("rows", z3.ForAll([r, c], z3.Implies(z3.And(0 <= r, r < nS, 0 <= c, c < nS),
                                                     z3.Select(z3.Select(T, r), c) == z3.If(done, topo_spec(nS, r, c), later))))]


@contract
class GenerateTopology(Contract):
    qualname = GQ + "_generate_topology"
    callable_by_contract = False
    bounded = False
    tags = {"": ("C15", "C16")}

    def setup(self, I, variant):
        nS = z3.Int("gen_nS")
        I.ctx.assume(nS >= 4)                 # postcondition of _generate_subnets
        subs = SymSeq(nS, lambda i: SymV(z3.Function("gen_size", I_, I_)(ival(i)), "int"), "subnets")
        g = gen_obj(I, subnets=subs)
        S = Scope()
        S.extra["nS"] = nS
        S.a = {"self": g}
        S.call_args = ([g], {})
        return S

    def modifies(self, I, S):
        return [S.a["self"]]

    def ensures(self, I, S):
        nS = S.extra["nS"]
        t = S.a["self"].fields.get("topology")
        ok = isinstance(t, NpArr) and t.ndim == 2
        out = [("C15.topology-is-matrix", z3.BoolVal(ok))]
        if not ok:
            return out
        T = t.content()
        r, c = z3.Int("tp_r"), z3.Int("tp_c")
        inr = z3.And(0 <= r, r < nS, 0 <= c, c < nS)
        cell = lambda a, b_: z3.Select(z3.Select(T, a), b_)
        out.append(("C15.topology-shape", z3.And(ival(t.shape[0]) == nS, ival(t.shape[1]) == nS)))
        out.append(("spec.topology-content", z3.Implies(inr, cell(r, c) == topo_spec(nS, r, c))))
        # the clauses of the statement
        out.append(("C15.topology-symmetric", z3.Implies(inr, cell(r, c) == cell(c, r))))
        out.append(("C15.topology-self-connected", z3.Implies(z3.And(0 <= r, r < nS), cell(r, r) == 1)))
        out.append(("C15.only-dmz-public", z3.Implies(z3.And(1 <= r, r < nS), (cell(r, z3.IntVal(0)) == 1) == (r == 1))))
        out.append(("C15.topology-entries-0-1", z3.Implies(inr, z3.Or(cell(r, c) == 0, cell(r, c) == 1))))
        # G1 of C16: every user subnet beyond the first hangs off an earlier user subnet; the first user subnet and the
        # sensitive subnet hang off the DMZ, which is public
        out.append(("C16.G1-tree", z3.And(
            z3.Implies(z3.And(4 <= r, r < nS), z3.And(cell(r, ((r - 4) / 2) + 3) == 1, ((r - 4) / 2) + 3 < r,
                                                       ((r - 4) / 2) + 3 >= 3)),
            cell(z3.IntVal(3), z3.IntVal(1)) == 1, cell(z3.IntVal(2), z3.IntVal(1)) == 1,
            cell(z3.IntVal(1), z3.IntVal(0)) == 1)))
        return out


# ---------------------------------------------------------------------------- _generate_address_space_bounds

@contract
class GenerateAddressSpaceBounds(Contract):
    qualname = GQ + "_generate_address_space_bounds"
    callable_by_contract = False
    bounded = False
    tags = {"": ("C15", "C09")}

    def variants(self):
        return ["none", "tuple", "list"]

    def setup(self, I, variant):
        nS = z3.Int("gen_nS")
        I.ctx.assume(nS >= 4)
        size = z3.Function("gen_size", I_, I_)
        j = z3.Int("gs_j")
        I.ctx.assume(z3.ForAll([j], z3.Implies(z3.And(0 <= j, j < nS), size(j) >= 1)))
        subs = SymSeq(nS, lambda i: SymV(size(ival(i)), "int"), "subnets")
        g = gen_obj(I, subnets=subs)
        S = Scope()
        S.extra.update(nS=nS, size=size)
        b0, b1 = z3.Int("ab0"), z3.Int("ab1")
        S.extra["b"] = (b0, b1)
        if variant == "none":
            arg = None
        else:
            # documented-valid custom bounds: positive ints at least as large as the scenario needs
            I.ctx.assume(z3.And(b0 >= nS, b1 >= 1, z3.ForAll([j], z3.Implies(z3.And(0 <= j, j < nS), size(j) <= b1))))
            items = [SymV(b0, "int"), SymV(b1, "int")]
            arg = tuple(items) if variant == "tuple" else PyList(items, fresh=False)
        S.extra["variant"] = variant
        S.a = {"self": g}
        S.call_args = ([g, arg], {})
        return S

    def modifies(self, I, S):
        return [S.a["self"]]

    def ensures(self, I, S):
        nS, size = S.extra["nS"], S.extra["size"]
        b = S.a["self"].fields.get("address_space_bounds")
        ok = isinstance(b, tuple) and len(b) == 2
        out = [("C15.bounds-is-pair", z3.BoolVal(ok))]
        if not ok:
            return out
        j = z3.Int("gb_j")
        covers = z3.And(ival(b[0]) >= nS, z3.Implies(z3.And(0 <= j, j < nS), size(j) <= ival(b[1])))
        out.append(("C15.bounds-cover-the-network", covers))
        if S.extra["variant"] == "none":
            out.append(("C15.default-bounds", ival(b[0]) == nS))
        else:
            out.append(("C15.custom-bounds-kept", z3.And(ival(b[0]) == S.extra["b"][0], ival(b[1]) == S.extra["b"][1])))
        return out


# ---------------------------------------------------------------------------- _generate_sensitive_hosts

@contract
class GenerateSensitiveHosts(Contract):
    may_draw = True
    qualname = GQ + "_generate_sensitive_hosts"
    callable_by_contract = False
    bounded = False
    tags = {"": ("C15", "C16")}

    def variants(self):
        return ["fixed-goal", "random-goal"]

    def setup(self, I, variant):
        nS = z3.Int("gen_nS")
        I.ctx.assume(nS >= 4)
        size = z3.Function("gen_size", I_, I_)
        j = z3.Int("gs_j")
        I.ctx.assume(z3.ForAll([j], z3.Implies(z3.And(0 <= j, j < nS), size(j) >= 1)))
        subs = SymSeq(nS, lambda i: SymV(size(ival(i)), "int"), "subnets")
        g = gen_obj(I, subnets=subs)
        rs, ru = z3.Real("r_sensitive"), z3.Real("r_user")
        I.ctx.assume(z3.And(rs > 0, ru > 0))
        S = Scope()
        S.extra.update(nS=nS, size=size, rs=rs, ru=ru, random=variant == "random-goal")
        S.a = {"self": g}
        S.call_args = ([g, SymV(rs, "real"), SymV(ru, "real"), variant == "random-goal"], {})
        return S

    def modifies(self, I, S):
        return [S.a["self"]]

    def ensures(self, I, S):
        nS, size, rs, ru = S.extra["nS"], S.extra["size"], S.extra["rs"], S.extra["ru"]
        d = S.a["self"].fields.get("sensitive_hosts")
        ok = isinstance(d, PyDict)
        out = [("C15.sensitive-hosts-is-dict", z3.BoolVal(ok))]
        if not ok:
            return out
        ents = [(k, v) for k, v in d.d.items()] + [(e[0], e[1]) for e in d.sym]
        out.append(("C15.exactly-two-sensitive-hosts", z3.BoolVal(len(ents) == 2)))
        if len(ents) != 2:
            return out
        (k1, v1), (k2, v2) = ents
        out.append(("C15.sensitive-subnet-host", z3.And(z3.BoolVal(k1 == (2, 0)), rval(v1) == rs)))
        s2, h2 = ival(k2[0]), ival(k2[1])
        out.append(("C15.one-user-host", z3.And(3 <= s2, s2 < nS, 0 <= h2, h2 < size(s2), rval(v2) == ru)))
        if not S.extra["random"]:
            out.append(("C15.fixed-goal-is-last-user-host", z3.And(s2 == nS - 1, h2 == size(nS - 1) - 1)))
        return out


# ---------------------------------------------------------------------------- _get_action_probs

@loop_contract
class ActionProbsLoop(LoopContract):
    qualname = GQ + "_get_action_probs"
    ordinal = 0
    tags = ("C15",)

    def snapshot(self, I, fr, seq):
        return {}

    def havoc(self, I, fr, entry, seq):
        fr.locals.pop("a", None)

    def inv(self, I, fr, entry, seq, k):
        j = z3.Int("ap_j")
        p = fr.locals["action_probs"]
        return [("earlier-in-range", z3.ForAll([j], z3.Implies(z3.And(0 <= j, j < k),
                                                              z3.And(rval(p.elem(j)) > 0, rval(p.elem(j)) <= 1))))]


@contract
class GetActionProbs(Contract):
    may_draw = True
    qualname = GQ + "_get_action_probs"
    callable_by_contract = False
    bounded = False
    tags = {"": ("C15",)}

    def variants(self):
        return ["none", "mixed-1", "mixed-n", "list-valid", "list-any", "float"]

    def setup(self, I, variant):
        n = z3.Int("num_actions")
        I.ctx.assume(n >= 1)
        g = gen_obj(I)
        S = Scope()
        S.extra.update(n=n, variant=variant)
        pf = z3.Function("given_prob", I_, R_)
        j = z3.Int("gp_j")
        if variant == "none":
            arg = None
        elif variant.startswith("mixed"):
            arg = "mixed"
            if variant == "mixed-1":
                I.ctx.assume(n == 1)
            else:
                I.ctx.assume(n > 1)
        elif variant.startswith("list"):
            arg = SymSeq(n, lambda i: SymV(pf(ival(i)), "real"), "list")
            if variant == "list-valid":
                I.ctx.assume(z3.ForAll([j], z3.Implies(z3.And(0 <= j, j < n), z3.And(pf(j) > 0, pf(j) <= 1))))
        else:
            p = z3.Real("given_p")
            I.ctx.assume(z3.And(p > 0, p <= 1))
            S.extra["p"] = p
            arg = SymV(p, "real")
        S.extra["pf"] = pf
        S.a = {"self": g}
        S.call_args = ([g, SymV(n, "int"), arg], {})
        return S

    def allowed_exception(self, I, S, exc):
        # only an out-of-range entry of a caller-supplied list may be rejected
        if S.extra["variant"] == "list-any" and exc.kind == "AssertionError":
            n, pf = S.extra["n"], S.extra["pf"]
            j = z3.Int("bad_j")
            return z3.Exists([j], z3.And(0 <= j, j < n, z3.Not(z3.And(pf(j) > 0, pf(j) <= 1))))
        return False

    def ensures(self, I, S):
        n, v = S.extra["n"], S.extra["variant"]
        r = S.result
        ok = isinstance(r, SymSeq)
        out = [("C15.probs-is-sequence", z3.BoolVal(ok))]
        if not ok:
            return out
        j = z3.Int("pr_j")
        inr = z3.And(0 <= j, j < n)
        e = rval(r.elem(j))
        out.append(("C15.one-probability-per-action", ival(r.n) == n))
        if v == "none":
            # A-RNG0 (listed assumption): random_sample never returns exactly 0.0
            out.append(("C15.generated-probs-in-unit-interval", z3.Implies(inr, z3.And(e >= 0, e < 1))))
        elif v == "mixed-1":
            out.append(("C15.mixed-levels", z3.Implies(inr, z3.Or(e == z3.RealVal("0.6"), e == z3.RealVal("0.9")))))
        elif v == "mixed-n":
            out.append(("C15.mixed-levels", z3.Implies(inr, z3.Or(e == z3.RealVal("0.3"), e == z3.RealVal("0.6"),
                                                                  e == z3.RealVal("0.9")))))
        elif v.startswith("list"):
            out.append(("C15.requested-probs", z3.Implies(inr, z3.And(e == S.extra["pf"](j), e > 0, e <= 1))))
        else:
            out.append(("C15.requested-probs", z3.Implies(inr, e == S.extra["p"])))
        return out


# ---------------------------------------------------------------------------- _convert_to_*_map / _get_host_value
# the name -> bool maps of a generated host: keys = the generator's name lists in list order (what HostVector.vectorize /
# _initialize rely on), value = the drawn configuration (names 0..n-1 stand for the generated "srv_i" / "proc_i" / "os_i")

from pyvc.values import SDict, SymDict, NameK, nameval
from pyvc.contract import store_target, loop_assigned

cfg_bit = z3.Function("gen_cfg_bit", I_, B_)


def gen_names(n, label):
    return SymSeq(n, lambda j: mk(ival(j), "name"), label)


def conv_spec(d, k, val_of):
    x = z3.Int("cv_x")
    ks = z3.simplify(k) if z3.is_expr(k) else z3.IntVal(k)
    if isinstance(d, PyDict):
        # concrete-length run (loop unrolled): an ordinary dict with literal keys
        if not z3.is_int_value(ks) or d.sym:
            return [("map-holds-the-first-names", z3.BoolVal(False))]
        kk = ks.as_long()
        want = [NameK(i) for i in range(kk)]
        keys = list(d.d.keys())
        cs = [z3.BoolVal(keys == want)]
        if keys == want:
            cs += [bval(d.d[NameK(i)]) == val_of(z3.IntVal(i)) for i in range(kk)]
        return [("map-holds-the-first-names", z3.And(*cs))]
    if not isinstance(d, SDict):
        return [("map-holds-the-first-names", z3.BoolVal(False))]
    return [("keys-are-the-first-names", z3.ForAll([x], z3.Select(d.dom, x) == z3.And(0 <= x, x < k))),
            ("values-are-the-configuration", z3.ForAll([x], z3.Implies(z3.And(0 <= x, x < k), z3.Select(d.val, x) == val_of(x))))]


class _ConvLoop(LoopContract):
    ordinal = 0
    tags = ("C15", "C09")
    names_field = None

    def snapshot(self, I, fr, seq):
        return {"var": store_target(self.st)}

    def val_of(self, x):
        return cfg_bit(x)

    def havoc(self, I, fr, entry, seq):
        A = z3.ArraySort
        var = entry["var"]
        names = fr.locals["self"].fields[self.names_field]
        # ghost iteration order: names are inserted in list order and are pairwise distinct
        fr.locals[var] = SDict(1, "bool", I.ctx.fresh(var + "_dom", A(I_, B_)), I.ctx.fresh(var + "_val", A(I_, B_)),
                               keyseq=SymSeq(seq.n, names.elem, var + ".keys"), fresh=True, label=var)
        for t in loop_assigned(self.st):
            fr.locals.pop(t, None)

    def inv(self, I, fr, entry, seq, k):
        return conv_spec(fr.locals[entry["var"]], k, self.val_of)


@loop_contract
class ConvSrvLoop(_ConvLoop):
    qualname = GQ + "_convert_to_service_map"
    names_field = "services"


@loop_contract
class ConvProcLoop(_ConvLoop):
    qualname = GQ + "_convert_to_process_map"
    names_field = "processes"


@loop_contract
class ConvOsLoop(_ConvLoop):
    qualname = GQ + "_convert_to_os_map"
    names_field = "os"

    def val_of(self, x):
        return x == z3.Int("gen_host_os")


class _ConvertMap(Contract):
    callable_by_contract = False
    bounded = False
    tags = {"": ("C15", "C09")}
    names_field = None

    def setup(self, I, variant):
        # bounded stand-in task (driver phase 3): a literal length, the real loop is unrolled
        n = z3.IntVal(3) if I.ext_state.get("concrete") is not None else z3.Int("gen_n_names")
        I.ctx.assume(n >= 1)
        g = gen_obj(I, **{self.names_field: gen_names(n, self.names_field)})
        S = Scope()
        S.extra["n"] = n
        S.a = {"self": g}
        S.call_args = ([g, self.argument(n)], {})
        return S

    def argument(self, n):
        # one drawn configuration: a list of n booleans
        return SymSeq(n, lambda j: SymV(cfg_bit(ival(j)), "bool"), "list")

    def val_of(self, x):
        return cfg_bit(x)

    def ensures(self, I, S):
        d, n = S.result, S.extra["n"]
        out = [("C15.map-" + l, t) for l, t in conv_spec(d, n, self.val_of)]
        if isinstance(d, PyDict):
            return out              # literal keys: their order is part of map-holds-the-first-names
        if isinstance(d, SDict) and d.keyseq is not None:
            j = z3.Int("cv_kj")
            out.append(("C09.map-keys-in-list-order", z3.And(ival(d.keyseq.n) == n, z3.ForAll([j], z3.Implies(
                z3.And(0 <= j, j < n), nameval(d.keyseq.elem(j)) == j)))))
        else:
            out.append(("C09.map-keys-in-list-order", z3.BoolVal(False)))
        return out


@contract
class ConvertToServiceMap(_ConvertMap):
    qualname = GQ + "_convert_to_service_map"
    names_field = "services"


@contract
class ConvertToProcessMap(_ConvertMap):
    qualname = GQ + "_convert_to_process_map"
    names_field = "processes"


@contract
class ConvertToOsMap(_ConvertMap):
    """exactly the drawn OS is marked as running"""
    qualname = GQ + "_convert_to_os_map"
    names_field = "os"

    def argument(self, n):
        return SymV(z3.Int("gen_host_os"), "name")

    def val_of(self, x):
        return x == z3.Int("gen_host_os")


@contract
class GenGetHostValue(Contract):
    """value of a generated host: its sensitive value if it is a sensitive host, else the base host value"""
    qualname = GQ + "_get_host_value"
    callable_by_contract = False
    bounded = False
    tags = {"": ("C15",)}

    def setup(self, I, variant):
        sens = z3.Function("gen_is_sensitive", I_, I_, B_)
        sval = z3.Function("gen_sensitive_value", I_, I_, R_)
        a, b, base = z3.Int("gen_addr_s"), z3.Int("gen_addr_h"), z3.Real("gen_base_value")
        sh = SymDict(lambda k: sens(ival(k[0]), ival(k[1])), lambda k: mk(sval(ival(k[0]), ival(k[1])), "real"), label="sensitive_hosts")
        g = gen_obj(I, sensitive_hosts=sh, base_host_value=SymV(base, "real"))
        S = Scope()
        S.extra.update(want=z3.If(sens(a, b), sval(a, b), base))
        S.a = {"self": g}
        S.call_args = ([g, (SymV(a, "int"), SymV(b, "int"))], {})
        return S

    def ensures(self, I, S):
        return [("C15.host-value", rval(S.result) == S.extra["want"])]


# ---------------------------------------------------------------------------- _generate_exploits (partial correctness)
# The retry loop draws (service, os, access) until `num_exploits` distinct names exist.  Partial correctness: IF it ends,
# the table has exactly the requested number of entries, each referring to a defined service, a defined OS or None, the
# requested cost and probability, and a valid access level.  (Termination is a separate matter: see the recorded finding
# "exploit names exhausted".)  Names are f-strings of the drawn service / OS: ASSUMED to be functions of their parts.

from pyvc.values import RecDict, NONE_ID

EXPL_FIELDS = (("service", "name"), ("os", "name"), ("prob", "real"), ("cost", "real"), ("access", "int"))


def expl_table_ok(I, d, count):
    """every entry of the record dict refers to defined names and carries the requested cost / probability"""
    e = I.ext_state["gex"]
    if isinstance(d, PyDict):
        zero = z3.is_int_value(z3.simplify(count)) and z3.simplify(count).as_long() == 0
        return [("table-holds-the-exploits-added-so-far", z3.BoolVal(bool(zero and not d.d and not d.sym)))]
    if not isinstance(d, RecDict):
        return [("table-holds-the-exploits-added-so-far", z3.BoolVal(False))]
    k = z3.Int("gex_k")
    col = lambda f: z3.Select(d.cols[f][0], k)
    return [("one-entry-per-exploit-added", d.size == count),
            ("entries-are-well-formed", z3.ForAll([k], z3.Implies(z3.Select(d.dom, k), z3.And(
                0 <= col("service"), col("service") < e["nSrv"],
                z3.Or(col("os") == NONE_ID, z3.And(0 <= col("os"), col("os") < e["nOS"])),
                col("prob") == e["p"], col("cost") == e["cost"], z3.Or(col("access") == 1, col("access") == 2)))))]


@loop_contract
class GenerateExploitsLoop(LoopContract):
    qualname = GQ + "_generate_exploits"
    ordinal = 0
    tags = ("C15",)

    def snapshot(self, I, fr, seq):
        import ast
        from pyvc.values import EngineLimit
        # the counter the guard compares with the requested number, and the table the body fills - by role
        names = {n.id for n in ast.walk(self.st.test) if isinstance(n, ast.Name)} & \
            {n.target.id for n in ast.walk(self.st) if isinstance(n, ast.AugAssign) and isinstance(n.target, ast.Name)}
        if len(names) != 1:
            raise EngineLimit("retry loop without a single counter in its guard")
        return {"counter": names.pop(), "table": store_target(self.st)}

    def havoc(self, I, fr, entry, seq):
        A = z3.ArraySort
        srt = {"name": I_, "int": I_, "real": R_}
        cols = {f: (I.ctx.fresh("gex_" + f, A(I_, srt[k])), k) for f, k in EXPL_FIELDS}
        for v in loop_assigned(self.st):
            fr.locals.pop(v, None)
        fr.locals[entry["table"]] = RecDict(I.ctx.fresh("gex_dom", A(I_, B_)), cols, I.ctx.fresh("gex_size", I_), fresh=True,
                                            label=entry["table"])
        fr.locals[entry["counter"]] = SymV(I.ctx.fresh("gex_added", I_), "int")

    def inv(self, I, fr, entry, seq, k):
        e = I.ext_state["gex"]
        added = ival(fr.locals[entry["counter"]])
        return [("counter-in-range", z3.And(0 <= added, added <= e["n"]))] + expl_table_ok(I, fr.locals[entry["table"]], added)


@contract
class GenerateExploits(Contract):
    standin_by_monitor = True     # bounded stand-in when out of the engine's reach: the generator run-time monitor
    may_draw = True
    qualname = GQ + "_generate_exploits"
    callable_by_contract = False
    bounded = False
    tags = {"": ("C15",)}

    def setup(self, I, variant):
        n, nSrv, nOS = z3.Int("num_exploits"), z3.Int("gen_nSrv"), z3.Int("gen_nOS")
        p, cost = z3.Real("exploit_prob"), z3.Real("exploit_cost")
        I.ctx.assume(z3.And(n >= 1, nSrv >= 1, nOS >= 1, p > 0, p <= 1))
        I.ext_state["gex"] = {"n": n, "nSrv": nSrv, "nOS": nOS, "p": p, "cost": cost}
        g = gen_obj(I, services=gen_names(nSrv, "services"), os=gen_names(nOS, "os"))
        S = Scope()
        S.a = {"self": g}
        S.call_args = ([g, SymV(n, "int"), SymV(cost, "real"), SymV(p, "real")], {})
        return S

    def modifies(self, I, S):
        return [S.a["self"]]

    def ensures(self, I, S):
        d = S.a["self"].fields.get("exploits")
        e = I.ext_state["gex"]
        return [("C15.exploits-" + l, t) for l, t in expl_table_ok(I, d, e["n"])]


# ---------------------------------------------------------------------------- _generate_os / _services / _processes
# exactly the requested number of names, pairwise distinct (f"os_{i}": the decimal rendering of i inside constant text is
# ASSUMED injective in i)

class _GenerateNames(Contract):
    standin_by_monitor = True     # bounded stand-in when out of the engine's reach: the generator run-time monitor
    callable_by_contract = False
    bounded = False
    tags = {"": ("C15",)}
    field = None

    def setup(self, I, variant):
        n = z3.Int("gen_num_names")
        I.ctx.assume(n >= 1)
        g = gen_obj(I)
        S = Scope()
        S.extra["n"] = n
        S.a = {"self": g}
        S.call_args = ([g, SymV(n, "int")], {})
        return S

    def modifies(self, I, S):
        return [S.a["self"]]

    def ensures(self, I, S):
        n = S.extra["n"]
        seq = S.a["self"].fields.get(self.field)
        ok = isinstance(seq, SymSeq)
        out = [("C15.names-is-a-list", z3.BoolVal(ok))]
        if not ok:
            return out
        a, b = z3.Int("gn_a"), z3.Int("gn_b")
        out.append(("C15.requested-number-of-names", ival(seq.n) == n))
        out.append(("C15.names-pairwise-distinct", z3.ForAll([a, b], z3.Implies(
            z3.And(0 <= a, a < b, b < n), nameval(seq.elem(a)) != nameval(seq.elem(b))))))
        return out


@contract
class GenerateOs(_GenerateNames):
    qualname = GQ + "_generate_os"
    field = "os"


@contract
class GenerateServices(_GenerateNames):
    qualname = GQ + "_generate_services"
    field = "services"


@contract
class GenerateProcesses(_GenerateNames):
    qualname = GQ + "_generate_processes"
    field = "processes"


# ---------------------------------------------------------------------------- _generate_privescs (partial correctness)
# as _generate_exploits; the OS of the k-th escalation is pre-drawn (os_choices), every escalation grants ROOT

PRIV_FIELDS = (("process", "name"), ("os", "name"), ("prob", "real"), ("cost", "real"), ("access", "int"))


def priv_table_ok(I, d, count):
    e = I.ext_state["gpe"]
    if isinstance(d, PyDict):
        zero = z3.is_int_value(z3.simplify(count)) and z3.simplify(count).as_long() == 0
        return [("table-holds-the-escalations-added-so-far", z3.BoolVal(bool(zero and not d.d and not d.sym)))]
    if not isinstance(d, RecDict):
        return [("table-holds-the-escalations-added-so-far", z3.BoolVal(False))]
    k = z3.Int("gpe_k")
    col = lambda f: z3.Select(d.cols[f][0], k)
    return [("one-entry-per-escalation-added", d.size == count),
            ("entries-are-well-formed", z3.ForAll([k], z3.Implies(z3.Select(d.dom, k), z3.And(
                0 <= col("process"), col("process") < e["nProc"],
                z3.Or(col("os") == NONE_ID, z3.And(0 <= col("os"), col("os") < e["nOS"])),
                col("prob") == e["p"], col("cost") == e["cost"], col("access") == 2))))]


@loop_contract
class PrivescOsChoicesLoop(LoopContract):
    """`while True:` redraw the OS choices until they cover every OS (or contain None); nothing is carried between rounds"""
    qualname = GQ + "_generate_privescs"
    ordinal = 0
    tags = ("C15",)

    def snapshot(self, I, fr, seq):
        return {}

    def havoc(self, I, fr, entry, seq):
        for v in loop_assigned(self.st):
            fr.locals.pop(v, None)

    def inv(self, I, fr, entry, seq, k):
        return []


@loop_contract
class GeneratePrivescsLoop(GenerateExploitsLoop):
    qualname = GQ + "_generate_privescs"
    ordinal = 1

    def havoc(self, I, fr, entry, seq):
        A = z3.ArraySort
        srt = {"name": I_, "int": I_, "real": R_}
        cols = {f: (I.ctx.fresh("gpe_" + f, A(I_, srt[k])), k) for f, k in PRIV_FIELDS}
        for v in loop_assigned(self.st):
            fr.locals.pop(v, None)
        fr.locals[entry["table"]] = RecDict(I.ctx.fresh("gpe_dom", A(I_, B_)), cols, I.ctx.fresh("gpe_size", I_), fresh=True,
                                            label=entry["table"])
        fr.locals[entry["counter"]] = SymV(I.ctx.fresh("gpe_added", I_), "int")

    def inv(self, I, fr, entry, seq, k):
        e = I.ext_state["gpe"]
        added = ival(fr.locals[entry["counter"]])
        return [("counter-in-range", z3.And(0 <= added, added <= e["n"]))] + priv_table_ok(I, fr.locals[entry["table"]], added)


@contract
class GeneratePrivescs(Contract):
    standin_by_monitor = True     # bounded stand-in when out of the engine's reach: the generator run-time monitor
    may_draw = True
    qualname = GQ + "_generate_privescs"
    callable_by_contract = False
    bounded = False
    tags = {"": ("C15",)}

    def setup(self, I, variant):
        n, nProc, nOS = z3.Int("num_privescs"), z3.Int("gen_nProc"), z3.Int("gen_nOS")
        p, cost = z3.Real("privesc_prob"), z3.Real("privesc_cost")
        I.ctx.assume(z3.And(n >= 1, nProc >= 1, nOS >= 1, p > 0, p <= 1))
        I.ext_state["gpe"] = {"n": n, "nProc": nProc, "nOS": nOS, "p": p, "cost": cost}
        g = gen_obj(I, processes=gen_names(nProc, "processes"), os=gen_names(nOS, "os"))
        S = Scope()
        S.a = {"self": g}
        S.call_args = ([g, SymV(n, "int"), SymV(cost, "real"), SymV(p, "real")], {})
        return S

    def modifies(self, I, S):
        return [S.a["self"]]

    def ensures(self, I, S):
        d = S.a["self"].fields.get("privescs")
        e = I.ext_state["gpe"]
        return [("C15.privescs-" + l, t) for l, t in priv_table_ok(I, d, e["n"])]
