"""contracts.vocab -- the shared specification vocabulary (DESIGN.md section 4).

`Sigma` is the abstract scenario: sizes, address enumeration, topology, firewalls, host
configuration, exploit/escalation tables.  It can be *symbolic* (every size a z3 Int: the
unbounded mode) or *concrete-structured* (sizes are python ints, contents stay symbolic: the
bounded mode used for counterexample search).  The same z3 function symbols are used in both.

Names (services, OSs, processes) are integer-coded in scenario-list order: service k is the
k-th entry of scenario.services.  None is coded as NONE_ID (-1).
"""
import z3

from pyvc.values import (SymV, Obj, PyList, PyDict, SymSeq, SymDict, SymColl, NpCell, NpArr, ClassRef, Opaque, mk, ival,
                         rval, bval, nameval, NONE_ID, A1, A2, intern_name)

I_ = z3.IntSort()
R_ = z3.RealSort()
B_ = z3.BoolSort()

KINDS = ["Exploit", "PrivilegeEscalation", "ServiceScan", "OSScan", "SubnetScan", "ProcessScan", "NoOp"]


def Fn(name, *sorts):
    return z3.Function(name, *sorts)


class Sigma:
    def __init__(self, tag="", concrete=None):
        """concrete: None or dict(subnets=[1, n1, n2, ...] (incl. internet), n_os, n_srv, n_proc, n_sens)"""
        self.tag = tag
        t = tag
        self.concrete = concrete
        if concrete is None:
            self.N = z3.Int("N" + t)
            self.nS = z3.Int("nS" + t)
            self.nOS = z3.Int("nOS" + t)
            self.nSrv = z3.Int("nSrv" + t)
            self.nProc = z3.Int("nProc" + t)
            self.nSens = z3.Int("nSens" + t)
            self.addrs = None
        else:
            subs = concrete["subnets"]
            self.addrs = [(s, h) for s in range(1, len(subs)) for h in range(subs[s])]
            if concrete.get("addr_perm"):
                # hosts listed out of canonical address order (valid: the host order is the scenario dict's)
                self.addrs = [self.addrs[i] for i in concrete["addr_perm"]]
            self.N = len(self.addrs)
            self.nS = len(subs)
            self.nOS = concrete.get("n_os", 2)
            self.nSrv = concrete.get("n_srv", 2)
            self.nProc = concrete.get("n_proc", 2)
            self.nSens = concrete.get("n_sens", 1)
        if concrete is None or concrete.get("symbolic_bounds"):
            self.B0 = z3.Int("B0" + t)
            self.B1 = z3.Int("B1" + t)
        else:
            # bounded mode: concrete (custom, larger than minimal) address-space bounds -> concrete vector width
            b = concrete.get("bounds") or (len(concrete["subnets"]) + 1, max(concrete["subnets"][1:]) + 1)
            self.B0, self.B1 = int(b[0]), int(b[1])
        self.asub = Fn("asub" + t, I_, I_)
        self.ahid = Fn("ahid" + t, I_, I_)
        self.hnum = Fn("hnum" + t, I_, I_, I_)
        self.size = Fn("size" + t, I_, I_)
        self.topo = Fn("topo" + t, I_, I_, I_)
        self.allow = Fn("allow" + t, I_, I_, I_, B_)            # (src subnet, dst subnet, service) in firewall list
        self.fwdom = Fn("fwdom" + t, I_, I_, B_)               # firewall dict has key (src, dst)
        self.deny = Fn("deny" + t, I_, I_, I_, I_, I_, B_)      # host (ds,dh) denies service from source (ss,sh)
        self.hfwdom = Fn("hfwdom" + t, I_, I_, I_, I_, B_)
        self.hval = Fn("hval" + t, I_, R_)                     # host value by host number
        self.dval = Fn("dval" + t, I_, R_)
        self.os_of = Fn("os_of" + t, I_, I_, B_)               # host number, OS name -> runs it
        self.srv_of = Fn("srv_of" + t, I_, I_, B_)
        self.proc_of = Fn("proc_of" + t, I_, I_, B_)
        self.ssub = Fn("ssub" + t, I_, I_)                     # sensitive address list
        self.shid = Fn("shid" + t, I_, I_)
        self.sval = Fn("sval" + t, I_, R_)
        self.sval2 = Fn("sval_at" + t, I_, I_, R_)             # sensitive value by address
        # exploit / escalation tables (definition order = scenario dict order); names are coded by index
        if concrete is None:
            self.nE = z3.Int("nE" + t)
            self.nP = z3.Int("nP" + t)
        else:
            self.nE = concrete.get("n_exploits", 2)
            self.nP = concrete.get("n_privescs", 1)
        self.e_srv = Fn("e_srv" + t, I_, I_)
        self.e_os = Fn("e_os" + t, I_, I_)
        self.e_prob = Fn("e_prob" + t, I_, R_)
        self.e_cost = Fn("e_cost" + t, I_, R_)
        self.e_access = Fn("e_access" + t, I_, I_)
        self.p_proc = Fn("p_proc" + t, I_, I_)
        self.p_os = Fn("p_os" + t, I_, I_)
        self.p_prob = Fn("p_prob" + t, I_, R_)
        self.p_cost = Fn("p_cost" + t, I_, R_)
        self.p_access = Fn("p_access" + t, I_, I_)
        self.step_limit_set = z3.Bool("has_step_limit" + t)
        self.step_limit = z3.Int("step_limit" + t)
        # scan costs
        self.cost_srv = z3.Real("service_scan_cost" + t)
        self.cost_os = z3.Real("os_scan_cost" + t)
        self.cost_sub = z3.Real("subnet_scan_cost" + t)
        self.cost_proc = z3.Real("process_scan_cost" + t)
        self._qn = 0

    # ------------------------------------------------------------------ helpers
    @property
    def symbolic(self):
        return self.concrete is None

    def addr(self, i):
        if self.addrs is not None and isinstance(i, int):
            return self.addrs[i]
        return (mk(self.asub(ival(i)), "int"), mk(self.ahid(ival(i)), "int"))

    def asub_t(self, i):
        if self.addrs is not None and isinstance(i, int):
            return z3.IntVal(self.addrs[i][0])
        return self.asub(ival(i))

    def ahid_t(self, i):
        if self.addrs is not None and isinstance(i, int):
            return z3.IntVal(self.addrs[i][1])
        return self.ahid(ival(i))

    def qvar(self, base="q"):
        self._qn += 1
        return z3.Int(f"{base}{self.tag}_{self._qn}")

    def forall_hosts(self, fn, base="i"):
        """conjunction over hosts (concrete) or a quantifier (symbolic)"""
        if not self.symbolic:
            return z3.And(*[fn(i) for i in range(self.N)]) if self.N else z3.BoolVal(True)
        i = self.qvar(base)
        return z3.ForAll([i], z3.Implies(z3.And(0 <= i, i < self.N), fn(i)))

    def exists_hosts(self, fn, base="c"):
        if not self.symbolic:
            return z3.Or(*[fn(i) for i in range(self.N)]) if self.N else z3.BoolVal(False)
        i = self.qvar(base)
        return z3.Exists([i], z3.And(0 <= i, i < self.N, fn(i)))

    def forall_range(self, n, fn, base="j"):
        if isinstance(n, int):
            return z3.And(*[fn(i) for i in range(n)]) if n else z3.BoolVal(True)
        j = self.qvar(base)
        return z3.ForAll([j], z3.Implies(z3.And(0 <= j, j < n), fn(j)))

    def rows_spec(self, T0, T1, k, upd, newrow, base="rw"):
        """T1's rows: row j = newrow(j) if 0<=j<k and upd(j) else T0[j]; every other row unchanged.
        symbolic: a quantified formula; concrete (k a python int): an explicit Store chain (QF)."""
        if isinstance(k, int):
            cur = T0
            for j in range(k):
                jj = z3.IntVal(j)
                r0 = z3.Select(T0, jj)
                cur = z3.Store(cur, jj, z3.If(upd(j), newrow(j), r0))
            return T1 == cur
        j = self.qvar(base)
        r0 = z3.Select(T0, j)
        return z3.ForAll([j], z3.Select(T1, j) == z3.If(z3.And(0 <= j, j < k, upd(j)), newrow(j), r0))

    def Nk(self):
        """the host count in the form rows_spec/psum want it"""
        return self.N if isinstance(self.N, int) else self.N

    def exists_range(self, n, fn, base="x"):
        if isinstance(n, int):
            return z3.Or(*[fn(i) for i in range(n)]) if n else z3.BoolVal(False)
        j = self.qvar(base)
        return z3.Exists([j], z3.And(0 <= j, j < n, fn(j)))

    def valid_addr(self, s, h):
        s, h = ival(s), ival(h)
        return z3.And(1 <= s, s < self.nS, 0 <= h, h < self.size(s))

    def connected(self, a, b):
        return self.topo(ival(a), ival(b)) == 1

    def public(self, s):
        return self.topo(ival(s), z3.IntVal(0)) == 1

    # ------------------------------------------------------------------ WFS
    def wfs(self):
        """well-formedness of the scenario: list of z3 Bool (assumed as precondition)"""
        ax = []
        nS, N = self.nS, self.N
        if self.symbolic:
            ax += [nS >= 2, N >= 1, self.nOS >= 1, self.nSrv >= 1, self.nProc >= 1, self.nSens >= 1]
        ax += [z3.BoolVal(True) if isinstance(self.B0, int) and isinstance(nS, int) and self.B0 >= nS else self.B0 >= nS,
               z3.BoolVal(True) if isinstance(self.B1, int) and self.B1 >= 1 else self.B1 >= 1]
        if not self.symbolic:
            subs = self.concrete["subnets"]
            for which, f1, f2 in (("e_shape", self.e_srv, self.e_os), ("p_shape", self.p_proc, self.p_os)):
                for e, (a_, b_) in enumerate(self.concrete.get(which) or []):
                    ax.append(z3.And(f1(z3.IntVal(e)) == (NONE_ID if a_ is None else a_),
                                     f2(z3.IntVal(e)) == (NONE_ID if b_ is None else b_)))
            for k, n in enumerate(subs):
                ax.append(self.size(z3.IntVal(k)) == n)
            for i, (a_s, a_h) in enumerate(self.addrs):
                ax.append(z3.And(self.asub(z3.IntVal(i)) == a_s, self.ahid(z3.IntVal(i)) == a_h))
        s = self.qvar("s")
        s2 = self.qvar("s")
        h = self.qvar("h")
        # subnet sizes positive, address bounds cover them
        ax.append(self.forall_range(nS, lambda a: z3.And(self.size(ival(a)) >= 1, self.size(ival(a)) <= self.B1), "s"))
        # topology entries are 0/1, self-connected
        ax.append(self.forall_range(nS, lambda a: self.forall_range(
            nS, lambda b: z3.Or(self.topo(ival(a), ival(b)) == 0, self.topo(ival(a), ival(b)) == 1), "sb"), "sa"))
        ax.append(self.forall_range(nS, lambda a: self.topo(ival(a), ival(a)) == 1, "s"))
        # addresses enumerate exactly the valid (subnet, host) pairs, hnum is the inverse
        ax.append(self.forall_hosts(lambda i: z3.And(self.valid_addr(self.asub_t(i), self.ahid_t(i)),
                                                     self.hnum(self.asub_t(i), self.ahid_t(i)) == i)))
        if self.symbolic:
            ax.append(z3.ForAll([s, h], z3.Implies(self.valid_addr(s, h),
                                                   z3.And(0 <= self.hnum(s, h), self.hnum(s, h) < N,
                                                          self.asub(self.hnum(s, h)) == s,
                                                          self.ahid(self.hnum(s, h)) == h))))
        # subnet firewall has an entry in both directions for every connected pair of distinct subnets
        ax.append(self.forall_range(nS, lambda a: self.forall_range(
            nS, lambda b: z3.Implies(z3.And(ival(a) != ival(b), z3.Or(self.connected(a, b), self.connected(b, a))),
                                     self.fwdom(ival(a), ival(b))), "sb"), "sa"))
        # sensitive hosts are valid addresses
        ax.append(self.forall_range(self.nSens, lambda j: self.valid_addr(self.ssub(ival(j)), self.shid(ival(j))), "sj"))
        ax.append(z3.Implies(self.step_limit_set, self.step_limit > 0))
        # exploit / escalation definitions reference defined names, probabilities in [0,1], access in {1,2}
        if self.symbolic:
            ax += [self.nE >= 0, self.nP >= 0]
        opt = lambda v, n: z3.Or(v == NONE_ID, z3.And(0 <= v, v < n))
        ax.append(self.forall_range(self.nE, lambda e: z3.And(
            0 <= self.e_srv(ival(e)), self.e_srv(ival(e)) < self.nSrv, opt(self.e_os(ival(e)), self.nOS),
            0 <= self.e_prob(ival(e)), self.e_prob(ival(e)) <= 1,
            z3.Or(self.e_access(ival(e)) == 1, self.e_access(ival(e)) == 2)), "we"))
        ax.append(self.forall_range(self.nP, lambda e: z3.And(
            opt(self.p_proc(ival(e)), self.nProc), opt(self.p_os(ival(e)), self.nOS),
            0 <= self.p_prob(ival(e)), self.p_prob(ival(e)) <= 1,
            z3.Or(self.p_access(ival(e)) == 1, self.p_access(ival(e)) == 2)), "wp"))
        return ax

    # ------------------------------------------------------------------ python-side objects
    def addr_seq(self):
        if not self.symbolic:
            return PyList(list(self.addrs), fresh=False)
        return SymSeq(self.N, lambda i: self.addr(i), "address_space")

    def host_num_map(self):
        if not self.symbolic:
            return PyDict({a: i for i, a in enumerate(self.addrs)}, fresh=False)
        return SymDict(lambda k: self.valid_addr(k[0], k[1]),
                       lambda k: mk(self.hnum(ival(k[0]), ival(k[1])), "int"),
                       keys=self.addr_seq(), label="host_num_map")

    def subnets_seq(self):
        n = self.nS
        return SymSeq(n, lambda s: mk(self.size(ival(s)), "int"), "subnets")

    def topology_seq(self):
        n = self.nS
        return SymSeq(n, lambda a: SymSeq(n, lambda b, a=a: mk(self.topo(ival(a), ival(b)), "int"), "topo-row"),
                      "topology")

    def firewall_dict(self):
        return SymDict(lambda k: self.fwdom(ival(k[0]), ival(k[1])),
                       lambda k: SymColl(lambda x, k=k: self.allow(ival(k[0]), ival(k[1]), nameval(x)), "fw-list",
                                         nonempty=self.exists_range(self.nSrv, lambda x, k=k: self.allow(
                                             ival(k[0]), ival(k[1]), ival(x)), "ne")),
                       label="firewall")

    def host_obj(self, I, key):
        hostcls = I.repo.cls("nasim.scenarios.host.Host")
        ks, kh = ival(key[0]), ival(key[1])
        i = self.hnum(ks, kh) if self.symbolic else None
        if not self.symbolic:
            # concrete address
            idx = self.addrs.index((key[0], key[1]))
            hv, dv = self.hval(z3.IntVal(idx)), self.dval(z3.IntVal(idx))
        else:
            hv, dv = self.hval(i), self.dval(i)
        fw = SymDict(lambda k: self.hfwdom(ks, kh, ival(k[0]), ival(k[1])),
                     lambda k: SymColl(lambda x, k=k: self.deny(ks, kh, ival(k[0]), ival(k[1]), nameval(x)),
                                       "host-deny-list"),
                     label="host-firewall")
        hn = z3.IntVal(idx) if not self.symbolic else i
        cfg = lambda n, f, lab: SymDict(
            lambda k: z3.And(0 <= nameval(k), nameval(k) < n), lambda k: mk(f(hn, nameval(k)), "bool"),
            keys=SymSeq(n, lambda j: mk(ival(j), "name"), lab + ".keys"),
            label=lab)
        return Obj(hostcls, {"address": key, "firewall": fw, "value": mk(hv, "real"),
                             "discovery_value": mk(dv, "real"), "compromised": False, "reachable": False,
                             "discovered": False, "access": 0,
                             "os": cfg(self.nOS, self.os_of, "host.os"),
                             "services": cfg(self.nSrv, self.srv_of, "host.services"),
                             "processes": cfg(self.nProc, self.proc_of, "host.processes")},
                   fresh=False, label="Host")

    def hosts_dict(self, I):
        if not self.symbolic:
            return PyDict({a: self.host_obj(I, a) for a in self.addrs}, fresh=False)
        return SymDict(lambda k: self.valid_addr(k[0], k[1]), lambda k: self.host_obj(I, k),
                       keys=self.addr_seq(), label="hosts")

    def sensitive_seq(self):
        return SymSeq(self.nSens, lambda j: (mk(self.ssub(ival(j)), "int"), mk(self.shid(ival(j)), "int")),
                      "sensitive_addresses")

    def name_seq(self, n, label):
        return SymSeq(n, lambda k: mk(ival(k), "name"), label)

    def _shape(self, which, e, col):
        """concrete table shape (bounded mode only): concrete['e_shape'][e] = (service, os) with None for no OS"""
        sh = (self.concrete or {}).get(which)
        if sh is None or not isinstance(e, int):
            return None
        v = sh[e][col]
        return ("none",) if v is None else v

    def exploit_def(self, e):
        sv, ov = self._shape("e_shape", e, 0), self._shape("e_shape", e, 1)
        if sv is not None:
            from pyvc.values import NameK
            ee = z3.IntVal(e)
            return PyDict({"service": NameK(sv), "os": None if ov == ("none",) else NameK(ov),
                           "prob": mk(self.e_prob(ee), "real"), "cost": mk(self.e_cost(ee), "real"),
                           "access": mk(self.e_access(ee), "int")}, fresh=False)
        e = ival(e)
        return PyDict({"service": mk(self.e_srv(e), "name"), "os": mk(self.e_os(e), "name"),
                       "prob": mk(self.e_prob(e), "real"), "cost": mk(self.e_cost(e), "real"),
                       "access": mk(self.e_access(e), "int")}, fresh=False)

    def privesc_def(self, p):
        sv, ov = self._shape("p_shape", p, 0), self._shape("p_shape", p, 1)
        if sv is not None:
            from pyvc.values import NameK
            pp = z3.IntVal(p)
            return PyDict({"process": NameK(sv), "os": None if ov == ("none",) else NameK(ov),
                           "prob": mk(self.p_prob(pp), "real"), "cost": mk(self.p_cost(pp), "real"),
                           "access": mk(self.p_access(pp), "int")}, fresh=False)
        p = ival(p)
        return PyDict({"process": mk(self.p_proc(p), "name"), "os": mk(self.p_os(p), "name"),
                       "prob": mk(self.p_prob(p), "real"), "cost": mk(self.p_cost(p), "real"),
                       "access": mk(self.p_access(p), "int")}, fresh=False)

    def table_dict(self, n, deffn, label):
        """exploits / privilege_escalation section: name e (coded e + 500000) -> definition dict"""
        off = 500000
        keys = SymSeq(n, lambda e: mk(ival(e) + off, "name"), label + ".keys")
        return SymDict(lambda k: z3.And(off <= nameval(k), nameval(k) < off + n),
                       lambda k: deffn(k.k - off if hasattr(k, "k") else nameval(k) - off), keys=keys, label=label)

    def scenario_obj(self, I, with_bounds=True, limit=None):
        """a Scenario object over this Sigma (its scenario_dict holds the symbolic containers)"""
        sccls = I.repo.cls("nasim.scenarios.scenario.Scenario")
        d = {"subnets": self.subnets_seq(), "topology": self.topology_seq(),
             "os": self.name_seq(self.nOS, "scenario.os"), "services": self.name_seq(self.nSrv, "scenario.services"),
             "processes": self.name_seq(self.nProc, "scenario.processes"),
             "sensitive_hosts": SymDict(lambda k: self.exists_range(self.nSens, lambda j: z3.And(
                 self.ssub(ival(j)) == ival(k[0]), self.shid(ival(j)) == ival(k[1])), "sh"),
                 lambda k: mk(self.sval2(ival(k[0]), ival(k[1])), "real"), keys=self.sensitive_seq(), label="sensitive_hosts"),
             "exploits": self.table_dict(self.nE, self.exploit_def, "exploits"),
             "privilege_escalation": self.table_dict(self.nP, self.privesc_def, "privescs"),
             "service_scan_cost": mk(self.cost_srv, "real"), "os_scan_cost": mk(self.cost_os, "real"),
             "subnet_scan_cost": mk(self.cost_sub, "real"), "process_scan_cost": mk(self.cost_proc, "real"),
             "firewall": self.firewall_dict(), "host": self.hosts_dict(I),
             "step_limit": None if limit is None else mk(self.step_limit, "int")}
        if with_bounds:
            d["address_space_bounds"] = (mk(self.B0, "int"), mk(self.B1, "int"))
        # built by the REAL Scenario.__init__ (its enumerate loop is under a loop contract, see c_action.ScenarioInit);
        # the host-number map it builds is then replaced by the canonical symbolic map the contract proves it equal to
        sc = Obj(sccls, {}, fresh=True, label="scenario")
        mem = I.find_member(sccls, "__init__")
        I.ext_state.setdefault("sig", self)
        n_obl = len(I.ctx.obligations)
        try:
            I.call_function(mem[1], [sc, PyDict(d, fresh=False)], {"name": "scn", "generated": False})
        except Exception as e:      # noqa
            from pyvc.values import EngineLimit
            from pyvc.interp import PyExc, PathEnd
            if isinstance(e, (PyExc, PathEnd)) or I.ext_state.get("verifying_scenario_init"):
                raise
            # the constructor on this tree is out of the engine's reach: the harness uses the POSTCONDITION of
            # Scenario.__init__ instead (its own contract - ScenarioInit - is decided separately, by a bounded stand-in
            # if need be): the fields the documented constructor sets, host numbers in the order of the host section
            del I.ctx.obligations[n_obl:]
            sc = Obj(sccls, {"scenario_dict": PyDict(d, fresh=False), "name": "scn", "generated": False,
                             "_e_map": None, "_pe_map": None}, fresh=True, label="scenario")
            sc.model_object = True
            I.ext_state["scenario_ctor_out_of_reach"] = f"{type(e).__name__}: {str(e)[:100]}"
        sc.fresh = False
        sc.fields["host_num_map"] = self.host_num_map()
        I.ctx.writes[:] = [w for w in I.ctx.writes if not (w[0] == "field" and w[1] is sc)]
        return sc

    def network_obj(self, I):
        """the Network object: built by running the REAL Network.__init__ on the symbolic scenario, so fields the
        code derives from the scenario exist exactly as the code computes them.  Fields that some method other than
        __init__ writes (hidden mutable state: caches, flags) are then havoced - the contracts speak about an
        arbitrary point of an arbitrary history, where such a field can hold anything of its kind."""
        netcls = I.repo.cls("nasim.envs.network.Network")
        sc = self.scenario_obj(I)
        from pyvc.interp import PyExc
        net = Obj(netcls, {}, fresh=True, label="network")
        mem = I.find_member(netcls, "__init__")
        from pyvc.values import EngineLimit
        try:
            I.call_function(mem[1], [net, sc], {})
        except EngineLimit:
            if not I.ext_state.get("tolerate_ctor_limit"):
                raise
            # run-time fallback only: the real object is built natively; here a carrier of the scenario's fields suffices
            net = Obj(netcls, {k: I.getattr_value(sc, k) for k in ("hosts", "host_num_map", "subnets", "topology", "firewall",
                                                                    "address_space", "address_space_bounds",
                                                                    "sensitive_addresses", "sensitive_hosts")},
                      fresh=True, label="network")
        net.fresh = False
        mark_preexisting(net)
        net.hidden = set()
        for name in mutable_fields(netcls):
            if name in net.fields:
                net.fields[name] = havoc_like(I, net.fields[name], "net_" + name)
                net.hidden.add(name)
        I.ctx.writes[:] = [w for w in I.ctx.writes if not (w[0] == "field" and w[1] is net)]
        return net

    # ------------------------------------------------------------------ layout (HostVector class attributes)
    def layout(self):
        return Layout(self)

    def install_layout(self, I):
        """global heap precondition: HostVector's class attributes equal Layout(Sigma)"""
        L = self.layout()
        hv = I.repo.cls("nasim.envs.host_vector.HostVector")
        I.ensure_class_state(hv)
        st = I.class_state[hv.qualname]
        st["address_space_bounds"] = (mk(self.B0, "int"), mk(self.B1, "int"))
        st["num_os"] = mk(ival(self.nOS), "int")
        st["num_services"] = mk(ival(self.nSrv), "int")
        st["num_processes"] = mk(ival(self.nProc), "int")
        st["state_size"] = mk(L.W, "int")
        st["_subnet_address_idx"] = 0
        st["_host_address_idx"] = mk(L.host_idx, "int")
        st["_compromised_idx"] = mk(L.comp, "int")
        st["_reachable_idx"] = mk(L.reach, "int")
        st["_discovered_idx"] = mk(L.disc, "int")
        st["_value_idx"] = mk(L.value, "int")
        st["_discovery_value_idx"] = mk(L.dvalue, "int")
        st["_access_idx"] = mk(L.access, "int")
        st["_os_start_idx"] = mk(L.os0, "int")
        st["_service_start_idx"] = mk(L.srv0, "int")
        st["_process_start_idx"] = mk(L.proc0, "int")
        st["os_idx_map"] = self.idx_map(self.nOS, "os_idx_map")
        st["service_idx_map"] = self.idx_map(self.nSrv, "service_idx_map")
        st["process_idx_map"] = self.idx_map(self.nProc, "process_idx_map")
        return L

    def idx_map(self, n, label):
        keys = SymSeq(n, lambda i: mk(ival(i), "name"), label + ".keys")
        return SymDict(lambda k: z3.And(0 <= nameval(k), nameval(k) < n),
                       lambda k: mk(nameval(k), "int"), keys=keys, label=label)


class Layout:
    """the documented host-vector layout as terms over Sigma's sizes"""

    def __init__(self, sig):
        self.sig = sig
        self.host_idx = sig.B0
        self.comp = sig.B0 + sig.B1
        self.reach = self.comp + 1
        self.disc = self.comp + 2
        self.value = self.comp + 3
        self.dvalue = self.comp + 4
        self.access = self.comp + 5
        self.os0 = self.comp + 6
        self.srv0 = self.os0 + ival(sig.nOS)
        self.proc0 = self.srv0 + ival(sig.nSrv)
        self.W = self.proc0 + ival(sig.nProc)

    def wf_row(self, row):
        """representation invariant of one host row (array Int->Real)"""
        c, r, d, a = (z3.Select(row, self.comp), z3.Select(row, self.reach), z3.Select(row, self.disc),
                      z3.Select(row, self.access))
        return z3.And(z3.Or(c == 0, c == 1), z3.Or(r == 0, r == 1), z3.Or(d == 0, d == 1),
                      z3.Or(a == 0, a == 1, a == 2))


# ---------------------------------------------------------------------------- states

def state_obj(I, sig, T, fresh=False, label="state"):
    """a State object whose tensor content is the A2 term T"""
    L = sig.layout()
    cell = NpCell(T, (sig.N if isinstance(sig.N, int) else sig.N, L.W), fresh=fresh, label=label + ".tensor")
    stcls = I.repo.cls("nasim.envs.state.State")
    # built by the REAL State.__init__ (fields a refactoring derives there exist as the code computes them; fields that
    # another method writes are havoced and hidden); the plain two-field object only if the constructor is out of reach
    arr, hnm = NpArr(cell), sig.host_num_map()
    n_obl, n_w, n_d = len(I.ctx.obligations), len(I.ctx.writes), len(I.ctx.draws)
    try:
        from pyvc.values import EngineLimit
        obj = Obj(stcls, {}, fresh=True, label=label)
        I.call_function(I.find_member(stcls, "__init__")[1], [obj, arr, hnm], {})
        obj.hidden = set()
        for name in mutable_fields(stcls) - {"tensor", "host_num_map"}:
            if name in obj.fields:
                obj.fields[name] = havoc_like(I, obj.fields[name], f"State_{name}")
                obj.hidden.add(name)
    except EngineLimit:
        obj = Obj(stcls, {"tensor": arr, "host_num_map": hnm}, fresh=True, label=label)
        obj.model_object = True
    del I.ctx.obligations[n_obl:]
    del I.ctx.writes[n_w:]
    del I.ctx.draws[n_d:]
    obj.fresh = fresh
    return obj


def WF(sig, T):
    L = sig.layout()
    return sig.forall_hosts(lambda i: L.wf_row(z3.Select(T, i)), "wf")


class View:
    """abstract view of a tensor: comp/reach/disc/acc per host number"""

    def __init__(self, sig, T):
        self.sig = sig
        self.T = T
        self.L = sig.layout()

    def row(self, i):
        return z3.Select(self.T, ival(i))

    def cell(self, i, col):
        return z3.Select(self.row(i), col)

    def comp(self, i):
        return self.cell(i, self.L.comp) != 0

    def reach(self, i):
        return self.cell(i, self.L.reach) != 0

    def disc(self, i):
        return self.cell(i, self.L.disc) != 0

    def acc(self, i):
        return self.cell(i, self.L.access)

    def value(self, i):
        return self.cell(i, self.L.value)

    def dvalue(self, i):
        return self.cell(i, self.L.dvalue)


# ---------------------------------------------------------------------------- actions

class ActRec:
    """symbolic action record + the real Action object built from it"""

    def __init__(self, kind, tag=""):
        self.kind = kind
        t = tag
        self.target_pytag = z3.Int("a_target_pytag" + t)
        self.tsub = z3.Int("a_tsub" + t)
        self.thid = z3.Int("a_thid" + t)
        self.cost = z3.Real("a_cost" + t)
        self.prob = z3.Real("a_prob" + t)
        self.req = z3.Int("a_req" + t)
        self.srv = z3.Int("a_srv" + t)
        self.os = z3.Int("a_os" + t)
        self.proc = z3.Int("a_proc" + t)
        self.access = z3.Int("a_access" + t)
        if kind == "NoOp":
            self.tsub, self.thid = z3.IntVal(1), z3.IntVal(0)
            self.cost, self.prob, self.req = z3.RealVal(0), z3.RealVal(1), z3.IntVal(0)

    @property
    def is_exploit(self):
        return self.kind == "Exploit"

    @property
    def is_privesc(self):
        return self.kind == "PrivilegeEscalation"

    @property
    def is_remote(self):
        return self.kind in ("ServiceScan", "OSScan", "Exploit")

    @property
    def is_scan(self):
        return self.kind in ("ServiceScan", "OSScan", "SubnetScan", "ProcessScan")

    def wfa(self, sig):
        """the action is one the scenario defines (WFA): list of z3 Bool"""
        ax = [z3.Or(self.target_pytag == 1, self.target_pytag == 4),      # builtins.TAG_INT / TAG_NPINT
              sig.valid_addr(self.tsub, self.thid), self.prob >= 0, self.prob <= 1,
              z3.Or(self.req == 0, self.req == 1, self.req == 2)]
        if self.kind == "NoOp":
            return [z3.BoolVal(True)]
        if self.kind == "Exploit":
            ax += [0 <= self.srv, self.srv < sig.nSrv, z3.Or(self.os == NONE_ID, z3.And(0 <= self.os, self.os < sig.nOS)),
                   z3.Or(self.access == 1, self.access == 2)]
        if self.kind == "PrivilegeEscalation":
            ax += [z3.Or(self.proc == NONE_ID, z3.And(0 <= self.proc, self.proc < sig.nProc)),
                   z3.Or(self.os == NONE_ID, z3.And(0 <= self.os, self.os < sig.nOS)),
                   z3.Or(self.access == 1, self.access == 2)]
        return ax

    def obj(self, I):
        cls = I.repo.cls("nasim.envs.action." + self.kind)
        # the address components are python ints or NumPy integer scalars (a parameter vector may be an integer
        # ndarray or the tuple MultiDiscrete.sample() returns): the run-time type is a symbolic tag
        tag = self.target_pytag
        f = {"name": "act", "target": (SymV(self.tsub, "int", pytag=tag) if z3.is_expr(self.tsub) and not z3.is_int_value(self.tsub)
                                       else mk(self.tsub, "int"),
                                       SymV(self.thid, "int", pytag=tag) if z3.is_expr(self.thid) and not z3.is_int_value(self.thid)
                                       else mk(self.thid, "int")),
             "cost": mk(self.cost, "real"), "prob": mk(self.prob, "real"), "req_access": mk(self.req, "int")}
        if self.kind == "Exploit":
            f.update(service=mk(self.srv, "name"), os=mk(self.os, "name"), access=mk(self.access, "int"))
        if self.kind == "PrivilegeEscalation":
            f.update(process=mk(self.proc, "name"), os=mk(self.os, "name"), access=mk(self.access, "int"))
        # preferred: the object the REAL constructor builds from these values (a field a refactoring derives in
        # Action.__init__ then exists); accepted only if it stores the documented fields unchanged - otherwise the
        # hand-built record stands (the constructors themselves are covered through load_action_list / get_action)
        from pyvc.values import EngineLimit
        from pyvc.interp import PyExc
        if self.kind != "NoOp":
            I.ctx.assume(z3.And(self.prob >= 0, self.prob <= 1))      # part of wfa(): keeps the constructor's assert fork-free
        n_obl, n_w, n_d, n_pc = len(I.ctx.obligations), len(I.ctx.writes), len(I.ctx.draws), len(I.ctx.pc)
        try:
            obj = Obj(cls, {}, fresh=True, label="action")
            kw = {k: v for k, v in f.items() if k != "name"}
            if self.kind in ("Exploit", "PrivilegeEscalation"):
                kw["name"] = "act"
            if self.kind == "NoOp":
                kw = {}
            pend0 = len(I.ctx.pending)
            I.call_function(I.find_member(cls, "__init__")[1], [obj], kw)
            same = all(k in obj.fields and (obj.fields[k] is v or obj.fields[k] == v) for k, v in f.items()
                       if not (self.kind == "NoOp" and k != "target")) and len(I.ctx.pending) == pend0 \
                and len(I.ctx.pc) == n_pc
            if same:
                obj.fresh = False
                del I.ctx.obligations[n_obl:]
                del I.ctx.writes[n_w:]
                del I.ctx.draws[n_d:]
                return obj
        except (EngineLimit, PyExc, Exception):     # noqa
            pass
        del I.ctx.obligations[n_obl:]
        del I.ctx.writes[n_w:]
        del I.ctx.draws[n_d:]
        return Obj(cls, f, fresh=False, label="action")


def host_pre(sig, a, row):
    """C01: host-level preconditions of exploit / escalation `a` on host row `row` (from the statement)"""
    L = sig.layout()
    if a.kind == "Exploit":
        return z3.And(z3.Select(row, L.srv0 + a.srv) != 0,
                      z3.Or(a.os == NONE_ID, z3.Select(row, L.os0 + a.os) != 0))
    if a.kind == "PrivilegeEscalation":
        return z3.And(z3.Select(row, L.comp) != 0, a.req <= z3.Select(row, L.access),
                      z3.Or(a.proc == NONE_ID, z3.Select(row, L.proc0 + a.proc) != 0),
                      z3.Or(a.os == NONE_ID, z3.Select(row, L.os0 + a.os) != 0))
    return z3.BoolVal(False)


def rmax(a, b):
    return z3.If(a >= b, a, b)


def mask_dyn(L, row):
    """row with its four dynamic cells (compromised, reachable, discovered, access) zeroed: two rows
    agree on every configuration column iff their masks are equal (quantifier-free, extensional)"""
    z = z3.RealVal(0)
    return z3.Store(z3.Store(z3.Store(z3.Store(row, L.comp, z), L.reach, z), L.disc, z), L.access, z)


def row_spec(sig, i, c):
    """documented content of column c of the *scenario-defined* (pre-reset) row of host number i
    (C09): subnet one-hot, host one-hot, compromised, reachable, discovered, value, discovery value,
    access, OS flags, service flags, process flags; the dynamic cells are 0 before reset."""
    L = sig.layout()
    b = lambda t: z3.If(t, z3.RealVal(1), z3.RealVal(0))
    i = ival(i)
    return z3.If(z3.And(0 <= c, c < sig.B0), b(c == sig.asub_t(i)),
           z3.If(z3.And(sig.B0 <= c, c < L.comp), b(c - sig.B0 == sig.ahid_t(i)),
           z3.If(c == L.value, sig.hval(i),
           z3.If(c == L.dvalue, sig.dval(i),
           z3.If(z3.And(L.os0 <= c, c < L.srv0), b(sig.os_of(i, c - L.os0)),
           z3.If(z3.And(L.srv0 <= c, c < L.proc0), b(sig.srv_of(i, c - L.srv0)),
           z3.If(z3.And(L.proc0 <= c, c < L.W), b(sig.proc_of(i, c - L.proc0)),
                 z3.RealVal(0))))))))


_MUT_CACHE = {}


def mutable_fields(cls):
    """names of instance fields that a method other than __init__ assigns or mutates in place
    (self.x = ..., self.x += ..., self.x[...] = ..., self.x.add/append/update/pop/clear/remove/discard(...))"""
    import ast
    if cls.qualname in _MUT_CACHE:
        return _MUT_CACHE[cls.qualname]
    out = set()
    mut = {"add", "append", "update", "pop", "clear", "remove", "discard", "extend", "insert", "setdefault", "popitem"}

    def self_attr(n):
        return isinstance(n, ast.Attribute) and isinstance(n.value, ast.Name) and n.value.id == "self"
    for name, fi in cls.methods.items():
        if name == "__init__":
            continue
        for n in ast.walk(fi.node):
            if isinstance(n, (ast.Assign, ast.AugAssign, ast.AnnAssign)):
                tg = n.targets if isinstance(n, ast.Assign) else [n.target]
                for t in tg:
                    if self_attr(t):
                        out.add(t.attr)
                    if isinstance(t, ast.Subscript) and self_attr(t.value):
                        out.add(t.value.attr)
            if isinstance(n, ast.Call) and isinstance(n.func, ast.Attribute) and n.func.attr in mut \
                    and self_attr(n.func.value):
                out.add(n.func.value.attr)
            # setattr(self, name, value): a literal name is that field; a computed name can be any field the class reads
            if isinstance(n, ast.Call) and isinstance(n.func, ast.Name) and n.func.id == "setattr" and n.args \
                    and isinstance(n.args[0], ast.Name) and n.args[0].id == "self":
                if len(n.args) > 1 and isinstance(n.args[1], ast.Constant) and isinstance(n.args[1].value, str):
                    out.add(n.args[1].value)
                else:
                    for fi2 in cls.methods.values():
                        for m in ast.walk(fi2.node):
                            if self_attr(m) and isinstance(m.ctx, ast.Load) and m.attr not in cls.methods:
                                out.add(m.attr)
    _MUT_CACHE[cls.qualname] = out
    return out


def havoc_like(I, v, base):
    """an arbitrary value of the same kind as v"""
    from pyvc.values import PySet
    if isinstance(v, bool) or (isinstance(v, SymV) and v.ty == "bool"):
        return SymV(z3.Bool(base), "bool")
    if isinstance(v, int) or (isinstance(v, SymV) and v.ty == "int"):
        return SymV(z3.Int(base), "int")
    if isinstance(v, float) or (isinstance(v, SymV) and v.ty == "real"):
        return SymV(z3.Real(base), "real")
    if isinstance(v, (PySet, PyList, PyDict, SymColl)):
        memb = z3.Function(base + "_has", z3.IntSort(), z3.IntSort(), z3.BoolSort())

        def contains(x):
            if isinstance(x, tuple) and len(x) == 2:
                a, b = x
                ka = nameval(a) if not isinstance(a, tuple) else z3.IntVal(0)
                kb = ival(b) if not isinstance(b, tuple) else z3.IntVal(0)
                return memb(ka, kb)
            return memb(nameval(x) if not isinstance(x, tuple) else z3.IntVal(0), z3.IntVal(0))
        c = SymColl(contains, base, nonempty=z3.Bool(base + "_nonempty"))
        c.fresh = False
        return c
    return Opaque(base)


def construct(I, clsq, args, kwargs=None, label=None, fallback_fields=None):
    """harness object built by running the REAL __init__ of class clsq on the given arguments (so fields the code
    derives in its constructor exist exactly as it computes them); fields that a method other than __init__ assigns or
    mutates in place are then havoced and marked hidden (arbitrary point of an arbitrary history)"""
    from pyvc.values import EngineLimit
    cls = I.repo.cls(clsq)
    obj = Obj(cls, {}, fresh=True, label=label or cls.name)
    mem = I.find_member(cls, "__init__")
    n_writes = len(I.ctx.writes)
    try:
        I.call_function(mem[1], [obj] + list(args), dict(kwargs or {}))
    except EngineLimit:
        if fallback_fields is None or not I.ext_state.get("tolerate_ctor_limit", True):
            raise
        obj = Obj(cls, dict(fallback_fields), fresh=True, label=label or cls.name)
    obj.fresh = False
    mark_preexisting(obj)
    obj.hidden = set()
    for name in mutable_fields(cls):
        if name in obj.fields:
            obj.fields[name] = havoc_like(I, obj.fields[name], f"{cls.name}_{name}")
            obj.hidden.add(name)
    del I.ctx.writes[n_writes:]
    return obj


def mark_preexisting(root, depth=4):
    """everything a harness constructor allocated exists before the function under contract runs"""
    from pyvc.values import PySet
    seen = set()

    def walk(v, d):
        if id(v) in seen or d < 0:
            return
        seen.add(id(v))
        if isinstance(v, Obj):
            v.fresh = False
            for x in v.fields.values():
                walk(x, d - 1)
        elif isinstance(v, (PyList, PySet)):
            v.fresh = False
            for x in v.items:
                walk(x, d - 1)
        elif isinstance(v, PyDict):
            v.fresh = False
            for x in v.d.values():
                walk(x, d - 1)
        elif isinstance(v, NpArr):
            v.cell.fresh = False
        elif isinstance(v, tuple):
            for x in v:
                walk(x, d - 1)
    walk(root, depth)
