"""contracts for action spaces, scenario dimensions and space bounds (C10 / C11 / C12)"""
import itertools
import z3

from pyvc.contract import Contract, LoopContract, Scope, contract, loop_contract, append_receiver, loop_assigned
from pyvc.values import (EngineLimit, SymV, Obj, NpCell, NpArr, AbsVal, SDict, SymSeq, SymDict, PyDict, PyList, ClassRef, NameK,
                         Opaque, mk, ival, rval, bval, nameval, NONE_ID, A1, A2)
from pyvc import builtins as B
from . import vocab as V
from .c_network import dyn_setup, tensor_of
from .c_environment import env_setup, env_snapshot, env_frame

I_, R_, B_ = z3.IntSort(), z3.RealSort(), z3.BoolSort()
ACT = "nasim.envs.action."
SCN = "nasim.scenarios.scenario.Scenario."


def sig_setup(I):
    sig = V.Sigma(concrete=I.ext_state.get("concrete"))
    for ax in sig.wfs():
        I.ctx.assume(ax)
    I.ext_state["sig"] = sig
    return sig


# ---------------------------------------------------------------------------- scenario dimensions

@contract
class ActionSpaceSize(Contract):
    qualname = SCN + "get_action_space_size"
    callable_by_contract = False
    tags = {"": ("C11",)}

    def setup(self, I, variant):
        sig = sig_setup(I)
        sc = sig.scenario_obj(I)
        S = Scope(sig=sig)
        S.a = {"self": sc}
        S.call_args = ([sc], {})
        return S

    def ensures(self, I, S):
        sig = S.sig
        return [("C11.advertised-size", ival(S.result) == ival(sig.N) * (ival(sig.nE) + ival(sig.nP) + 4))]


@contract
class StateDims(Contract):
    qualname = SCN + "get_state_dims"
    callable_by_contract = False
    tags = {"": ("C09", "C10")}

    def variants(self):
        return ["custom-bounds", "default-bounds"]

    def setup(self, I, variant):
        sig = sig_setup(I)
        sc = sig.scenario_obj(I, with_bounds=(variant == "custom-bounds"))
        S = Scope(sig=sig)
        S.extra["custom"] = variant == "custom-bounds"
        S.a = {"self": sc}
        S.call_args = ([sc], {})
        return S

    def ensures(self, I, S):
        sig = S.sig
        L = sig.layout()
        ok = isinstance(S.result, tuple) and len(S.result) == 2
        out = [("C09.dims-tuple", z3.BoolVal(ok))]
        if ok:
            if S.extra["custom"]:
                out.append(("C09.state-dims", z3.And(ival(S.result[0]) == ival(sig.N), ival(S.result[1]) == L.W)))
            else:
                # without explicit bounds the width uses (#subnets, max subnet size)
                w = ival(S.result[1]) - (6 + ival(sig.nOS) + ival(sig.nSrv) + ival(sig.nProc)) - ival(sig.nS)
                out.append(("C09.state-dims", z3.And(
                    ival(S.result[0]) == ival(sig.N),
                    sig.forall_range(sig.nS, lambda s: sig.size(ival(s)) <= w, "ds"),
                    sig.exists_range(sig.nS, lambda s: sig.size(ival(s)) == w, "de"))))
        return out


@contract
class ObservationDims(StateDims):
    qualname = SCN + "get_observation_dims"

    def ensures(self, I, S):
        sig = S.sig
        L = sig.layout()
        ok = isinstance(S.result, tuple) and len(S.result) == 2
        out = [("C09.dims-tuple", z3.BoolVal(ok))]
        if ok and S.extra["custom"]:
            out.append(("C09.observation-dims", z3.And(ival(S.result[0]) == ival(sig.N) + 1, ival(S.result[1]) == L.W)))
        elif ok:
            out.append(("C09.observation-dims", ival(S.result[0]) == ival(sig.N) + 1))
        return out


# ---------------------------------------------------------------------------- value bounds (C10)

class _BoundsLoop(LoopContract):
    tags = ("C10",)
    fn = None

    def snapshot(self, I, fr, seq):
        return {}

    def havoc(self, I, fr, entry, seq):
        fr.locals["min_value"] = SymV(I.ctx.fresh("mn", R_), "real")
        fr.locals["max_value"] = SymV(I.ctx.fresh("mx", R_), "real")
        fr.locals.pop("host", None)

    def inv(self, I, fr, entry, seq, k):
        sig = I.ext_state["sig"]
        f = getattr(sig, self.fn)
        INF = B.INF_SYMBOL
        mn, mx = fr.locals["min_value"], fr.locals["max_value"]
        mn = rval(mn) if not isinstance(mn, float) else INF
        mx = rval(mx) if not isinstance(mx, float) else -INF
        j = sig.qvar("bj")
        return [("prefix-bounds", z3.ForAll([j], z3.Implies(z3.And(0 <= j, j < k), z3.And(mn <= f(j), f(j) <= mx)))),
                ("empty-prefix", z3.Implies(k == 0, z3.And(mn == INF, mx == -INF)))]


@loop_contract
class HostValueBoundsLoop(_BoundsLoop):
    qualname = SCN + "host_value_bounds"
    ordinal = 0
    fn = "hval"


@loop_contract
class HostDiscoveryBoundsLoop(_BoundsLoop):
    qualname = SCN + "host_discovery_value_bounds"
    ordinal = 0
    fn = "dval"


def inf_setup(I, sig):
    """math.inf is modelled by a symbolic real INF that exceeds every host value / discovery value
    (assumption: values are finite)"""
    INF = z3.Real("INF")
    B.INF_SYMBOL = INF
    I.ctx.assume(sig.forall_hosts(lambda i: z3.And(-INF < sig.hval(ival(i)), sig.hval(ival(i)) < INF,
                                                   -INF < sig.dval(ival(i)), sig.dval(ival(i)) < INF), "inf"))
    I.ctx.assume(INF > 0)


@contract
class HostValueBounds(Contract):
    qualname = SCN + "host_value_bounds"
    tags = {"": ("C10",)}
    fn = "hval"

    def setup(self, I, variant):
        sig = sig_setup(I)
        inf_setup(I, sig)
        sc = sig.scenario_obj(I)
        S = Scope(sig=sig)
        S.a = {"self": sc}
        S.call_args = ([sc], {})
        return S

    def bind(self, I, fi, args, kwargs):
        S = super().bind(I, fi, args, kwargs)
        S.sig = I.ext_state["sig"]
        return S

    def ensures(self, I, S):
        sig = S.sig
        f = getattr(sig, self.fn)
        ok = isinstance(S.result, tuple) and len(S.result) == 2
        out = [("C10.bounds-tuple", z3.BoolVal(ok))]
        if ok:
            mn, mx = rval(S.result[0]), rval(S.result[1])
            out.append(("C10.bounds-cover-all-hosts", sig.forall_hosts(lambda i: z3.And(mn <= f(ival(i)), f(ival(i)) <= mx), "hb")))
        return out

    def havoc(self, I, S):
        return (SymV(I.ctx.fresh("bmin", R_), "real"), SymV(I.ctx.fresh("bmax", R_), "real"))


@contract
class HostDiscoveryBounds(HostValueBounds):
    qualname = SCN + "host_discovery_value_bounds"
    fn = "dval"


@contract
class SpaceBounds(Contract):
    qualname = "nasim.envs.observation.Observation.get_space_bounds"
    callable_by_contract = False
    tags = {"": ("C10",)}

    def setup(self, I, variant):
        sig = sig_setup(I)
        inf_setup(I, sig)
        sc = sig.scenario_obj(I)
        S = Scope(sig=sig)
        S.a = {"scenario": sc}
        S.call_args = ([sc], {})
        return S

    def ensures(self, I, S):
        sig = S.sig
        L = sig.layout()
        ok = isinstance(S.result, tuple) and len(S.result) == 2
        out = [("C10.bounds-tuple", z3.BoolVal(ok))]
        if not ok:
            return out
        lo, hi = rval(S.result[0]), rval(S.result[1])
        out.append(("C10.low-high", z3.And(lo <= 0, hi >= 2, sig.forall_hosts(lambda i: z3.And(
            lo <= sig.hval(ival(i)), sig.hval(ival(i)) <= hi, lo <= sig.dval(ival(i)), sig.dval(ival(i)) <= hi), "sb"))))
        # lemma C10.in-box: every cell of a state that has the scenario's configuration (row_spec outside the four
        # dynamic cells) and satisfies WF lies in [low, high]; so does 0 (masked observation cells) and the aux flags
        T = z3.Const("T_box", A2)
        i, c = sig.qvar("bi"), sig.qvar("bc")
        dyn = z3.Or(c == L.comp, c == L.reach, c == L.disc, c == L.access)
        cfg = z3.ForAll([i, c], z3.Implies(z3.And(0 <= i, i < ival(sig.N), 0 <= c, c < L.W, z3.Not(dyn)),
                                           z3.Select(z3.Select(T, i), c) == V.row_spec(sig, i, c)))
        i2, c2 = z3.Int("box_i"), z3.Int("box_c")
        cell = z3.Select(z3.Select(T, i2), c2)
        out.append(("C10.state-cells-in-box", z3.Implies(z3.And(cfg, V.WF(sig, T), 0 <= i2, i2 < ival(sig.N), 0 <= c2, c2 < L.W),
                                                         z3.And(lo <= cell, cell <= hi))))
        return out


# ---------------------------------------------------------------------------- flat action space

ACTSORT = z3.DeclareSort("ActionObj")
act_at = z3.Function("flat_action_at", I_, ACTSORT)
tgt_sub = z3.Function("flat_tgt_sub", I_, I_)
tgt_hid = z3.Function("flat_tgt_hid", I_, I_)


def flat_space(I, sig, n):
    """a FlatActionSpace whose list has n abstract actions; action i has target (tgt_sub(i), tgt_hid(i))"""
    acls = I.repo.cls(ACT + "Action")
    # preferred: the object the REAL constructor builds over the scenario (its list is the call-site model of
    # load_action_list: the same abstract actions), so fields a refactoring derives in __init__ exist
    if sig.symbolic:
        try:
            n_obl = len(I.ctx.obligations)
            sp = V.construct(I, ACT + "FlatActionSpace", [sig.scenario_obj(I)], label="action_space")
            del I.ctx.obligations[n_obl:]
            if isinstance(sp.fields.get("actions"), SymSeq) and sp.fields.get("n") is not None:
                I.ctx.assume(ival(sp.fields["n"]) == (n if z3.is_expr(n) else z3.IntVal(n)))
                return sp
        except EngineLimit:
            pass

    def elem(i):
        return Obj(acls, {"target": (mk(tgt_sub(ival(i)), "int"), mk(tgt_hid(ival(i)), "int")),
                          "__abs__": AbsVal(act_at(ival(i)), "action")}, fresh=False, label="flat-action")
    return Obj(I.repo.cls(ACT + "FlatActionSpace"), {"actions": SymSeq(n, elem, "actions"), "n": mk(n, "int") if z3.is_expr(n) else n},
               fresh=False, label="action_space")


@contract
class FlatGetAction(Contract):
    qualname = ACT + "FlatActionSpace.get_action"
    callable_by_contract = False
    bounded = False
    tags = {"": ("C10", "C11", "C12", "C19", "C01")}

    def variants(self):
        return ["python-int", "numpy-integer"]

    def setup(self, I, variant):
        sig = sig_setup(I)
        n = z3.Int("n_actions")
        I.ctx.assume(n >= 1)
        sp = flat_space(I, sig, n)
        idx = z3.Int("a_idx")
        I.ctx.assume(z3.And(0 <= idx, idx < n))          # a member of Discrete(n)
        tag = z3.IntVal(B.TAG_INT if variant == "python-int" else B.TAG_NPINT)
        S = Scope(sig=sig)
        S.extra["idx"] = idx
        S.a = {"self": sp}
        S.call_args = ([sp, SymV(idx, "int", pytag=tag)], {})
        return S

    def ensures(self, I, S):
        r = S.result
        ok = isinstance(r, Obj) and isinstance(r.fields.get("__abs__"), AbsVal)
        return [("C11.flat-index-to-action", r.fields["__abs__"].t == act_at(S.extra["idx"]) if ok else z3.BoolVal(False))]


@contract
class GetActionMask(Contract):
    qualname = "nasim.envs.environment.NASimEnv.get_action_mask"
    bounded = False
    tags = {"": ("C11",)}

    def setup(self, I, variant):
        sig, T, st, env, a = env_setup(I, None)
        n = z3.Int("n_actions")
        I.ctx.assume(n >= 0)
        env.fields["action_space"] = flat_space(I, sig, n)
        j = sig.qvar("mt")
        I.ctx.assume(z3.ForAll([j], z3.Implies(z3.And(0 <= j, j < n), sig.valid_addr(tgt_sub(j), tgt_hid(j)))))
        S = Scope(sig=sig)
        S.extra["n"] = n
        S.a = {"self": env}
        S.call_args = ([env], {})
        return S

    def snapshot(self, I, S):
        S.old["env"] = env_snapshot(S.a["self"])

    def ensures(self, I, S):
        sig = S.sig
        n = S.extra["n"]
        r = S.result
        ok = isinstance(r, NpArr) and r.ndim == 1
        out = [("C11.mask-is-vector", z3.BoolVal(ok))]
        if not ok:
            return out
        v = V.View(sig, S.old["env"]["current_T"])
        k = sig.qvar("mk")
        out.append(("C11.mask-length", ival(r.shape[0]) == n))
        out.append(("C11.mask-entries", z3.ForAll([k], z3.Implies(z3.And(0 <= k, k < n), z3.Select(r.content(), k) == z3.If(
            v.disc(sig.hnum(tgt_sub(k), tgt_hid(k))), z3.RealVal(1), z3.RealVal(0))))))
        return out

    def frame(self, I, S):
        return [("C11.mask-pure." + l, g) for l, g in env_frame(S.a["self"], S.old["env"])]


@loop_contract
class GetActionMaskLoop(LoopContract):
    qualname = "nasim.envs.environment.NASimEnv.get_action_mask"
    ordinal = 0
    tags = ("C11",)

    def snapshot(self, I, fr, seq):
        m = fr.locals["mask"]
        return {"mask": m, "M0": m.content(), "T": tensor_of(fr.locals["self"].fields["current_state"]).content}

    def havoc(self, I, fr, entry, seq):
        entry["mask"].set_content(I.ctx.fresh("mask", A1))
        for v in ("a_idx", "action"):
            fr.locals.pop(v, None)

    def inv(self, I, fr, entry, seq, k):
        sig = I.ext_state["sig"]
        v = V.View(sig, entry["T"])
        c = sig.qvar("ml")
        cur = entry["mask"].content()
        return [("prefix", z3.ForAll([c], z3.Select(cur, c) == z3.If(
            z3.And(0 <= c, c < k), z3.If(v.disc(sig.hnum(tgt_sub(c), tgt_hid(c))), z3.RealVal(1), z3.RealVal(0)),
            z3.Select(entry["M0"], c)))),
            ("state-untouched", tensor_of(fr.locals["self"].fields["current_state"]).content == entry["T"])]


# ---------------------------------------------------------------------------- parameterised action space

e_first = z3.Function("e_first", I_, I_, I_)       # (service, os) -> index of the first matching exploit
e_has = z3.Function("e_has", I_, I_, B_)
p_first = z3.Function("p_first", I_, I_, I_)
p_has = z3.Function("p_has", I_, I_, B_)


def first_axioms(sig):
    """e_has(s,o) <=> some exploit is defined for (s,o); e_first(s,o) is the first such definition"""
    ax = []
    for has, first, n, k1, k2, n1 in ((e_has, e_first, sig.nE, sig.e_srv, sig.e_os, sig.nSrv),
                                      (p_has, p_first, sig.nP, sig.p_proc, sig.p_os, sig.nProc)):
        match = lambda x, s, o: z3.And(k1(x) == s, k2(x) == o)
        if isinstance(n, int):
            # bounded mode: finitely many (name, os) pairs -> quantifier-free instances
            for sv in [NONE_ID] + list(range(n1)):
                for ov in [NONE_ID] + list(range(sig.nOS)):
                    s, o = z3.IntVal(sv), z3.IntVal(ov)
                    ex = z3.Or(*[match(z3.IntVal(i), s, o) for i in range(n)]) if n else z3.BoolVal(False)
                    fo = z3.And(*[z3.Implies(z3.IntVal(i) < first(s, o), z3.Not(match(z3.IntVal(i), s, o)))
                                  for i in range(n)]) if n else z3.BoolVal(True)
                    ax.append(z3.And(has(s, o) == ex, z3.Implies(has(s, o), z3.And(
                        0 <= first(s, o), first(s, o) < n, match(first(s, o), s, o), fo))))
        else:
            s, o, e = sig.qvar("fs"), sig.qvar("fo"), sig.qvar("fe")
            ax.append(z3.ForAll([s, o], z3.And(
                has(s, o) == z3.Exists([e], z3.And(0 <= e, e < n, match(e, s, o))),
                z3.Implies(has(s, o), z3.And(0 <= first(s, o), first(s, o) < n, match(first(s, o), s, o),
                                             z3.ForAll([e], z3.Implies(z3.And(0 <= e, e < first(s, o)),
                                                                       z3.Not(match(e, s, o)))))))))
    return ax


class _MapModel(Contract):
    """Scenario.exploit_map / privesc_map build a two-level dict keyed by symbolic names inside a loop.
    ASSUMED at call sites (first definition per (service|process, os) pair wins, as the code documents);
    validated by the bounded check of the real loop over concrete table shapes (see *_Bounded below)."""
    verify = False
    tags = {"": ("C11",)}
    which = None

    def bind(self, I, fi, args, kwargs):
        S = super().bind(I, fi, args, kwargs)
        S.sig = I.ext_state["sig"]
        return S

    def havoc(self, I, S):
        sig = S.sig
        has, first = (e_has, e_first) if self.which == "e" else (p_has, p_first)
        n = sig.nE if self.which == "e" else sig.nP
        k1 = sig.e_srv if self.which == "e" else sig.p_proc
        key1 = "service" if self.which == "e" else "process"
        deffn = sig.exploit_def if self.which == "e" else sig.privesc_def

        def inner(srv):
            def get(os):
                f = first(nameval(srv), nameval(os))
                d = deffn(f)
                dd = dict(d.d)
                dd["name"] = mk(f + 500000, "name")
                return PyDict(dd, fresh=False)
            return SymDict(lambda os: has(nameval(srv), nameval(os)), get, label="map-inner")
        ex = lambda srv: sig.exists_range(n, lambda e: k1(ival(e)) == nameval(srv), "mo")
        return SymDict(ex, inner, label="exploit_map" if self.which == "e" else "privesc_map")


class ExploitMapModel(_MapModel):
    qualname = SCN + "exploit_map"
    which = "e"


class PrivescMapModel(_MapModel):
    qualname = SCN + "privesc_map"
    which = "p"


class NpIntVec:
    """an integer ndarray used only through integer indexing (what MultiDiscrete.sample() returns)"""

    def __init__(self, items):
        self.items = list(items)


@contract
class ParamGetAction(Contract):
    qualname = ACT + "ParameterisedActionSpace.get_action"
    callable_by_contract = False
    tags = {"": ("C10", "C11", "C12", "C19", "C05", "C07", "C01")}

    def variants(self):
        return ["list", "tuple"]

    def setup(self, I, variant):
        sig = sig_setup(I)
        for ax in first_axioms(sig):
            I.ctx.assume(ax)
        sc = sig.scenario_obj(I)
        sp = V.construct(I, ACT + "ParameterisedActionSpace", [sc], label="action_space", fallback_fields={"scenario": sc})
        v = [z3.Int(f"av{i}") for i in range(6)]
        # a member of MultiDiscrete(nvec): 0 <= v[i] < nvec[i]
        mx = z3.Int("max_subnet_size")
        I.ctx.assume(sig.forall_range(sig.nS, lambda s: sig.size(ival(s)) <= mx, "ms"))
        nvec = [z3.IntVal(6), ival(sig.nS) - 1, mx, ival(sig.nOS) + 1, ival(sig.nSrv), ival(sig.nProc)]
        for x, n in zip(v, nvec):
            I.ctx.assume(z3.And(0 <= x, x < n))
        items = [SymV(x, "int") for x in v]
        vec = PyList(items, fresh=False) if variant == "list" else tuple(items)
        S = Scope(sig=sig)
        S.extra["v"] = v
        S.a = {"self": sp}
        S.call_args = ([sp, vec], {})
        return S

    def ensures(self, I, S):
        sig = S.sig
        v = S.extra["v"]
        r = S.result
        ok = isinstance(r, Obj)
        out = [("C11.decodes-to-action", z3.BoolVal(ok))]
        if not ok:
            return out
        kind = r.cls.name
        f = r.fields
        sub = v[1] + 1
        hid = v[2] % sig.size(sub)
        os_ = z3.If(v[3] == 0, z3.IntVal(NONE_ID), v[3] - 1)
        types = ["Exploit", "PrivilegeEscalation", "ServiceScan", "OSScan", "SubnetScan", "ProcessScan"]
        want_kind = z3.BoolVal(False)
        tgt_ok = z3.And(ival(f["target"][0]) == sub, ival(f["target"][1]) == hid) if kind != "NoOp" else z3.BoolVal(True)
        if kind in ("ServiceScan", "OSScan", "SubnetScan", "ProcessScan"):
            cost = {"ServiceScan": sig.cost_srv, "OSScan": sig.cost_os, "SubnetScan": sig.cost_sub,
                    "ProcessScan": sig.cost_proc}[kind]
            want = z3.And(v[0] == types.index(kind), tgt_ok, rval(f["cost"]) == cost)
        elif kind == "Exploit":
            e = e_first(v[4], os_)
            want = z3.And(v[0] == 0, e_has(v[4], os_), tgt_ok, nameval(f["service"]) == v[4], nameval(f["os"]) == os_,
                          rval(f["cost"]) == sig.e_cost(e), rval(f["prob"]) == sig.e_prob(e),
                          ival(f["access"]) == sig.e_access(e), sig.e_srv(e) == v[4], sig.e_os(e) == os_)
        elif kind == "PrivilegeEscalation":
            p = p_first(v[5], os_)
            want = z3.And(v[0] == 1, p_has(v[5], os_), tgt_ok, nameval(f["process"]) == v[5], nameval(f["os"]) == os_,
                          rval(f["cost"]) == sig.p_cost(p), rval(f["prob"]) == sig.p_prob(p),
                          ival(f["access"]) == sig.p_access(p), sig.p_proc(p) == v[5], sig.p_os(p) == os_)
        elif kind == "NoOp":
            undefined = z3.Or(z3.And(v[0] == 0, z3.Not(e_has(v[4], os_))), z3.And(v[0] == 1, z3.Not(p_has(v[5], os_))))
            want = z3.And(undefined, rval(f["cost"]) == 0)
        else:
            want = z3.BoolVal(False)
        out.append(("C11.decode", want))
        return out


# ---------------------------------------------------------------------------- exploit_map / privesc_map (unbounded)

s_first = z3.Function("srv_first", I_, I_)          # service -> index of the first exploit for it
s_has = z3.Function("srv_has", I_, B_)
q_first = z3.Function("proc_first", I_, I_)
q_has = z3.Function("proc_has", I_, B_)


def first1_axioms(sig):
    """s_has(s) <=> some exploit targets service s; s_first(s) is the first such definition (same for processes)"""
    ax = []
    for has, first, n, k1 in ((s_has, s_first, sig.nE, sig.e_srv), (q_has, q_first, sig.nP, sig.p_proc)):
        s_, e = sig.qvar("f1s"), sig.qvar("f1e")
        ax.append(z3.ForAll([s_], z3.And(
            has(s_) == z3.Exists([e], z3.And(0 <= e, e < ival(n), k1(e) == s_)),
            z3.Implies(has(s_), z3.And(0 <= first(s_), first(s_) < ival(n), k1(first(s_)) == s_,
                                       z3.ForAll([e], z3.Implies(z3.And(0 <= e, e < first(s_)), k1(e) != s_)))))))
    return ax


MAP_FIELDS = {"e": (("name", "name"), ("service", "name"), ("os", "name"), ("cost", "real"), ("prob", "real"), ("access", "int")),
              "p": (("name", "name"), ("process", "name"), ("os", "name"), ("cost", "real"), ("prob", "real"), ("access", "int"))}


def map_spec(sig, which, m, k):
    """the nested map m holds exactly the first definition of every (service|process, os) pair among the first k
    definitions: list of (label, z3 Bool)"""
    from pyvc.values import NestedSDict
    has, first = (e_has, e_first) if which == "e" else (p_has, p_first)
    has1, first1 = (s_has, s_first) if which == "e" else (q_has, q_first)
    cost, prob, acc = (sig.e_cost, sig.e_prob, sig.e_access) if which == "e" else (sig.p_cost, sig.p_prob, sig.p_access)
    if isinstance(m, PyDict):
        zero = z3.is_int_value(z3.simplify(k)) and z3.simplify(k).as_long() == 0
        return [("map-holds-first-definitions", z3.BoolVal(bool(zero and not m.d and not m.sym)))]
    if not isinstance(m, NestedSDict):
        return [("map-holds-first-definitions", z3.BoolVal(False))]
    s_, o_ = sig.qvar("ms"), sig.qvar("mo")
    sel = lambda f: z3.Select(z3.Select(m.cols[f][0], s_), o_)
    f = first(s_, o_)
    key1 = "service" if which == "e" else "process"
    present = z3.Select(z3.Select(m.dom2, s_), o_)
    return [("outer-keys", z3.ForAll([s_], z3.Select(m.dom1, s_) == z3.And(has1(s_), first1(s_) < k))),
            ("inner-keys", z3.ForAll([s_, o_], present == z3.And(has(s_, o_), f < k))),
            ("first-definition-wins", z3.ForAll([s_, o_], z3.Implies(present, z3.And(
                sel("name") == f + 500000, sel(key1) == s_, sel("os") == o_, sel("cost") == cost(f),
                sel("prob") == prob(f), sel("access") == acc(f)))))]


class _MapLoop(LoopContract):
    ordinal = 0
    tags = ("C11", "C12", "C05", "C07", "C01", "C17")
    which = "e"

    def snapshot(self, I, fr, seq):
        return {}

    def havoc(self, I, fr, entry, seq):
        from pyvc.values import NestedSDict
        A = z3.ArraySort
        srt = {"name": I_, "int": I_, "real": R_, "bool": B_}
        var = "e_map" if self.which == "e" else "pe_map"
        cols = {f: (I.ctx.fresh(f"{var}_{f}", A(I_, A(I_, srt[k]))), k) for f, k in MAP_FIELDS[self.which]}
        fr.locals[var] = NestedSDict(I.ctx.fresh(var + "_dom1", A(I_, B_)), I.ctx.fresh(var + "_dom2", A(I_, A(I_, B_))),
                                     cols, fresh=True, label=var)
        for v in ("e_name", "e_def", "srv_name", "srv_map", "os", "pe_name", "pe_def", "proc_name", "proc_map"):
            fr.locals.pop(v, None)

    def inv(self, I, fr, entry, seq, k):
        sig = I.ext_state["sig"]
        return map_spec(sig, self.which, fr.locals["e_map" if self.which == "e" else "pe_map"], k)


@loop_contract
class ExploitMapLoop(_MapLoop):
    qualname = SCN + "exploit_map"
    which = "e"


@loop_contract
class PrivescMapLoop(_MapLoop):
    qualname = SCN + "privesc_map"
    which = "p"


# ---------------------------------------------------------------------------- BOUNDED-ONLY contracts
# (symbolic list / nested-dict building is out of the unbounded engine's reach: the real loops are executed on
#  concrete-structured scenarios with symbolic contents; labelled bounded, never counted as proved)

E_SHAPES = [[(0, None), (0, None)], [(0, None), (0, 0)], [(1, 0), (0, 0)], [(0, 0), (0, 0)], [(1, None), (0, 1)]]
P_SHAPES = [[(0, None)], [(1, 0)]]


def bounded_cfg(I, variant):
    cfg = dict(I.ext_state.get("concrete") or {"subnets": [1, 1, 2]})
    ei, pi = [int(x) for x in variant.split("/")]
    cfg.update(n_exploits=2, n_privescs=1, e_shape=E_SHAPES[ei], p_shape=P_SHAPES[pi])
    I.ext_state["concrete"] = cfg
    return cfg


def first_match(shape, key):
    for i, k in enumerate(shape):
        if k == key:
            return i
    return None


@contract
class ExploitMapBounded(_MapModel):
    qualname = SCN + "exploit_map"
    verify = True
    inline_when_concrete = True
    inline_needs_key = "e_shape"       # the real loop needs concrete table keys; otherwise the model is used
    unbounded = True                   # symbolic tables of any size: nested-map loop invariant (ExploitMapLoop)
    # the decoded action carries the cost (C05), probability (C07) and access level (C01) of the definition the map holds
    tags = {"": ("C11", "C19", "C12", "C05", "C07", "C01", "C17")}
    which = "e"

    def modifies(self, I, S):
        return [S.a["self"]]          # the per-scenario cache field _e_map / _pe_map

    def variants(self):
        return [f"{e}/{p}" for e in range(len(E_SHAPES)) for p in range(len(P_SHAPES))]

    def unbounded_variants(self):
        return ["symbolic"]

    def setup(self, I, variant):
        if variant == "symbolic":
            sig = sig_setup(I)
            for ax in first_axioms(sig) + first1_axioms(sig):
                I.ctx.assume(ax)
            sc = sig.scenario_obj(I)
            S = Scope(sig=sig)
            S.extra["cfg"] = None
            S.a = {"self": sc}
            S.call_args = ([sc], {})
            return S
        cfg = bounded_cfg(I, variant)
        sig = sig_setup(I)
        sc = sig.scenario_obj(I)
        S = Scope(sig=sig)
        S.extra["cfg"] = cfg
        S.a = {"self": sc}
        S.call_args = ([sc], {})
        return S

    def ensures(self, I, S):
        if getattr(S, "callsite", False):
            return []
        sig, cfg = S.sig, S.extra["cfg"]
        if cfg is None:
            n = ival(sig.nE if self.which == "e" else sig.nP)
            return [("C11.map-" + l, t) for l, t in map_spec(sig, self.which, S.result, n)]
        shape = cfg["e_shape"] if self.which == "e" else cfg["p_shape"]
        m = S.result
        out = []
        ok = isinstance(m, PyDict) and all(isinstance(v, PyDict) for v in m.d.values())
        out.append(("C11.map-is-nested-dict", z3.BoolVal(ok)))
        if not ok:
            return out
        pairs = []
        for k1, inner in m.d.items():
            for k2 in inner.d:
                pairs.append((k1.k, None if k2 is None else k2.k))
        want_pairs = []
        for k in shape:
            if k not in want_pairs:
                want_pairs.append(k)
        out.append(("C11.map-keys-are-the-defined-pairs", z3.BoolVal(sorted(pairs, key=str) == sorted(want_pairs, key=str))))
        cs = []
        cost, prob, acc = ((sig.e_cost, sig.e_prob, sig.e_access) if self.which == "e" else
                           (sig.p_cost, sig.p_prob, sig.p_access))
        for k1, inner in m.d.items():
            for k2, d in inner.d.items():
                f = first_match(shape, (k1.k, None if k2 is None else k2.k))
                if f is None:
                    cs.append(z3.BoolVal(False))
                    continue
                ff = z3.IntVal(f)
                cs.append(z3.And(rval(d.d["cost"]) == cost(ff), rval(d.d["prob"]) == prob(ff), ival(d.d["access"]) == acc(ff),
                                 z3.BoolVal(d.d["name"] == NameK(500000 + f))))
        out.append(("C11.map-first-definition-wins", z3.And(*cs) if cs else z3.BoolVal(True)))
        return out


@contract
class PrivescMapBounded(ExploitMapBounded):
    qualname = SCN + "privesc_map"
    which = "p"


def action_fields_ok(sig, obj, kind, addr, spec):
    f = obj.fields
    cs = [z3.BoolVal(obj.cls.name == kind), z3.BoolVal(f.get("target") == addr)]
    for k, want in spec.items():
        v = f.get(k)
        if k in ("cost", "prob"):
            cs.append(rval(v) == want)
        elif k in ("access", "req_access"):
            cs.append(ival(v) == want)
        else:   # names
            cs.append(z3.BoolVal(v == want))
    return z3.And(*cs)


# ---------------------------------------------------------------------------- load_action_list (unbounded + bounded)
# The list is kept as a RECORD LIST (pyvc SymSeq with .rec: one z3 array per action field).  Its flat index is
# host*K + j with K = 4 + #exploits + #escalations - a product of two symbols.  The product is kept out of the solver
# (DESIGN 2.7 rule 3): positions are written with the ghost function lal_base (lal_base(0) = 0, lal_base(h+1) =
# lal_base(h) + K) and lal_idx(h, j) = lal_base(h) + j; the two facts about lal_base the proof uses - blocks do not
# overlap (monotone) and lal_base(h) = h*K - are proved by induction as separate closed lemma obligations.

from pyvc.values import intern_name

LAL_COLS = (("cls", "int"), ("name", "name"), ("tsub", "int"), ("thid", "int"), ("cost", "real"), ("prob", "real"),
            ("req_access", "int"), ("access", "int"), ("service", "name"), ("os", "name"), ("process", "name"))
LAL_ABSENT = -77            # column value of a field the action object does not have
lal_base = z3.Function("lal_base", I_, I_)
lal_idx = z3.Function("lal_idx", I_, I_, I_)
LAL_LOCALS = ("address", "e_name", "e_def", "exploit", "pe_name", "pe_def", "privesc")


def lal_K(sig):
    return ival(sig.nE) + ival(sig.nP) + 4


def lal_axioms(sig):
    """definitional axioms of the ghost position functions + the two lemmas proved by induction (see lal_lemmas)"""
    K = lal_K(sig)
    h, j, a, b = z3.Int("lal_h"), z3.Int("lal_j"), z3.Int("lal_a"), z3.Int("lal_b")
    return [lal_base(0) == 0,
            z3.ForAll([a, b], z3.Implies(z3.And(0 <= a, a < b), lal_base(a) + K <= lal_base(b)),
                      patterns=[z3.MultiPattern(lal_base(a), lal_base(b))]),
            z3.ForAll([h, j], lal_idx(h, j) == lal_base(h) + j, patterns=[lal_idx(h, j)])]


def lal_lemmas():
    """closed induction obligations (fresh function g, arbitrary K >= 0): they do not depend on any path hypothesis"""
    g = z3.Function("lal_g", I_, I_)
    K, b, a0 = z3.Int("lal_lK"), z3.Int("lal_lb"), z3.Int("lal_la0")
    a = z3.Int("lal_la")
    rec = g(b + 1) == g(b) + K
    ih = z3.ForAll([a], z3.Implies(z3.And(0 <= a, a < b), g(a) + K <= g(b)))
    return [
        ("lemma.C11.blocks-do-not-overlap.induction-base", z3.Implies(z3.And(0 <= a0, a0 < 0), g(a0) + K <= g(0))),
        ("lemma.C11.blocks-do-not-overlap.induction-step",
         z3.Implies(z3.And(b >= 0, K >= 0, rec, ih, 0 <= a0, a0 < b + 1), g(a0) + K <= g(b + 1))),
        ("lemma.C11.block-start-is-host-times-K.induction-base", z3.Implies(g(0) == 0, g(0) == 0 * K)),
        ("lemma.C11.block-start-is-host-times-K.induction-step",
         z3.Implies(z3.And(b >= 0, rec, g(b) == b * K), g(b + 1) == (b + 1) * K)),
    ]


def lal_abstract(x):
    """action object -> one z3 term per column"""
    if not isinstance(x, Obj):
        raise EngineLimit(f"non-object appended to the action list: {x!r}")
    f = x.fields
    tg = f.get("target")
    if not (isinstance(tg, tuple) and len(tg) == 2):
        raise EngineLimit("action target is not an address pair")
    out = {"cls": z3.IntVal(intern_name(x.cls.name)), "tsub": ival(tg[0]), "thid": ival(tg[1])}
    for c, kind in LAL_COLS:
        if c in out:
            continue
        if c not in f:
            out[c] = z3.RealVal(LAL_ABSENT) if kind == "real" else z3.IntVal(LAL_ABSENT)
        elif kind == "real":
            out[c] = rval(f[c])
        elif kind == "name":
            out[c] = nameval(f[c])
        else:
            out[c] = ival(f[c])
    return out


def lal_new_list(I, tag):
    srt = {"int": I_, "name": I_, "real": R_}
    cols = {c: I.ctx.fresh(f"lal_{tag}_{c}", z3.ArraySort(I_, srt[k])) for c, k in LAL_COLS}
    lst = SymSeq(I.ctx.fresh(f"lal_{tag}_len", I_), None, "action_list", True, mutable=True)
    lst.rec = {"cols": cols, "abstract": lal_abstract}
    acls = I.repo.cls(ACT + "Action")

    def elem(i, lst=lst):
        c = lst.rec["cols"]
        ii = ival(i)
        return Obj(acls, {"target": (mk(z3.Select(c["tsub"], ii), "int"), mk(z3.Select(c["thid"], ii), "int")),
                          "cost": mk(z3.Select(c["cost"], ii), "real"), "prob": mk(z3.Select(c["prob"], ii), "real"),
                          "req_access": mk(z3.Select(c["req_access"], ii), "int"),
                          "name": mk(z3.Select(c["name"], ii), "name")}, fresh=False, label="flat-action")
    lst.elem = elem
    return lst


def lal_spec(sig, col, h, j, addr=None):
    """documented content of column `col` of the j-th action of host number h (None: not specified)"""
    nE = ival(sig.nE)
    e, p = j - 4, j - 4 - nE
    A = lambda kind: z3.RealVal(LAL_ABSENT) if kind == "real" else z3.IntVal(LAL_ABSENT)
    cid = lambda n: z3.IntVal(intern_name(n))
    ts, th = (sig.asub(h), sig.ahid(h)) if addr is None else (ival(addr[0]), ival(addr[1]))
    ite4 = lambda a, b, c, d, ex, pr: z3.If(j == 0, a, z3.If(j == 1, b, z3.If(j == 2, c, z3.If(j == 3, d, z3.If(j < 4 + nE, ex, pr)))))
    if col == "cls":
        return ite4(cid("ServiceScan"), cid("OSScan"), cid("SubnetScan"), cid("ProcessScan"), cid("Exploit"),
                    cid("PrivilegeEscalation"))
    if col == "name":
        return None if False else ("exploits-only", z3.If(j < 4 + nE, e + 500000, p + 500000))
    if col == "tsub":
        return ts
    if col == "thid":
        return th
    if col == "cost":
        return ite4(sig.cost_srv, sig.cost_os, sig.cost_sub, sig.cost_proc, sig.e_cost(e), sig.p_cost(p))
    if col == "prob":
        one = z3.RealVal(1)
        return ite4(one, one, one, one, sig.e_prob(e), sig.p_prob(p))
    if col == "req_access":
        return z3.IntVal(1)
    if col == "access":
        a = A("int")
        return ite4(a, a, a, a, sig.e_access(e), sig.p_access(p))
    if col == "service":
        a = A("name")
        return ite4(a, a, a, a, sig.e_srv(e), a)
    if col == "os":
        a = A("name")
        return ite4(a, a, a, a, sig.e_os(e), sig.p_os(p))
    if col == "process":
        a = A("name")
        return ite4(a, a, a, a, a, sig.p_proc(p))
    raise KeyError(col)


def lal_cell_ok(sig, col, arr, pos, h, j, addr=None):
    want = lal_spec(sig, col, h, j, addr)
    got = z3.Select(arr, pos)
    if isinstance(want, tuple):       # the name column: specified for exploits / escalations only (the definition's key)
        return z3.Implies(j >= 4, got == want[1])
    return got == want


def lal_rows(sig, lst, k, label):
    """rows of hosts 0..k-1 hold the documented actions"""
    K = lal_K(sig)
    h, j = sig.qvar("lh"), sig.qvar("lj")
    out = []
    for col, _kind in LAL_COLS:
        out.append((f"{label}.{col}", z3.ForAll([h, j], z3.Implies(
            z3.And(0 <= h, h < k, 0 <= j, j < K),
            lal_cell_ok(sig, col, lst.rec["cols"][col], lal_idx(h, j), h, j)), patterns=[lal_idx(h, j)])))
    return out


@loop_contract
class LoadActionListHosts(LoopContract):
    qualname = ACT + "load_action_list"
    ordinal = 0
    tags = ("C11", "C05", "C12", "C10", "C19", "C07", "C01")

    def snapshot(self, I, fr, seq):
        import ast
        if not isinstance(self.st.target, ast.Name):
            raise EngineLimit("host loop of load_action_list does not bind the address to one name")
        I.ext_state["lal_names"] = {"list": append_receiver(self.st), "address": self.st.target.id}
        return dict(I.ext_state["lal_names"])

    def havoc(self, I, fr, entry, seq):
        fr.locals[entry["list"]] = lal_new_list(I, "hosts")
        for v in loop_assigned(self.st):
            fr.locals.pop(v, None)

    def inv(self, I, fr, entry, seq, k):
        sig = I.ext_state["sig"]
        lst = fr.locals[entry["list"]]
        if isinstance(lst, PyList):
            zero = z3.is_int_value(z3.simplify(k)) and z3.simplify(k).as_long() == 0
            return [("list-holds-the-first-hosts-actions", z3.BoolVal(bool(zero and not lst.items)))]
        if not (isinstance(lst, SymSeq) and getattr(lst, "rec", None)):
            return [("list-holds-the-first-hosts-actions", z3.BoolVal(False))]
        # instance of the recursive definition of lal_base at k (k >= 0 on every use)
        I.ctx.assume(z3.Implies(k >= 0, lal_base(k + 1) == lal_base(k) + lal_K(sig)))
        return [("length", ival(lst.n) == lal_base(k))] + lal_rows(sig, lst, k, "rows")


class _LalInner(LoopContract):
    tags = ("C11", "C05", "C12", "C10", "C19", "C07", "C01")
    offset = None

    def snapshot(self, I, fr, seq):
        nm = I.ext_state.get("lal_names")
        if nm is None or append_receiver(self.st) != nm["list"]:
            raise EngineLimit("inner loop of load_action_list does not append to the list of the host loop")
        lst = fr.locals[nm["list"]]
        if not (isinstance(lst, SymSeq) and getattr(lst, "rec", None)):
            raise EngineLimit("inner loop of load_action_list entered without the record list")
        return {"lst": lst, "n": lst.n, "cols": dict(lst.rec["cols"]), "address": fr.locals[nm["address"]], "list": nm["list"]}

    def havoc(self, I, fr, entry, seq):
        new = lal_new_list(I, "in%d" % self.ordinal)
        lst = entry["lst"]
        lst.n, lst.rec["cols"] = new.n, new.rec["cols"]
        for v in loop_assigned(self.st):
            fr.locals.pop(v, None)

    def inv(self, I, fr, entry, seq, k):
        sig = I.ext_state["sig"]
        lst = fr.locals[entry["list"]]
        if lst is not entry["lst"]:
            return [("appends-to-the-same-list", z3.BoolVal(False))]
        n0 = ival(entry["n"])
        i = sig.qvar("li")
        out = [("length", ival(lst.n) == n0 + k)]
        # virtual position of definition number q inside a host's block: 4 + q (exploits), 4 + nE + q (escalations)
        off = z3.IntVal(4) if self.ordinal == 1 else 4 + ival(sig.nE)
        for col, _kind in LAL_COLS:
            arr, arr0 = lst.rec["cols"][col], entry["cols"][col]
            out.append((f"earlier-untouched.{col}", z3.ForAll([i], z3.Implies(z3.And(0 <= i, i < n0),
                                                                             z3.Select(arr, i) == z3.Select(arr0, i)))))
            out.append((f"appended.{col}", z3.ForAll([i], z3.Implies(
                z3.And(n0 <= i, i < n0 + k), lal_cell_ok(sig, col, arr, i, None, i - n0 + off, entry["address"])))))
        return out


@loop_contract
class LoadActionListExploits(_LalInner):
    qualname = ACT + "load_action_list"
    ordinal = 1


@loop_contract
class LoadActionListPrivescs(_LalInner):
    qualname = ACT + "load_action_list"
    ordinal = 2


@contract
class LoadActionListBounded(Contract):
    qualname = ACT + "load_action_list"
    unbounded = True            # symbolic scenario of any size: record-list loop invariants (LoadActionListHosts / ...)
    prefer_ematch = True        # the list-building invariants close by pure E-matching (patterns on lal_idx / Select)
    tags = {"": ("C11", "C05", "C12", "C10", "C19", "C07", "C01")}

    def variants(self):
        return [f"{e}/{p}" for e in range(len(E_SHAPES)) for p in range(len(P_SHAPES))]

    def unbounded_variants(self):
        return ["symbolic"]

    def setup(self, I, variant):
        if variant == "symbolic":
            sig = sig_setup(I)
            for ax in lal_axioms(sig):
                I.ctx.assume(ax)
            sc = sig.scenario_obj(I)
            S = Scope(sig=sig)
            S.extra["cfg"] = None
            S.a = {"scenario": sc}
            S.call_args = ([sc], {})
            return S
        cfg = bounded_cfg(I, variant)
        sig = sig_setup(I)
        sc = sig.scenario_obj(I)
        S = Scope(sig=sig)
        S.extra["cfg"] = cfg
        S.a = {"scenario": sc}
        S.call_args = ([sc], {})
        return S

    def bind(self, I, fi, args, kwargs):
        S = super().bind(I, fi, args, kwargs)
        S.sig = I.ext_state["sig"]
        return S

    def ensures_symbolic(self, I, S):
        sig = S.sig
        lst = S.result
        ok = isinstance(lst, SymSeq) and getattr(lst, "rec", None) is not None
        out = [("C11.list-of-actions", z3.BoolVal(bool(ok)))]
        if not ok:
            return out
        N, K = ival(sig.N), lal_K(sig)
        # size: n = lal_base(N) (exit invariant) and lal_base(N) = N*K (lemma, proved by induction below)
        out.append(("C11.flat-size", z3.Implies(lal_base(N) == N * K, ival(lst.n) == N * K)))
        out += lal_rows(sig, lst, N, "C11.flat-enumeration")
        out += lal_lemmas()
        return out

    def ensures(self, I, S):
        if getattr(S, "callsite", False):
            return []
        sig, cfg = S.sig, S.extra["cfg"]
        if cfg is None:
            return self.ensures_symbolic(I, S)
        lst = S.result
        ok = isinstance(lst, PyList) and all(isinstance(x, Obj) for x in lst.items)
        out = [("C11.list-of-actions", z3.BoolVal(ok))]
        if not ok:
            return out
        nE, nP = len(cfg["e_shape"]), len(cfg["p_shape"])
        k = 4 + nE + nP
        out.append(("C11.flat-size", z3.BoolVal(len(lst.items) == sig.N * k)))
        if len(lst.items) != sig.N * k:
            return out
        cs = []
        nm = lambda v: None if v is None else NameK(v)
        for h, ad in enumerate(sig.addrs):
            base = h * k
            scans = [("ServiceScan", sig.cost_srv), ("OSScan", sig.cost_os), ("SubnetScan", sig.cost_sub),
                     ("ProcessScan", sig.cost_proc)]
            for j, (kind, cost) in enumerate(scans):
                cs.append(action_fields_ok(sig, lst.items[base + j], kind, ad, {"cost": cost, "prob": z3.RealVal(1)}))
            for e, (sv, ov) in enumerate(cfg["e_shape"]):
                ee = z3.IntVal(e)
                cs.append(action_fields_ok(sig, lst.items[base + 4 + e], "Exploit", ad, {
                    "cost": sig.e_cost(ee), "prob": sig.e_prob(ee), "access": sig.e_access(ee),
                    "service": nm(sv), "os": nm(ov)}))
            for p, (pv, ov) in enumerate(cfg["p_shape"]):
                pp = z3.IntVal(p)
                cs.append(action_fields_ok(sig, lst.items[base + 4 + nE + p], "PrivilegeEscalation", ad, {
                    "cost": sig.p_cost(pp), "prob": sig.p_prob(pp), "access": sig.p_access(pp),
                    "process": nm(pv), "os": nm(ov)}))
        out.append(("C11.flat-enumeration", z3.And(*cs)))
        out.append(("C11.flat-size-is-advertised", z3.BoolVal(len(lst.items) == sig.N * (nE + nP + 4))))
        return out


def _lal_havoc(self, I, S):
    """call-site model of load_action_list in unbounded mode: a list of N*(4+nE+nP) abstract actions (the length is
    the proved clause C11.flat-size; users of the flat space only need targets and identities of the elements)"""
    sig = S.sig
    n = ival(sig.N) * (ival(sig.nE) + ival(sig.nP) + 4)
    acls = I.repo.cls(ACT + "Action")
    return SymSeq(n, lambda i: Obj(acls, {"target": (mk(tgt_sub(ival(i)), "int"), mk(tgt_hid(ival(i)), "int")),
                                           "__abs__": AbsVal(act_at(ival(i)), "action")}, fresh=False), "actions")


LoadActionListBounded.havoc = _lal_havoc
LoadActionListBounded.inline_when_concrete = True


@contract
class ParamInit(Contract):
    qualname = ACT + "ParameterisedActionSpace.__init__"
    callable_by_contract = False
    bounded = False
    tags = {"": ("C10", "C11", "C12", "C14")}

    def setup(self, I, variant):
        sig = sig_setup(I)
        sc = sig.scenario_obj(I)
        sp = Obj(I.repo.cls(ACT + "ParameterisedActionSpace"), {}, fresh=False, label="action_space")
        S = Scope(sig=sig)
        S.a = {"self": sp}
        S.call_args = ([sp, sc], {})
        return S

    def modifies(self, I, S):
        return [S.a["self"]]

    def ensures(self, I, S):
        sig = S.sig
        nv = S.a["self"].fields.get("nvec")
        ok = isinstance(nv, PyList) and len(nv.items) == 6
        out = [("C11.nvec-has-six-parameters", z3.BoolVal(ok))]
        if ok:
            v = [ival(x) for x in nv.items]
            out.append(("C11.nvec", z3.And(
                v[0] == 6, v[1] == ival(sig.nS) - 1, v[3] == ival(sig.nOS) + 1, v[4] == ival(sig.nSrv),
                v[5] == ival(sig.nProc),
                sig.forall_range(sig.nS, lambda s: sig.size(ival(s)) <= v[2], "nv"),
                sig.exists_range(sig.nS, lambda s: sig.size(ival(s)) == v[2], "ne"))))
        return out


@contract
class FlatInit(Contract):
    qualname = ACT + "FlatActionSpace.__init__"
    callable_by_contract = False
    bounded = False
    tags = {"": ("C10", "C11", "C12", "C14")}

    def setup(self, I, variant):
        sig = sig_setup(I)
        sc = sig.scenario_obj(I)
        sp = Obj(I.repo.cls(ACT + "FlatActionSpace"), {}, fresh=False, label="action_space")
        S = Scope(sig=sig)
        S.a = {"self": sp}
        S.call_args = ([sp, sc], {})
        return S

    def modifies(self, I, S):
        return [S.a["self"]]

    def ensures(self, I, S):
        sig = S.sig
        n = S.a["self"].fields.get("n")
        acts = S.a["self"].fields.get("actions")
        ok = n is not None and isinstance(acts, (SymSeq, PyList))
        out = [("C11.flat-space-has-list", z3.BoolVal(ok))]
        if ok:
            ln = ival(acts.n) if isinstance(acts, SymSeq) else z3.IntVal(len(acts.items))
            out.append(("C11.flat-n-is-list-length", z3.And(ival(n) == ln,
                                                            ival(n) == ival(sig.N) * (ival(sig.nE) + ival(sig.nP) + 4))))
        return out


# ---------------------------------------------------------------------------- NASimEnv.__init__

@contract
class EnvInit(Contract):
    qualname = "nasim.envs.environment.NASimEnv.__init__"
    callable_by_contract = False
    bounded = False
    global_writes_allowed = ("nasim.envs.host_vector.HostVector",)
    tags = {"": ("C10", "C19", "C09", "C04", "C12", "C14")}

    def variants(self):
        return ["flat-actions", "param-actions"]

    def setup(self, I, variant):
        from .c_layout import havoc_class_state
        sig = sig_setup(I)
        inf_setup(I, sig)
        st = havoc_class_state(I)
        st["address_space_bounds"] = (SymV(z3.Int("prevB0"), "int"), SymV(z3.Int("prevB1"), "int"))
        sc = sig.scenario_obj(I)
        env = Obj(I.repo.cls("nasim.envs.environment.NASimEnv"), {}, fresh=False, label="env")
        S = Scope(sig=sig)
        S.a = {"self": env}
        flat_obs = z3.Bool("flat_obs")
        fully = z3.Bool("fully_obs")
        S.extra.update(flat_obs=flat_obs, flat_actions=(variant == "flat-actions"))
        S.call_args = ([env, sc], {"fully_obs": SymV(fully, "bool"), "flat_actions": variant == "flat-actions",
                                   "flat_obs": SymV(flat_obs, "bool")})
        return S

    def modifies(self, I, S):
        return [S.a["self"]]

    def ensures(self, I, S):
        from .c_layout import layout_installed, hv_state
        sig = S.sig
        L = sig.layout()
        env = S.a["self"]
        f = env.fields
        out = []
        box = f.get("observation_space")
        ok = isinstance(box, PyDict) and box.d.get("__box__") and isinstance(box.d.get("shape"), tuple)
        out.append(("C10.observation-space-is-box", z3.BoolVal(bool(ok))))
        if ok:
            shp = box.d["shape"]
            N1 = ival(sig.N) + 1
            if len(shp) == 1:
                out.append(("C10.space-shape", z3.And(S.extra["flat_obs"], ival(shp[0]) == N1 * L.W)))
            elif len(shp) == 2:
                out.append(("C10.space-shape", z3.And(z3.Not(S.extra["flat_obs"]), ival(shp[0]) == N1, ival(shp[1]) == L.W)))
            else:
                out.append(("C10.space-shape", z3.BoolVal(False)))
            lo, hi = rval(box.d["low"]), rval(box.d["high"])
            out.append(("C10.space-bounds", z3.And(lo <= 0, hi >= 2, sig.forall_hosts(lambda i: z3.And(
                lo <= sig.hval(ival(i)), sig.hval(ival(i)) <= hi, lo <= sig.dval(ival(i)), sig.dval(ival(i)) <= hi), "eb"))))
        sp = f.get("action_space")
        want = "FlatActionSpace" if S.extra["flat_actions"] else "ParameterisedActionSpace"
        out.append(("C10.action-space-kind", z3.BoolVal(isinstance(sp, Obj) and sp.cls.name == want)))
        out.append(("C04.steps-start-at-zero", ival(f.get("steps", -1)) == 0))
        # the three mode switches are stored as given (every later use reads these fields)
        args = S.call_args[1]
        same = lambda a, b: z3.BoolVal(a is b) if isinstance(a, bool) or isinstance(b, bool) else \
            (bval(a) == bval(b) if a is not None and b is not None else z3.BoolVal(False))
        out.append(("C12.mode-flags-stored-as-given", z3.And(*[same(f.get(k), args[k]) for k in
                                                               ("fully_obs", "flat_actions", "flat_obs")])))
        out += [("C19." + l.split(".", 1)[1], t) for l, t in layout_installed(sig, hv_state(I))]
        return out


@contract
class GymEnvInit(EnvInit):
    """the gymnasium.make() entry point: NASimGymEnv(scenario, fully_obs=, flat_actions=, flat_obs=) must build the
    environment the keyword arguments describe (registered ids differ only in these keywords)"""
    qualname = "nasim.envs.gym_env.NASimGymEnv.__init__"

    def variants(self):
        return ["flat-actions", "param-actions", "flat-actions/by-name"]

    def setup(self, I, variant):
        by_name = variant.endswith("/by-name")
        S = super().setup(I, variant.split("/")[0])
        env = Obj(I.repo.cls("nasim.envs.gym_env.NASimGymEnv"), {}, fresh=False, label="env")
        S.a = {"self": env}
        S.call_args = ([env] + list(S.call_args[0][1:]), S.call_args[1])
        S.extra["by_name"] = by_name
        if by_name:
            # the path gymnasium.make() takes: a benchmark NAME; the scenario is whatever make_benchmark_scenario(name)
            # returns for it (call-site model: the generator is handed the parameters it is called with)
            I.ext_state["toplevel_scenario"] = S.call_args[0][1]
            m = I.repo.module("nasim.scenarios.benchmark.generated")
            reg = I.module_global(m, "AVAIL_GEN_BENCHMARKS")
            for d in [reg] + list(reg.d.values()):
                d.fresh = False
            S.extra["reg"] = reg
            S.call_args = ([env, "small-gen"], S.call_args[1])
        return S

    def modifies(self, I, S):
        return [S.a["self"]] + (list(S.extra["reg"].d.values()) if S.extra.get("by_name") else [])

    def ensures(self, I, S):
        out = super().ensures(I, S)
        if S.extra.get("by_name"):
            kw = I.ext_state.get("generate_called_with")
            ok = isinstance(kw, dict) and "seed" in kw
            out.append(("C14.registered-id-uses-the-benchmarks-own-seed", z3.BoolVal(ok and kw["seed"] is None)))
        return out


# ---------------------------------------------------------------------------- Scenario.__init__ (host numbering)

@loop_contract
class ScenarioInitLoop(LoopContract):
    qualname = SCN + "__init__"
    ordinal = 0
    tags = ("C09", "C19", "C01", "C02", "C03", "C04", "C05", "C06", "C07", "C08", "C10", "C11", "C12", "C13")

    def snapshot(self, I, fr, seq):
        return {}

    def havoc(self, I, fr, entry, seq):
        selfobj = fr.locals["self"]
        selfobj.fields["host_num_map"] = SDict(2, "int", I.ctx.fresh("hnm_dom", z3.ArraySort(I_, I_, B_)),
                                               I.ctx.fresh("hnm_val", z3.ArraySort(I_, I_, I_)), fresh=True,
                                               label="host_num_map")
        for v in ("host_num", "host_addr"):
            fr.locals.pop(v, None)

    def inv(self, I, fr, entry, seq, k):
        sig = I.ext_state["sig"]
        m = fr.locals["self"].fields["host_num_map"]
        if isinstance(m, PyDict):
            return [("prefix", z3.BoolVal(not m.d) if z3.is_int_value(z3.simplify(k)) and z3.simplify(k).as_long() == 0
                     else z3.BoolVal(False))]
        j = sig.qvar("hn")
        return [("prefix", z3.ForAll([j], z3.Implies(z3.And(0 <= j, j < k), z3.And(
            z3.Select(m.dom, sig.asub(j), sig.ahid(j)), z3.Select(m.val, sig.asub(j), sig.ahid(j)) == j))))]


@contract
class ScenarioInit(Contract):
    qualname = SCN + "__init__"
    callable_by_contract = False
    bounded = False
    # the host numbering is what ties a host's row in every tensor to its configuration: tensorize's clauses rest on it
    # ... and so does everything the dynamics, the goal test, the observations and the action mask look up by row
    tags = {"": ("C09", "C19", "C11", "C01", "C08", "C04", "C02", "C03", "C05", "C06", "C07", "C10", "C12", "C13")}

    def setup(self, I, variant):
        sig = sig_setup(I)
        sc = sig.scenario_obj(I)           # runs the real __init__ once for the dict; run it again on a fresh object
        obj = Obj(I.repo.cls("nasim.scenarios.scenario.Scenario"), {}, fresh=False, label="scenario-under-init")
        S = Scope(sig=sig)
        S.a = {"self": obj}
        S.call_args = ([obj, sc.fields["scenario_dict"]], {"name": "scn"})
        return S

    def modifies(self, I, S):
        return [S.a["self"]]

    def ensures(self, I, S):
        sig = S.sig
        m = S.a["self"].fields.get("host_num_map")
        if isinstance(m, SDict):
            j = sig.qvar("hn")
            ok = z3.ForAll([j], z3.Implies(z3.And(0 <= j, j < ival(sig.N)), z3.And(
                z3.Select(m.dom, sig.asub(j), sig.ahid(j)), z3.Select(m.val, sig.asub(j), sig.ahid(j)) == j)))
        elif isinstance(m, PyDict):
            ok = z3.BoolVal(not sig.symbolic and list(m.d.items()) == [(a, i) for i, a in enumerate(sig.addrs)])
        else:
            ok = z3.BoolVal(False)
        return [("C09.host-numbering-is-host-order", ok)]
