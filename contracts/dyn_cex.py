"""counterexample concretisation for the dynamics cluster: z3 model (bounded, concrete-structured
Sigma) -> JSON inputs for the real classes + the engine's predicted outputs under that model."""
import z3
from fractions import Fraction

from pyvc.values import SymV, Obj, PyDict, SDict, NpArr, AbsVal, ival, rval, bval, NONE_ID
from . import vocab as V


def mev(m, t):
    """python value of term t under model m (with completion)"""
    if isinstance(t, (bool, int, float)):
        return t
    v = m.eval(t, model_completion=True)
    if z3.is_true(v):
        return True
    if z3.is_false(v):
        return False
    if z3.is_int_value(v):
        return v.as_long()
    if z3.is_rational_value(v):
        f = Fraction(v.numerator_as_long(), v.denominator_as_long())
        return float(f) if f.denominator != 1 else float(f.numerator)
    if z3.is_algebraic_value(v):
        return float(v.approx(10).as_fraction())
    raise ValueError(f"cannot evaluate {t} -> {v}")


def scenario_json(m, sig):
    subs = sig.concrete["subnets"]
    nS = len(subs)
    n_os, n_srv, n_proc = sig.nOS, sig.nSrv, sig.nProc
    topo = [[mev(m, sig.topo(z3.IntVal(a), z3.IntVal(b))) for b in range(nS)] for a in range(nS)]
    fw = {}
    for a in range(nS):
        for b in range(nS):
            if mev(m, sig.fwdom(z3.IntVal(a), z3.IntVal(b))):
                fw[f"{a},{b}"] = [k for k in range(n_srv) if mev(m, sig.allow(z3.IntVal(a), z3.IntVal(b), z3.IntVal(k)))]
    hfw = {}
    for (ds, dh) in sig.addrs:
        ent = {}
        for (ss, sh) in sig.addrs:
            if mev(m, sig.hfwdom(*[z3.IntVal(x) for x in (ds, dh, ss, sh)])):
                ent[f"{ss},{sh}"] = [k for k in range(n_srv)
                                     if mev(m, sig.deny(*[z3.IntVal(x) for x in (ds, dh, ss, sh, k)]))]
        hfw[f"{ds},{dh}"] = ent
    sens = [[mev(m, sig.ssub(z3.IntVal(j))), mev(m, sig.shid(z3.IntVal(j)))] for j in range(sig.nSens)]
    return {"subnets": subs, "topology": topo, "firewall": fw, "host_firewall": hfw,
            "bounds": [mev(m, sig.B0), mev(m, sig.B1)], "n_os": n_os, "n_srv": n_srv, "n_proc": n_proc,
            "addrs": [list(a) for a in sig.addrs], "sensitive": sens,
            "hval": [mev(m, sig.hval(z3.IntVal(i))) for i in range(sig.N)],
            "dval": [mev(m, sig.dval(z3.IntVal(i))) for i in range(sig.N)]}


def width(m, sig):
    return mev(m, sig.layout().W)


def tensor_json(m, sig, T):
    W = width(m, sig)
    return [[mev(m, z3.Select(z3.Select(T, z3.IntVal(i)), z3.IntVal(c))) for c in range(W)] for i in range(sig.N)]


def vector_json(m, sig, vec):
    W = width(m, sig)
    return [mev(m, z3.Select(vec, z3.IntVal(c))) for c in range(W)]


def action_json(m, a):
    d = {"kind": a.kind}
    if a.kind != "NoOp":
        d.update(target=[mev(m, a.tsub), mev(m, a.thid)], cost=mev(m, a.cost), prob=mev(m, a.prob), req=mev(m, a.req))
    if a.kind == "Exploit":
        d.update(service=mev(m, a.srv), os=mev(m, a.os), access=mev(m, a.access))
    if a.kind == "PrivilegeEscalation":
        d.update(process=mev(m, a.proc), os=mev(m, a.os), access=mev(m, a.access))
    return d


def result_json(m, res):
    f = res.fields
    out = {}
    for k in ("success", "connection_error", "permission_error", "undefined_error"):
        out[k] = bool(mev(m, bval(f[k])))
    out["value"] = mev(m, rval(f["value"]))
    for k in ("discovered", "newly_discovered"):
        d = f.get(k)
        if isinstance(d, PyDict):
            out[k] = {f"{a[0]},{a[1]}": bool(mev(m, bval(v))) for a, v in d.d.items()}
    return out


def make(harness, I, S, extra=None):
    """returns callable(model) -> replay dict, or None in unbounded (symbolic) mode"""
    sig = S.sig
    if sig is None or sig.symbolic:
        return None

    def build(m):
        out = {"harness": harness, "scenario": scenario_json(m, sig), "draws": [mev(m, d[1]) for d in I.ctx.draws if d[0] == "rand"]}
        act = getattr(S, "act", None)
        if act is not None:
            out["action"] = action_json(m, act)
        pred = {}
        if harness == "hv_perform_action":
            out["vector"] = vector_json(m, sig, S.old["vec"])
            if S.result is not None:
                nxt, res = S.result
                pred["next_vector"] = vector_json(m, sig, nxt.fields["vector"].content())
                pred["result"] = result_json(m, res)
            pred["input_vector_after"] = vector_json(m, sig, S.old["cell"].content)
        else:
            out["tensor"] = tensor_json(m, sig, S.old["T"])
            for k, v in (extra or {}).items():
                out[k] = v(m) if callable(v) else v
            r = S.result
            if harness in ("net_perform_action", "net_subnet_scan") and r is not None:
                nxt, res = r
                pred["next_tensor"] = tensor_json(m, sig, nxt.fields["tensor"].content())
                pred["result"] = result_json(m, res)
            elif harness == "net_reset" and r is not None:
                pred["next_tensor"] = tensor_json(m, sig, r.fields["tensor"].content())
            elif harness == "net_update_reachable":
                pred["next_tensor"] = tensor_json(m, sig, S.a["state"].fields["tensor"].content())
            elif harness in ("net_hrp", "net_tp", "net_goal") and r is not None:
                pred["result"] = bool(mev(m, bval(r)))
            st = S.a.get("state") or S.a.get("next_state")
            if st is not None and harness not in ("net_update_reachable", "net_subnet_scan"):
                pred["input_tensor_after"] = tensor_json(m, sig, st.fields["tensor"].content())
        pred["exception"] = getattr(S, "exc", None).kind if getattr(S, "exc", None) else None
        out["predicted"] = pred
        return out
    return build


def make_obs(I, S):
    """State.get_observation counterexamples"""
    sig = S.sig
    if sig is None or sig.symbolic:
        return None

    def build(m):
        f = S.extra["res"].fields
        out = {"harness": "state_get_observation", "scenario": scenario_json(m, sig), "tensor": tensor_json(m, sig, S.old["T"]),
               "action": action_json(m, S.act), "fully_obs": bool(mev(m, S.extra["fully"])), "draws": [],
               "result": {k: bool(mev(m, bval(f[k]))) for k in ("success", "connection_error", "permission_error", "undefined_error")}}
        out["result"]["value"] = mev(m, rval(f["value"]))
        if isinstance(f.get("access"), SymV):
            out["result"]["access"] = mev(m, rval(f["access"]))
        for k in ("discovered", "newly_discovered"):
            d = f.get(k)
            out["result"][k] = {f"{a[0]},{a[1]}": bool(mev(m, bval(v))) for a, v in d.d.items()} if isinstance(d, PyDict) else {}
        pred = {}
        obs = S.result
        if isinstance(obs, Obj) and "tensor" in obs.fields:
            O = obs.fields["tensor"].cell.content
            W = width(m, sig)
            pred["obs_tensor"] = [[mev(m, z3.Select(z3.Select(O, z3.IntVal(i)), z3.IntVal(c))) for c in range(W)]
                                  for i in range(sig.N + 1)]
        pred["exception"] = getattr(S, "exc", None).kind if getattr(S, "exc", None) else None
        out["predicted"] = pred
        return out
    return build


def make_observe(I, S):
    sig = S.sig
    if sig is None or sig.symbolic:
        return None

    def build(m):
        out = {"harness": "hv_observe", "scenario": scenario_json(m, sig), "vector": vector_json(m, sig, S.old["vec"]),
               "switches": {k: bool(mev(m, v)) for k, v in S.extra["sw"].items()}, "draws": []}
        pred = {}
        if isinstance(S.result, NpArr):
            pred["obs_vector"] = vector_json(m, sig, S.result.content())
        out["predicted"] = pred
        return out
    return build


def make_env(I, S, limit):
    """NASimEnv.step / generative_step counterexamples: inputs only; the replay evaluates the env-level clauses
    natively on the real environment (the engine's outputs at these call sites are contract-havoced symbols)"""
    sig = S.sig
    if sig is None or sig.symbolic:
        return None

    def build(m):
        env = S.a["self"]
        cur = env.fields["current_state"] if "state" not in S.a or S.a.get("state") is None else S.a["state"]
        T = S.old["env"]["current_T"] if "env" in S.old and ("state" not in S.a) else S.old.get("T", S.old["env"]["current_T"])
        out = {"harness": "env_step", "scenario": scenario_json(m, sig), "tensor": tensor_json(m, sig, T),
               "action": action_json(m, S.act) if getattr(S, "act", None) is not None else {"kind": "NoOp"},
               "steps0": mev(m, ival(S.old["env"]["steps"])),
               "step_limit": mev(m, sig.step_limit) if limit else None,
               "modes": {k: bool(mev(m, z3.Bool(k))) for k in ("fully_obs", "flat_obs")},
               "draws": [mev(m, d[1]) for d in I.ctx.draws if d[0] == "rand"] or [0.5], "predicted": {}}
        return out
    return build
