"""contracts for nasim/envs/host_vector.py (dynamics part): HostVector.perform_action"""
import z3

from pyvc.contract import Contract, Scope, contract
from pyvc.values import SymV, Obj, NpCell, NpArr, AbsVal, mk, ival, rval, NONE_ID, A1
from . import vocab as V

DictSort = z3.DeclareSort("PyDictAbs")
svc_dict = z3.Function("services_dict", A1, DictSort)
os_dict = z3.Function("os_dict", A1, DictSort)
proc_dict = z3.Function("processes_dict", A1, DictSort)
EMPTY_DICT = z3.Const("empty_dict", DictSort)


def hv_spec(sig, a, vec):
    """functional specification of HostVector.perform_action (helper contract, derived from the code
    and its call sites; the *property* clauses are stated separately in ensures())."""
    L = sig.layout()
    comp = z3.Select(vec, L.comp) != 0
    acc = z3.Select(vec, L.access)
    value = z3.Select(vec, L.value)
    onhost_ok = z3.And(comp, z3.ToReal(a.req) <= acc)
    hp = V.host_pre(sig, a, vec)
    T, F = z3.BoolVal(True), z3.BoolVal(False)
    zero = z3.RealVal(0)
    new_acc = z3.If(acc == 2, acc, z3.ToReal(a.access))
    gain = z3.If(z3.And(acc != 2, a.access == 2), value, zero)
    if a.kind in ("ServiceScan", "OSScan"):
        return dict(success=T, next=vec, value=zero, perm=F)
    if a.kind == "Exploit":
        nxt = z3.Store(z3.Store(vec, L.comp, z3.RealVal(1)), L.access, new_acc)
        return dict(success=hp, next=z3.If(hp, nxt, vec), value=z3.If(hp, gain, zero),
                    perm=z3.And(z3.Not(hp), z3.Not(onhost_ok)))
    if a.kind == "ProcessScan":
        return dict(success=onhost_ok, next=vec, value=zero, perm=z3.Not(onhost_ok))
    if a.kind == "PrivilegeEscalation":
        nxt = z3.Store(vec, L.access, new_acc)
        return dict(success=hp, next=z3.If(hp, nxt, vec), value=z3.If(hp, gain, zero), perm=z3.Not(onhost_ok))
    # SubnetScan / NoOp reaching the host level: only the on-host access test applies
    return dict(success=F, next=vec, value=zero, perm=z3.Not(onhost_ok))


def result_fields(res):
    """(success, value, conn, perm, undef) terms of an ActionResult Obj"""
    from pyvc.values import bval
    f = res.fields
    return (bval(f["success"]), rval(f["value"]), bval(f["connection_error"]), bval(f["permission_error"]),
            bval(f["undefined_error"]))


@contract
class HVPerformAction(Contract):
    qualname = "nasim.envs.host_vector.HostVector.perform_action"
    tags = {
        "C01": ("C01",), "C05": ("C05", "C20"), "C07": ("C07",), "C04": ("C04", "C20"), "C13": ("C13",),
        "spec": ("C01", "C02", "C03", "C04", "C05", "C07", "C12", "C13"),
        "raises": ("C01", "C07", "C10"),
    }

    def variants(self):
        return list(V.KINDS)

    def setup(self, I, variant):
        sig = V.Sigma(concrete=I.ext_state.get("concrete"))
        for ax in sig.wfs():
            I.ctx.assume(ax)
        L = sig.install_layout(I)
        vec = z3.Const("vec", A1)
        cell = NpCell(vec, (L.W,), fresh=False, label="self.vector")
        hvcls = I.repo.cls("nasim.envs.host_vector.HostVector")
        selfobj = Obj(hvcls, {"vector": NpArr(cell)}, fresh=False, label="self")
        a = V.ActRec(variant)
        S = Scope(sig=sig, act=a)
        S.a = {"self": selfobj, "action": a.obj(I)}
        S.call_args = ([selfobj, S.a["action"]], {})
        return S

    def concretize(self, I, S):
        from . import dyn_cex
        return dyn_cex.make("hv_perform_action", I, S)

    def _act(self, S):
        if getattr(S, "act", None) is not None:
            return S.act
        return S.extra["act"]

    def requires(self, I, S):
        sig = S.sig
        L = sig.layout()
        a = self._act(S)
        vec = S.a["self"].fields["vector"].content()
        return [("wf-row", L.wf_row(vec))] + [(f"wfa{i}", t) for i, t in enumerate(a.wfa(sig))]

    def snapshot(self, I, S):
        S.old["vec"] = S.a["self"].fields["vector"].content()
        S.old["cell"] = S.a["self"].fields["vector"].cell

    def ensures(self, I, S):
        sig, a = S.sig, self._act(S)
        L = sig.layout()
        vec = S.old["vec"]
        nxt_obj, res = S.result
        nxt = nxt_obj.fields["vector"].content()
        succ, value, conn, perm, undef = result_fields(res)
        sp = hv_spec(sig, a, vec)
        hp = V.host_pre(sig, a, vec)
        oc, oa = z3.Select(vec, L.comp), z3.Select(vec, L.access)
        nc, na = z3.Select(nxt, L.comp), z3.Select(nxt, L.access)
        out = []
        # ---- helper (functional) contract used at call sites
        out.append(("spec.success", succ == sp["success"]))
        out.append(("spec.next", nxt == sp["next"]))
        out.append(("spec.value", value == sp["value"]))
        out.append(("spec.flags", z3.And(perm == sp["perm"], z3.Not(conn), z3.Not(undef))))
        # ---- property clauses, written from the statements
        changed = z3.Or(nc != oc, na != oa)
        out.append(("C01.only-if", z3.Implies(changed, z3.And(z3.BoolVal(a.kind in ("Exploit", "PrivilegeEscalation")), hp))))
        if a.kind in ("Exploit", "PrivilegeEscalation"):
            out.append(("C01.if", z3.Implies(hp, z3.And(succ, nc == 1, na == V.rmax(oa, z3.ToReal(a.access))))))
        else:
            out.append(("C01.scan-noop-neutral", z3.And(nc == oc, na == oa)))
        out.append(("C01.frame", nxt == z3.Store(z3.Store(vec, L.comp, nc), L.access, na)))
        out.append(("C04.monotone-row", z3.And(nc >= oc, na >= oa)))
        newly_root = z3.And(succ, oa < 2, na == 2)
        out.append(("C05.value", value == z3.If(newly_root, z3.Select(vec, L.value), z3.RealVal(0))))
        out.append(("C07.flags", z3.And(z3.Implies(succ, z3.Not(z3.Or(conn, perm, undef))),
                                        z3.Not(z3.And(conn, perm)), z3.Not(z3.And(conn, undef)),
                                        z3.Not(z3.And(perm, undef)))))
        out.append(("C07.failure-changes-nothing", z3.Implies(z3.Not(succ), z3.And(nxt == vec, value == 0))))
        out.append(("wf-row-preserved", L.wf_row(nxt)))
        return out

    def frame(self, I, S):
        cell = S.old["cell"]
        nxt_obj, res = S.result
        out = [("C13.input-untouched", cell.content == S.old["vec"])]
        ncell = nxt_obj.fields["vector"].cell
        out.append(("C13.fresh-result", z3.BoolVal(ncell is not cell and ncell.fresh and nxt_obj.fields["vector"].row is None)))
        return out

    # ---- call-site model
    def bind(self, I, fi, args, kwargs):
        S = super().bind(I, fi, args, kwargs)
        S.sig = I.ext_state["sig"]
        S.extra["act"] = I.ext_state["act"]
        return S

    def havoc(self, I, S):
        L = S.sig.layout()
        hvcls = I.repo.cls("nasim.envs.host_vector.HostVector")
        arcls = I.repo.cls("nasim.envs.action.ActionResult")
        ctx = I.ctx
        nvec = ctx.fresh("hv_next", A1)
        ncell = NpCell(nvec, (L.W,), fresh=True, label="next_host.vector")
        nxt = Obj(hvcls, {"vector": NpArr(ncell)}, fresh=True)
        a = self._act(S)
        vec = S.old["vec"]
        f = {
            "success": SymV(ctx.fresh("hv_success", z3.BoolSort()), "bool"),
            "value": SymV(ctx.fresh("hv_value", z3.RealSort()), "real"),
            "connection_error": False,
            "permission_error": SymV(ctx.fresh("hv_perm", z3.BoolSort()), "bool"),
            "undefined_error": False,
            "services": AbsVal(ctx.fresh("hv_services", DictSort), "dict"),
            "os": AbsVal(ctx.fresh("hv_os", DictSort), "dict"),
            "processes": AbsVal(ctx.fresh("hv_processes", DictSort), "dict"),
            "access": SymV(ctx.fresh("hv_access", z3.RealSort()), "real"),
            "discovered": AbsVal(EMPTY_DICT, "dict"),
            "newly_discovered": AbsVal(EMPTY_DICT, "dict"),
        }
        res = Obj(arcls, f, fresh=True)
        return (nxt, res)


class _DictGetter(Contract):
    """HostVector.services / .os / .processes: the returned dict is abstracted to an uninterpreted
    function of the vector content (equal vectors => equal dicts); its loop is verified separately."""
    fn = None
    callable_by_contract = True
    verify = False      # ASSUMED at call sites for now (reported under assumptions); loop proof: see c_layout
    tags = {"": ("C12", "C13")}

    def bind(self, I, fi, args, kwargs):
        S = super().bind(I, fi, args, kwargs)
        return S

    def havoc(self, I, S):
        vec = S.a["self"].fields["vector"].content()
        return AbsVal(self.fn(vec), "dict")


@contract
class HVServices(_DictGetter):
    qualname = "nasim.envs.host_vector.HostVector.services"
    fn = staticmethod(svc_dict)


@contract
class HVOs(_DictGetter):
    qualname = "nasim.envs.host_vector.HostVector.os"
    fn = staticmethod(os_dict)


@contract
class HVProcesses(_DictGetter):
    qualname = "nasim.envs.host_vector.HostVector.processes"
    fn = staticmethod(proc_dict)


# ---------------------------------------------------------------------------- the three dict getters, proved
# (the call-site abstraction above says "the dict is a function of the vector"; here the real loop is verified to
#  build exactly {name k -> vector[start + k]} for the scenario's names, which is such a function)

from pyvc.contract import LoopContract, loop_contract
from pyvc.values import SDict, PyDict, NameK

I_ = z3.IntSort()


class _GetterLoop(LoopContract):
    tags = ("C12", "C13", "C08")
    local = None
    start = None

    def snapshot(self, I, fr, seq):
        return {"vec": fr.locals["self"].fields["vector"].content()}

    def havoc(self, I, fr, entry, seq):
        fr.locals[self.local] = SDict(1, "real", I.ctx.fresh(self.local + "_dom", z3.ArraySort(I_, z3.BoolSort())),
                                      I.ctx.fresh(self.local + "_val", z3.ArraySort(I_, z3.RealSort())),
                                      fresh=True, label=self.local)

    def inv(self, I, fr, entry, seq, k):
        sig = I.ext_state["sig"]
        L = sig.layout()
        d = fr.locals[self.local]
        start = getattr(L, self.start)
        if isinstance(d, PyDict):
            return [("prefix", z3.BoolVal(not d.d) if z3.is_int_value(z3.simplify(k)) and z3.simplify(k).as_long() == 0
                     else z3.BoolVal(False))]
        j = sig.qvar("gj")
        return [("prefix", z3.ForAll([j], z3.And(
            z3.Select(d.dom, j) == z3.And(0 <= j, j < k),
            z3.Implies(z3.And(0 <= j, j < k), z3.Select(d.val, j) == z3.Select(entry["vec"], start + j))))),
            ("vector-untouched", fr.locals["self"].fields["vector"].content() == entry["vec"])]


class _GetterProved(Contract):
    tags = {"": ("C12", "C13", "C08")}
    start = None
    count = None
    bounded = False

    def setup(self, I, variant):
        sig = V.Sigma(concrete=I.ext_state.get("concrete"))
        for ax in sig.wfs():
            I.ctx.assume(ax)
        I.ext_state["sig"] = sig
        L = sig.install_layout(I)
        vec = z3.Const("gvec", A1)
        cell = NpCell(vec, (L.W,), fresh=False, label="self.vector")
        selfobj = Obj(I.repo.cls("nasim.envs.host_vector.HostVector"), {"vector": NpArr(cell)}, fresh=False, label="self")
        S = Scope(sig=sig)
        S.a = {"self": selfobj}
        S.old["vec"] = vec
        S.old["cell"] = cell
        S.call_args = ([selfobj], {})
        return S

    def ensures(self, I, S):
        if getattr(S, "callsite", False):
            return []
        sig = S.sig
        L = sig.layout()
        d = S.result
        n = ival(getattr(sig, self.count))
        start = getattr(L, self.start)
        if isinstance(d, PyDict) and not sig.symbolic:
            # concrete-structured mode: the dict itself (keys are the names 0..n-1 in scenario order)
            cnt = getattr(sig, self.count)
            keys_ok = [getattr(k, "k", k) for k in d.d] == list(range(cnt)) and not d.sym
            cs = [z3.BoolVal(keys_ok)]
            if keys_ok:
                for k, v in enumerate(d.d.values()):
                    cs.append(rval(v) == z3.Select(S.old["vec"], start + k))
            return [("dict-of-vector-cells", z3.And(*cs))]
        if not isinstance(d, SDict):
            return [("dict-of-vector-cells", z3.BoolVal(False))]
        j = sig.qvar("gj")
        return [("dict-of-vector-cells", z3.ForAll([j], z3.And(
            z3.Select(d.dom, j) == z3.And(0 <= j, j < n),
            z3.Implies(z3.And(0 <= j, j < n), z3.Select(d.val, j) == z3.Select(S.old["vec"], start + j)))))]

    def frame(self, I, S):
        return [("vector-untouched", S.old["cell"].content == S.old["vec"])]


def _mk_getter(name, fn, local, start, count, ordinal=0):
    q = "nasim.envs.host_vector.HostVector." + name
    loop = type("Loop_" + name, (_GetterLoop,), {"qualname": q, "ordinal": ordinal, "local": local, "start": start})
    loop_contract(loop)
    model = {"services": HVServices, "os": HVOs, "processes": HVProcesses}[name]
    proved = type("Proved_" + name, (_GetterProved, model), {"qualname": q, "verify": True, "start": start, "count": count,
                                                               "fn": staticmethod(fn)})
    contract(proved)


_mk_getter("services", svc_dict, "services", "srv0", "nSrv")
_mk_getter("os", os_dict, "os", "os0", "nOS")
_mk_getter("processes", proc_dict, "processes", "proc0", "nProc")
