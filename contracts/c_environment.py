"""contracts for nasim/envs/environment.py: generative_step, step, reset, goal_reached"""
import z3

from pyvc.contract import Contract, Scope, contract
from pyvc.values import (SymV, Obj, NpCell, NpArr, AbsVal, SDict, PyDict, PyList, mk, ival, rval, bval, A1, A2)
from . import vocab as V
from .c_host_vector import result_fields, DictSort, EMPTY_DICT
from .c_network import (dyn_setup, tensor_of, GOAL, goal_def, NetPerformAction, psum, reset_rows)

I_, R_, B_ = z3.IntSort(), z3.RealSort(), z3.BoolSort()

MODES = ("fully_obs", "flat_actions", "flat_obs")


def env_setup(I, kind, limit=None):
    """NASimEnv object over the symbolic scenario; returns (sig, T, state, env, action record).
    The environment is built by symbolically running the REAL NASimEnv.__init__ (so fields a refactoring adds
    there exist as the code computes them); the three fields that make up the episode state (current_state,
    last_obs, steps) are then replaced by arbitrary well-formed symbolic values, and any other field that a method
    other than __init__ writes is havoced and marked hidden (reading it fails reads-no-hidden-mutable-state)."""
    from .c_layout import havoc_class_state
    from pyvc import builtins as B_
    sig, T, st, net, a = dyn_setup(I, kind, with_layout=False)
    envcls = I.repo.cls("nasim.envs.environment.NASimEnv")
    obscls = I.repo.cls("nasim.envs.observation.Observation")
    # the constructor: arbitrary previous global layout, scenario of this Sigma
    havoc_class_state(I)
    INF = z3.Real("INF")
    B_.INF_SYMBOL = INF
    I.ctx.assume(sig.forall_hosts(lambda i: z3.And(-INF < sig.hval(ival(i)), sig.hval(ival(i)) < INF,
                                                   -INF < sig.dval(ival(i)), sig.dval(ival(i)) < INF), "inf"))
    I.ctx.assume(INF > 0)
    scen = sig.scenario_obj(I, limit=limit)
    env = Obj(envcls, {}, fresh=True, label="env")
    modes = {m: SymV(z3.Bool(m), "bool") for m in MODES}
    mem = I.find_member(envcls, "__init__")
    saved_obl = len(I.ctx.obligations)
    I.call_function(mem[1], [env, scen], dict(modes))
    del I.ctx.obligations[saved_obl:]          # the constructor's own obligations belong to its contract (EnvInit)
    B_.INF_SYMBOL = None
    env.fresh = False
    V.mark_preexisting(env)
    sig.install_layout(I)                      # post of the constructor (proved by EnvInit / GenerateInitialState)
    env.fields["network"] = net
    L = sig.layout()
    Tc = z3.Const("T_current", A2)
    cur = V.state_obj(I, sig, Tc, fresh=False, label="current_state")
    I.ctx.assume(V.WF(sig, Tc))
    O = z3.Const("O_last", A2)
    ocell = NpCell(O, (ival(sig.N) + 1, L.W), fresh=False, label="last_obs.tensor")
    last = Obj(obscls, {"obs_shape": (mk(ival(sig.N) + 1, "int"), mk(L.W, "int")), "aux_row": mk(ival(sig.N), "int"),
                        "tensor": NpArr(ocell)}, fresh=False, label="last_obs")
    env.fields.update(current_state=cur, last_obs=last, steps=mk(z3.Int("steps0"), "int"))
    env.fields["action_space"] = Obj(I.repo.cls("nasim.envs.action.FlatActionSpace"), {}, fresh=False, label="action_space")
    env.hidden = set()
    for name in V.mutable_fields(envcls) - {"current_state", "last_obs", "steps"}:
        if name in env.fields:
            env.fields[name] = V.havoc_like(I, env.fields[name], "env_" + name)
            env.hidden.add(name)
    I.ctx.writes[:] = []
    I.ctx.draws[:] = []
    if limit is not None:
        I.ctx.assume(sig.step_limit > 0)
    I.ctx.assume(z3.Int("steps0") >= 0)
    I.ext_state["env"] = env
    return sig, T, st, env, a


def env_snapshot(env):
    f = env.fields
    return {"current_state": f["current_state"], "current_T": tensor_of(f["current_state"]).content,
            "last_obs": f["last_obs"], "last_O": f["last_obs"].fields["tensor"].cell.content,
            "steps": f["steps"], "fields": dict(f)}


def env_frame(env, snap, allowed=()):
    """(label, goal) list: every env field outside `allowed` is the same object/term, and the objects
    it designates are unmodified"""
    out = []
    f = env.fields
    same = []
    for k, v in snap["fields"].items():
        if k in allowed:
            continue
        cur = f.get(k)
        if isinstance(v, SymV) and isinstance(cur, SymV):
            same.append(v.t == cur.t if v.ty != "bool" else v.t == cur.t)
        else:
            same.append(z3.BoolVal(cur is v or cur == v))
    extra = [k for k in f if k not in snap["fields"] and k not in allowed]
    same.append(z3.BoolVal(not extra))
    out.append(("env-fields", z3.And(*same)))
    out.append(("current-state-content", tensor_of(snap["current_state"]).content == snap["current_T"]))
    out.append(("last-obs-content", snap["last_obs"].fields["tensor"].cell.content == snap["last_O"]))
    return out


# ---------------------------------------------------------------------------- State.get_observation (call-site model)

@contract
class GetObservationModel(Contract):
    """call-site abstraction of State.get_observation: a fresh Observation; reads only.  Its content is
    specified and verified under C08 (contracts.c_state)."""
    qualname = "nasim.envs.state.State.get_observation"
    verify = False
    tags = {"": ("C08",)}

    def bind(self, I, fi, args, kwargs):
        S = super().bind(I, fi, args, kwargs)
        S.sig = I.ext_state["sig"]
        return S

    def havoc(self, I, S):
        # a fresh Observation built by the REAL constructor (so fields a refactoring adds exist), with arbitrary content
        sig = S.sig
        L = sig.layout()
        obscls = I.repo.cls("nasim.envs.observation.Observation")
        obs = I.instantiate(obscls, [(mk(ival(sig.N), "int"), mk(L.W, "int"))], {})
        t = obs.fields.get("tensor")
        if isinstance(t, NpArr):
            t.cell.content = I.ctx.fresh("O_new", A2)
            t.cell.label = "obs.tensor"
        obs.label = "obs"
        # remember what the observation was asked for (environment-level clause C08.observation-of-this-action-result)
        I.ext_state["go_call"] = {"args": dict(S.a), "result": obs, "self": S.a.get("self")}
        return obs


@contract
class GetInitialObservationModel(GetObservationModel):
    qualname = "nasim.envs.state.State.get_initial_observation"


# ---------------------------------------------------------------------------- call-site model of Network.perform_action

def _netpa_havoc(self, I, S):
    ctx = I.ctx
    sig = S.sig
    arcls = I.repo.cls("nasim.envs.action.ActionResult")
    T1 = ctx.fresh("T_next", A2)
    nxt = V.state_obj(I, sig, T1, fresh=True, label="next_state")
    f = {"success": SymV(ctx.fresh("pa_success", B_), "bool"), "value": SymV(ctx.fresh("pa_value", R_), "real"),
         "connection_error": SymV(ctx.fresh("pa_conn", B_), "bool"),
         "permission_error": SymV(ctx.fresh("pa_perm", B_), "bool"),
         "undefined_error": SymV(ctx.fresh("pa_undef", B_), "bool")}
    for k in ("services", "os", "processes", "access", "discovered", "newly_discovered"):
        f[k] = AbsVal(ctx.fresh("pa_" + k, DictSort), "dict")
    res = Obj(arcls, f, fresh=True, label="action_result")
    # the callee may draw at most once (its contract says exactly when)
    u = ctx.fresh("U", R_)
    ctx.assume(z3.And(u >= 0, u < 1))
    S.extra["U"] = u
    I.ext_state["pa_U"] = u
    I.ext_state["pa_result"] = (nxt, res)
    I.ext_state["pa_T0"] = S.old["T"]
    return (nxt, res)


def _netpa_ensures_callsite(orig):
    def ensures(self, I, S):
        if not getattr(S, "callsite", False):
            return orig(self, I, S)
        # at a call site the single potential draw is the ghost U created in havoc
        ctx = I.ctx
        saved = ctx.draws
        ctx.draws = saved[:S.old["ndraws"]] + [("rand", S.extra["U"])]
        try:
            out = orig(self, I, S)
        finally:
            ctx.draws = saved
        # clauses that speak about the number of draws are decided at the Network level (C07) and are
        # not assumed here: the ghost draw U exists at every call site, drawn or not
        return [(l, t) for (l, t) in out if not l.startswith("C07.")]
    return ensures


NetPerformAction.havoc = _netpa_havoc
NetPerformAction.ensures = _netpa_ensures_callsite(NetPerformAction.ensures)


def obs_object_ok(sig, obs):
    """the observation object carries a float32 tensor of the advertised 2-D shape (N+1, W)"""
    L = sig.layout()
    t = obs.fields.get("tensor") if isinstance(obs, Obj) else None
    if not (isinstance(t, NpArr) and t.row is None and t.ndim == 2):
        return z3.BoolVal(False)
    sh = t.cell.shape
    return z3.And(z3.BoolVal(t.cell.dtype == "float32"), ival(sh[0]) == ival(sig.N) + 1, ival(sh[1]) == L.W)


def obs_array_ok(sig, arr, flat):
    """the array handed to the agent: float32, shape (N+1, W) or ((N+1)*W,) as the flat_obs switch says"""
    L = sig.layout()
    if not isinstance(arr, NpArr) or arr.row is not None:
        return z3.BoolVal(False)
    sh = arr.cell.shape
    f32 = z3.BoolVal(arr.cell.dtype == "float32")
    if arr.ndim == 2:
        return z3.And(f32, z3.Not(flat), ival(sh[0]) == ival(sig.N) + 1, ival(sh[1]) == L.W)
    if arr.ndim == 1:
        return z3.And(f32, flat, ival(sh[0]) == (ival(sig.N) + 1) * L.W)
    return z3.BoolVal(False)


# ---------------------------------------------------------------------------- generative_step

@contract
class GenerativeStep(Contract):
    may_draw = True      # at most one draw, exactly as C07 states
    qualname = "nasim.envs.environment.NASimEnv.generative_step"
    tags = {"C05": ("C05", "C20"), "C06": ("C06",), "C12": ("C12",), "C13": ("C13",), "C10": ("C10",), "C08": ("C08",),
            "spec": ("C05", "C06", "C12", "C13"), "raises": ("C05", "C06", "C10", "C13"), "frame": ("C13", "C06", "C08")}

    def variants(self):
        return list(V.KINDS)

    def concretize(self, I, S):
        from . import dyn_cex
        return dyn_cex.make_env(I, S, False)

    def setup(self, I, variant):
        sig, T, st, env, a = env_setup(I, variant)
        S = Scope(sig=sig, act=a)
        S.a = {"self": env, "state": st, "action": a.obj(I)}
        S.call_args = ([env, st, S.a["action"]], {})
        I.ctx.assume(GOAL(T) == goal_def(sig, T))
        return S

    def bind(self, I, fi, args, kwargs):
        S = super().bind(I, fi, args, kwargs)
        S.sig = I.ext_state["sig"]
        S.act = I.ext_state["act"]
        return S

    def requires(self, I, S):
        return [("wf", V.WF(S.sig, tensor_of(S.a["state"]).content))]

    def snapshot(self, I, S):
        S.old["T"] = tensor_of(S.a["state"]).content
        S.old["cell"] = tensor_of(S.a["state"])
        S.old["env"] = env_snapshot(S.a["self"])

    def ensures(self, I, S):
        sig, a = S.sig, S.act
        L = sig.layout()
        nxt, obs, reward, done, info = S.result
        T0 = S.old["T"]
        T1 = tensor_of(nxt).content
        v0, v1 = V.View(sig, T0), V.View(sig, T1)
        t = sig.hnum(a.tsub, a.thid)
        out = []
        # what the callee (Network.perform_action) returned on this path, if the run went through its contract
        pa = I.ext_state.get("pa_result")
        if pa is not None and not getattr(S, "callsite", False):
            pnxt, pres = pa
            succ, value, conn, perm, undef = result_fields(pres)
            out.append(("spec.next-is-network-result", z3.BoolVal(nxt is pnxt)))
            out.append(("C05.reward", rval(reward) == value - a.cost))
            isEP = a.kind in ("Exploit", "PrivilegeEscalation")
            newly_root = z3.And(succ, z3.BoolVal(isEP), v0.acc(t) < 2, v1.acc(t) == 2)
            if a.kind == "SubnetScan":
                gained = z3.If(succ, psum(sig, T0, a.tsub, sig.Nk()), z3.RealVal(0))
            else:
                gained = z3.If(newly_root, v0.value(t), z3.RealVal(0))
            out.append(("C05.reward-is-gain-minus-cost", rval(reward) == gained - a.cost))
            out.append(("C05.failed-pays-cost", z3.Implies(z3.Not(succ), rval(reward) == -a.cost)))
            if a.kind == "NoOp":
                out.append(("C05.noop-free", rval(reward) == 0))
            if isinstance(info, PyDict):
                iv = info.d
                out.append(("C12.info-is-result", z3.And(
                    bval(iv["success"]) == succ, rval(iv["value"]) == value, bval(iv["connection_error"]) == conn,
                    bval(iv["permission_error"]) == perm, bval(iv["undefined_error"]) == undef,
                    z3.BoolVal(all(iv[k] is pres.fields[k] for k in ("services", "os", "processes", "access",
                                                                      "discovered", "newly_discovered"))),
                    z3.BoolVal(list(iv.keys()) == ["success", "value", "services", "os", "processes", "access",
                                                   "discovered", "connection_error", "permission_error",
                                                   "undefined_error", "newly_discovered"]))))
            else:
                out.append(("C12.info-is-result", z3.BoolVal(False)))
        out.append(("C06.done", bval(done) == GOAL(T1)))
        if not getattr(S, "callsite", False):
            # the observation handed back is the one State.get_observation (verified under C08) builds for THIS action, THIS
            # action result and the environment's own observability switch, asked of the resulting state
            go = I.ext_state.get("go_call")
            env_ = S.a["self"]
            ok_go = go is not None and obs is go["result"] and go["self"] is nxt
            if ok_go:
                ga = go["args"]
                fo = ga.get("fully_obs")
                same_flag = z3.BoolVal(fo is env_.fields.get("fully_obs")) if not (isinstance(fo, SymV) and isinstance(env_.fields.get("fully_obs"), SymV)) \
                    else bval(fo) == bval(env_.fields["fully_obs"])
                ok_t = z3.And(z3.BoolVal(ga.get("action") is S.a["action"]),
                              z3.BoolVal(pa is not None and ga.get("action_result") is pa[1] if "action_result" in ga else
                                         pa is not None and any(v is pa[1] for v in ga.values())), same_flag)
            else:
                ok_t = z3.BoolVal(False)
            out.append(("C08.observation-of-this-action-result", ok_t))
        out.append(("C10.five-tuple", z3.BoolVal(isinstance(S.result, tuple) and len(S.result) == 5)))
        if not getattr(S, "callsite", False):
            out.append(("C10.observation-float32-of-advertised-shape", obs_object_ok(sig, obs)))
        # functional characterisation for callers (makes bounded counterexamples of step() realisable):
        # the next state is the network's and the terminal flag is the goal predicate *by definition*
        from .c_network import net_spec, ss_rows, ur_rows
        from .c_host_vector import hv_spec
        U = z3.Real("U_gs") if getattr(S, "callsite", False) else I.ext_state.get("pa_U", z3.Real("U_gs"))
        if getattr(S, "callsite", False):
            S.extra["U"] = U
        T_ss, T_ur = z3.Const("T_ss_spec", A2), z3.Const("T_ur_spec", A2)
        hs = hv_spec(sig, a, z3.Select(T0, t))
        defs = z3.And(ss_rows(sig, T0, T_ss, a.tsub, sig.Nk()),
                      ur_rows(sig, z3.Store(T0, t, hs["next"]), T_ur, a.tsub, sig.Nk()))
        sp = net_spec(sig, a, T0, U, T_ss, T_ur)
        out.append(("spec.next-state", z3.Implies(defs, T1 == sp["next"])))
        out.append(("spec.reward", z3.Implies(defs, rval(reward) == sp["value"] - a.cost)))
        if getattr(S, "callsite", False):
            out.append(("spec.defs", defs))
            out.append(("spec.draw-range", z3.And(U >= 0, U < 1)))
            if not sig.symbolic:
                out.append(("spec.goal-def", GOAL(T1) == goal_def(sig, T1)))
        S.extra["summary"] = {"T1": T1, "reward": rval(reward), "done": bval(done)}
        return out

    def frame(self, I, S):
        nxt, obs, reward, done, info = S.result
        out = [("C13.pure." + l, g) for l, g in env_frame(S.a["self"], S.old["env"])]
        out.append(("C13.input-untouched", S.old["cell"].content == S.old["T"]))
        nc = tensor_of(nxt)
        oc = obs.fields["tensor"].cell
        out.append(("C13.fresh", z3.BoolVal(nc.fresh and nc is not S.old["cell"] and nxt is not S.a["state"]
                                             and nc is not tensor_of(S.old["env"]["current_state"])
                                             and oc.fresh and oc is not S.old["env"]["last_obs"].fields["tensor"].cell)))
        # C12: no mode flag flows into the dynamics outputs (reads-frame, decided by the solver:
        # the outputs are equal to themselves with the three mode symbols renamed)
        sub = [(z3.Bool(m), z3.Bool(m + "_other")) for m in MODES]
        T1 = tensor_of(nxt).content
        outs = z3.And(T1 == z3.substitute(T1, *sub), rval(reward) == z3.substitute(rval(reward), *sub),
                      bval(done) == z3.substitute(bval(done), *sub))
        hyp = z3.And(*[z3.substitute(p, *sub) for p in I.ctx.pc]) if I.ctx.pc else z3.BoolVal(True)
        out.append(("C12.modes-do-not-reach-dynamics", z3.Implies(hyp, outs)))
        return out

    def havoc(self, I, S):
        ctx = I.ctx
        sig = S.sig
        L = sig.layout()
        T1 = ctx.fresh("T_gs", A2)
        nxt = V.state_obj(I, sig, T1, fresh=True, label="gs_next_state")
        obs = GetObservationModel().havoc(I, S)
        reward = SymV(ctx.fresh("gs_reward", R_), "real")
        done = SymV(ctx.fresh("gs_done", B_), "bool")
        info = PyDict({"__abs__": AbsVal(ctx.fresh("gs_info", DictSort), "dict")}, fresh=True)
        res = (nxt, obs, reward, done, info)
        I.ext_state["gs_result"] = res
        return res


# ---------------------------------------------------------------------------- step

@contract
class EnvStep(Contract):
    may_draw = True      # at most one draw, exactly as C07 states
    def modifies(self, I, S):
        return [S.a["self"]]          # which fields: see the frame obligations

    qualname = "nasim.envs.environment.NASimEnv.step"
    tags = {"C06": ("C06",), "C13": ("C13",), "C10": ("C10",), "C12": ("C12",), "C04": ("C04",),
            "raises": ("C06", "C10", "C13"), "frame": ("C13", "C06", "C19")}

    def variants(self):
        return [f"{k}/{lim}" for k in ("Exploit", "NoOp") for lim in ("nolimit", "limit")]

    def concretize(self, I, S):
        from . import dyn_cex
        return dyn_cex.make_env(I, S, S.extra.get("limit", False))

    def setup(self, I, variant):
        kind, lim = variant.split("/")
        sig, T, st, env, a = env_setup(I, kind, limit=None if lim == "nolimit" else True)
        S = Scope(sig=sig, act=a)
        S.a = {"self": env, "action": a.obj(I)}
        S.call_args = ([env, S.a["action"]], {})
        S.extra["limit"] = lim == "limit"
        return S

    def snapshot(self, I, S):
        S.old["env"] = env_snapshot(S.a["self"])

    def ensures(self, I, S):
        sig = S.sig
        env = S.a["self"]
        out = []
        res = S.result
        out.append(("C10.five-tuple", z3.BoolVal(isinstance(res, tuple) and len(res) == 5)))
        if not (isinstance(res, tuple) and len(res) == 5):
            return out
        obs_arr, reward, done, limit_flag, info = res
        is_bool = lambda x: isinstance(x, bool) or (isinstance(x, SymV) and x.ty == "bool")
        out.append(("C10.terminal-and-limit-flags-are-booleans", z3.BoolVal(is_bool(done) and is_bool(limit_flag))))
        if not (is_bool(done) and is_bool(limit_flag)):
            return out
        s0 = ival(S.old["env"]["steps"])
        s1 = ival(env.fields["steps"])
        out.append(("C06.counter", s1 == s0 + 1))
        if S.extra["limit"]:
            out.append(("C06.limit-flag", bval(limit_flag) == (s0 + 1 >= sig.step_limit)))
        else:
            out.append(("C06.limit-flag", z3.Not(bval(limit_flag)) if not isinstance(limit_flag, bool)
                        else z3.BoolVal(limit_flag is False)))
        out.append(("C10.observation-float32-of-advertised-shape", obs_array_ok(sig, obs_arr, bval(env.fields["flat_obs"]))))
        gs = I.ext_state.get("gs_result")
        if gs is None:
            out.append(("C13.agrees", z3.BoolVal(False)))
            return out
        g_next, g_obs, g_reward, g_done, g_info = gs
        flat = bval(env.fields["flat_obs"])
        oc = g_obs.fields["tensor"].cell
        if isinstance(obs_arr, NpArr) and obs_arr.cell is oc:
            shape_ok = z3.Not(flat)
        elif isinstance(obs_arr, NpArr) and getattr(obs_arr.cell, "flat_of", None) is not None \
                and z3.eq(obs_arr.cell.flat_of[0], oc.content):
            shape_ok = flat
        else:
            shape_ok = z3.BoolVal(False)
        out.append(("C13.agrees", z3.And(shape_ok, rval(reward) == rval(g_reward), bval(done) == bval(g_done),
                                         z3.BoolVal(info is g_info))))
        out.append(("C13.installs-next-state", z3.BoolVal(env.fields["current_state"] is g_next
                                                           and env.fields["last_obs"] is g_obs)))
        return out

    def frame(self, I, S):
        env = S.a["self"]
        snap = S.old["env"]
        out = [("C13.only-state-obs-steps-assigned", g) for l, g in
               env_frame(env, snap, allowed=("current_state", "last_obs", "steps")) if l == "env-fields"]
        return out


# ---------------------------------------------------------------------------- reset

@contract
class EnvReset(Contract):
    def modifies(self, I, S):
        return [S.a["self"]]          # which fields: see the frame obligations

    qualname = "nasim.envs.environment.NASimEnv.reset"
    callable_by_contract = False      # inlined by NASimEnv.__init__
    # the episode state a reset produces (counter, state, observation) is the same in every mode: the clauses hold on
    # every path through the mode switches, so they also carry C12 (modes do not change the dynamics) and C06 (counter)
    tags = {"C04": ("C04", "C12", "C06"), "C06": ("C06",), "C10": ("C10",), "C03": ("C03",), "raises": ("C04", "C10"),
            "frame": ("C04", "C19")}

    def variants(self):
        return ["default", "seed-given"]

    def setup(self, I, variant):
        sig, T, st, env, a = env_setup(I, None)
        S = Scope(sig=sig)
        S.a = {"self": env}
        # gymnasium's reset(seed=...) seeds the environment's own generator (self.np_random, assumed dependency
        # contract); the process-wide NumPy generator that the dynamics draw from is not the environment's to re-seed
        S.call_args = ([env], {} if variant == "default" else {"seed": SymV(z3.Int("reset_seed"), "int"), "options": None})
        return S

    def snapshot(self, I, S):
        S.old["env"] = env_snapshot(S.a["self"])

    def ensures(self, I, S):
        sig = S.sig
        L = sig.layout()
        env = S.a["self"]
        res = S.result
        out = [("C10.two-tuple", z3.BoolVal(isinstance(res, tuple) and len(res) == 2 and isinstance(res[1], PyDict)
                                            and not res[1].d))]
        out.append(("C04.steps-zeroed", ival(env.fields["steps"]) == 0))
        if isinstance(res, tuple) and len(res) == 2:
            out.append(("C10.observation-float32-of-advertised-shape", obs_array_ok(sig, res[0], bval(env.fields["flat_obs"]))))
        T0 = S.old["env"]["current_T"]
        T1 = tensor_of(env.fields["current_state"]).content
        v1 = V.View(sig, T1)
        out.append(("C04.reset-restores-start", sig.forall_hosts(lambda i: z3.And(
            v1.cell(i, L.comp) == 0, v1.acc(i) == 0,
            v1.cell(i, L.reach) == z3.If(sig.public(sig.asub_t(i)), z3.RealVal(1), z3.RealVal(0)),
            v1.cell(i, L.disc) == v1.cell(i, L.reach)), "er")))
        out.append(("C04.reset-keeps-configuration", sig.forall_hosts(
            lambda i: V.mask_dyn(L, z3.Select(T1, i)) == V.mask_dyn(L, z3.Select(T0, i)), "ec")))
        return out

    def frame(self, I, S):
        env = S.a["self"]
        return [("C04.only-state-obs-steps-assigned", g) for l, g in
                env_frame(env, S.old["env"], allowed=("current_state", "last_obs", "steps")) if l == "env-fields"]


# ---------------------------------------------------------------------------- goal_reached

@contract
class GoalReached(Contract):
    qualname = "nasim.envs.environment.NASimEnv.goal_reached"
    callable_by_contract = False     # three-line accessor: inlined at call sites
    tags = {"C06": ("C06",), "raises": ("C06",), "frame": ("C06", "C13")}

    def variants(self):
        return ["given-state", "current-state"]

    def setup(self, I, variant):
        sig, T, st, env, a = env_setup(I, None)
        S = Scope(sig=sig)
        S.a = {"self": env, "state": st if variant == "given-state" else None}
        S.call_args = ([env] + ([st] if variant == "given-state" else []), {})
        S.extra["T"] = T if variant == "given-state" else tensor_of(env.fields["current_state"]).content
        return S

    def snapshot(self, I, S):
        S.old["env"] = env_snapshot(S.a["self"])

    def ensures(self, I, S):
        return [("C06.goal-query", bval(S.result) == GOAL(S.extra["T"]))]

    def frame(self, I, S):
        return [("C06.pure." + l, g) for l, g in env_frame(S.a["self"], S.old["env"])]


@contract
class EnvClose(Contract):
    """NASimEnv.close only releases this environment's renderer: it touches no global state (C19)"""
    qualname = "nasim.envs.environment.NASimEnv.close"
    callable_by_contract = False
    bounded = False
    tags = {"": ("C19",)}

    def setup(self, I, variant):
        sig, T, st, env, a = env_setup(I, None)
        env.fields["_renderer"] = None
        env.hidden.discard("_renderer")
        S = Scope(sig=sig)
        S.a = {"self": env}
        S.call_args = ([env], {})
        return S

    def modifies(self, I, S):
        return [S.a["self"]]

    def snapshot(self, I, S):
        S.old["env"] = env_snapshot(S.a["self"])

    def frame(self, I, S):
        return [("C19.close-keeps-episode-state", g) for l, g in
                env_frame(S.a["self"], S.old["env"], allowed=("_renderer",))]
