"""UNBOUNDED contracts for the leaf validators of nasim/scenarios/loader.py (C17 accepts every valid value,
C18 normal return implies the rule): lists of symbolic length with symbolically typed entries"""
import z3

from pyvc.contract import Contract, LoopContract, Scope, contract, loop_contract, store_target, loop_assigned
from pyvc.values import SymV, Obj, SymSeq, PyDict, PyList, mk, ival, rval, bval, nameval
from pyvc import builtins as B

LQ = "nasim.scenarios.loader.ScenarioLoader."
I_, R_, B_ = z3.IntSort(), z3.RealSort(), z3.BoolSort()


def size_var(I, name, concrete_value):
    """a list length / count: an unconstrained symbol in the unbounded task, a small literal in the bounded stand-in task
    (driver phase 3: the real loops are then unrolled and need no invariant - the route taken when a refactoring moves
    a loop out of its invariant's reach)"""
    if I.ext_state.get("concrete") is not None:
        return z3.IntVal(concrete_value)
    return z3.Int(name)


def loader_obj(I, **f):
    return Obj(I.repo.cls("nasim.scenarios.loader.ScenarioLoader"), dict(f), fresh=False, label="loader")


class _Leaf(Contract):
    callable_by_contract = False
    bounded = False
    tags = {"": ("C17", "C18")}

    def variants(self):
        return ["valid", "any"]

    def allowed_exception(self, I, S, exc):
        # "any" input: rejecting is fine (C18 is about normal returns); "valid" input must be accepted (C17)
        return S.extra["variant"] == "any"


# ---- _validate_subnets -----------------------------------------------------------------------------------------

sub_val = z3.Function("doc_subnet", I_, I_)
sub_tag = z3.Function("doc_subnet_type", I_, I_)


def subnets_valid(n, k=None):
    j = z3.Int("sv_j")
    k = n if k is None else k
    return z3.ForAll([j], z3.Implies(z3.And(0 <= j, j < k), z3.And(sub_tag(j) == B.TAG_INT, sub_val(j) > 0)))


@loop_contract
class ValidateSubnetsLoop(LoopContract):
    qualname = LQ + "_validate_subnets"
    ordinal = 0
    tags = ("C17", "C18")

    def snapshot(self, I, fr, seq):
        return {}

    def havoc(self, I, fr, entry, seq):
        fr.locals.pop("subnet_size", None)

    def inv(self, I, fr, entry, seq, k):
        return [("earlier-entries-positive-ints", subnets_valid(None, k))]


@contract
class ValidateSubnets(_Leaf):
    qualname = LQ + "_validate_subnets"
    standin_contract = LQ + "load"      # bounded stand-in of last resort: the whole-loader tasks

    def setup(self, I, variant):
        n = z3.Int("doc_n_subnets")
        I.ctx.assume(n >= 0)
        subs = SymSeq(n, lambda j: SymV(sub_val(ival(j)), "int", pytag=sub_tag(ival(j))), "list")
        if variant == "valid":
            I.ctx.assume(z3.And(n > 0, subnets_valid(n)))
        S = Scope()
        S.extra.update(variant=variant, n=n)
        lo = loader_obj(I)
        S.a = {"self": lo}
        S.call_args = ([lo, subs], {})
        return S

    def ensures(self, I, S):
        n = S.extra["n"]
        return [("C18.subnets-non-empty-positive-ints", z3.And(n > 0, subnets_valid(n)))]


# ---- _validate_topology ----------------------------------------------------------------------------------------

row_len = z3.Function("doc_row_len", I_, I_)
top_val = z3.Function("doc_topo", I_, I_, I_)
top_tag = z3.Function("doc_topo_type", I_, I_, I_)


def row_ok(r, nS, k=None):
    c = z3.Int("tv_c")
    k = row_len(r) if k is None else k
    return z3.ForAll([c], z3.Implies(z3.And(0 <= c, c < k), z3.And(
        z3.Or(top_tag(r, c) == B.TAG_INT, top_tag(r, c) == B.TAG_BOOL), z3.Or(top_val(r, c) == 0, top_val(r, c) == 1))))


def rows_ok(nS, k):
    r = z3.Int("tv_r")
    return z3.ForAll([r], z3.Implies(z3.And(0 <= r, r < k), z3.And(row_len(r) == nS, row_ok(r, nS))))


@loop_contract
class ValidateTopologyRows(LoopContract):
    qualname = LQ + "_validate_topology"
    ordinal = 0
    tags = ("C17", "C18")

    def snapshot(self, I, fr, seq):
        return {}

    def havoc(self, I, fr, entry, seq):
        for v in ("row", "col"):
            fr.locals.pop(v, None)

    def inv(self, I, fr, entry, seq, k):
        nS = ival(B._len(I, fr.locals["self"].fields["subnets"]))
        I.ext_state["topo_row_index"] = k
        return [("earlier-rows-valid", rows_ok(nS, k))]


@loop_contract
class ValidateTopologyCols(LoopContract):
    qualname = LQ + "_validate_topology"
    ordinal = 1
    tags = ("C17", "C18")

    def snapshot(self, I, fr, seq):
        return {"r": I.ext_state["topo_row_index"]}

    def havoc(self, I, fr, entry, seq):
        fr.locals.pop("col", None)

    def inv(self, I, fr, entry, seq, k):
        nS = ival(B._len(I, fr.locals["self"].fields["subnets"]))
        return [("earlier-entries-valid", row_ok(entry["r"], nS, k))]


@contract
class ValidateTopology(_Leaf):
    qualname = LQ + "_validate_topology"
    standin_contract = LQ + "load"      # bounded stand-in of last resort: the whole-loader tasks

    def setup(self, I, variant):
        nS = z3.Int("doc_nS")
        nrows = z3.Int("doc_n_rows")
        I.ctx.assume(z3.And(nS >= 2, nrows >= 0))
        r_ = z3.Int("tr_r")
        I.ctx.assume(z3.ForAll([r_], row_len(r_) >= 0))
        topo = SymSeq(nrows, lambda r: SymSeq(row_len(ival(r)), lambda c, r=r: SymV(top_val(ival(r), ival(c)), "int",
                                                                                  pytag=top_tag(ival(r), ival(c))), "list"),
                      "list")
        if variant == "valid":
            I.ctx.assume(z3.And(nrows == nS, rows_ok(nS, nS)))
        lo = loader_obj(I, subnets=SymSeq(nS, lambda j: SymV(sub_val(ival(j)), "int"), "list"))
        S = Scope()
        S.extra.update(variant=variant, nS=nS, nrows=nrows)
        S.a = {"self": lo}
        S.call_args = ([lo, topo], {})
        return S

    def ensures(self, I, S):
        nS, nrows = S.extra["nS"], S.extra["nrows"]
        return [("C18.topology-square-0-1", z3.And(nrows == nS, rows_ok(nS, nS)))]


# ---- _validate_os / _validate_services / _validate_processes --------------------------------------------------

name_at = z3.Function("doc_name", I_, I_)


class _ValidateNames(_Leaf):
    def setup(self, I, variant):
        n = z3.Int("doc_n_names")
        I.ctx.assume(n >= 0)
        names = SymSeq(n, lambda j: SymV(name_at(ival(j)), "name"), "list")
        i_, j_ = z3.Int("vn_i"), z3.Int("vn_j")
        S = Scope()
        S.extra["distinct"] = z3.ForAll([i_, j_], z3.Implies(z3.And(0 <= i_, i_ < j_, j_ < n), name_at(i_) != name_at(j_)))
        if variant == "valid":
            I.ctx.assume(z3.And(n > 0, S.extra["distinct"]))
        S.extra.update(variant=variant, n=n)
        lo = loader_obj(I)
        S.a = {"self": lo}
        S.call_args = ([lo, names], {})
        return S

    def ensures(self, I, S):
        return [("C18.names-non-empty-and-duplicate-free", z3.And(S.extra["n"] > 0, S.extra["distinct"]))]


@contract
class ValidateOs(_ValidateNames):
    qualname = LQ + "_validate_os"
    standin_contract = LQ + "load"      # bounded stand-in of last resort: the whole-loader tasks


@contract
class ValidateServices(_ValidateNames):
    qualname = LQ + "_validate_services"
    standin_contract = LQ + "load"      # bounded stand-in of last resort: the whole-loader tasks


@contract
class ValidateProcesses(_ValidateNames):
    qualname = LQ + "_validate_processes"
    standin_contract = LQ + "load"      # bounded stand-in of last resort: the whole-loader tasks


# ---- _validate_scan_cost / _parse_step_limit ------------------------------------------------------------------

@contract
class ValidateScanCost(_Leaf):
    qualname = LQ + "_validate_scan_cost"
    standin_contract = LQ + "load"      # bounded stand-in of last resort: the whole-loader tasks

    def setup(self, I, variant):
        c = z3.Real("doc_scan_cost")
        if variant == "valid":
            I.ctx.assume(c >= 0)
        S = Scope()
        S.extra.update(variant=variant, c=c)
        lo = loader_obj(I)
        S.a = {"self": lo}
        S.call_args = ([lo, "OS", SymV(c, "real")], {})
        return S

    def ensures(self, I, S):
        return [("C18.scan-cost-non-negative", S.extra["c"] >= 0)]


@contract
class ParseStepLimit(_Leaf):
    qualname = LQ + "_parse_step_limit"
    standin_contract = LQ + "load"      # bounded stand-in of last resort: the whole-loader tasks

    def variants(self):
        return ["valid-absent", "valid-present", "any-present"]

    def setup(self, I, variant):
        lim = z3.Int("doc_step_limit")
        present = not variant.endswith("absent")
        if variant == "valid-present":
            I.ctx.assume(lim > 0)
        doc = PyDict({"step_limit": SymV(lim, "int")} if present else {}, fresh=False)
        lo = loader_obj(I, yaml_dict=doc)
        S = Scope()
        S.extra.update(variant="any" if variant.startswith("any") else "valid", lim=lim, present=present)
        S.a = {"self": lo}
        S.call_args = ([lo], {})
        return S

    def modifies(self, I, S):
        return [S.a["self"]]

    def ensures(self, I, S):
        got = S.a["self"].fields.get("step_limit", "missing")
        if not S.extra["present"]:
            return [("C17.no-step-limit-means-none", z3.BoolVal(got is None))]
        return [("C18.step-limit-positive", S.extra["lim"] > 0),
                ("C17.step-limit-kept", ival(got) == S.extra["lim"] if isinstance(got, (SymV, int)) else z3.BoolVal(False))]


# ---- _is_valid_firewall_setting --------------------------------------------------------------------------------
# a firewall rule value (subnet allow-list / host deny-list) of any length; the scenario's services are names 0..nSrv-1

fw_name = z3.Function("doc_fw_name", I_, I_)


def names_seq(n, label):
    return SymSeq(n, lambda j: mk(ival(j), "name"), label)


def fw_known(nSrv, k):
    j = z3.Int("fw_kj")
    return z3.ForAll([j], z3.Implies(z3.And(0 <= j, j < k), z3.And(0 <= fw_name(j), fw_name(j) < nSrv)))


def fw_distinct_rows(n, k):
    """entries with index < k differ from every other entry"""
    a, b = z3.Int("fw_da"), z3.Int("fw_db")
    return z3.ForAll([a, b], z3.Implies(z3.And(0 <= a, a < k, 0 <= b, b < n, a != b), fw_name(a) != fw_name(b)))


@loop_contract
class FwSettingKnownLoop(LoopContract):
    qualname = LQ + "_is_valid_firewall_setting"
    ordinal = 0
    tags = ("C17", "C18")

    def snapshot(self, I, fr, seq):
        return {}

    def havoc(self, I, fr, entry, seq):
        fr.locals.pop("service", None)

    def inv(self, I, fr, entry, seq, k):
        return [("earlier-entries-are-services", fw_known(I.ext_state["fw_nSrv"], k))]


@loop_contract
class FwSettingDupOuter(LoopContract):
    qualname = LQ + "_is_valid_firewall_setting"
    ordinal = 1
    tags = ("C17", "C18")

    def snapshot(self, I, fr, seq):
        return {}

    def havoc(self, I, fr, entry, seq):
        for v in ("i", "x", "j", "y"):
            fr.locals.pop(v, None)

    def inv(self, I, fr, entry, seq, k):
        I.ext_state["fw_outer_k"] = k
        return [("earlier-entries-unique", fw_distinct_rows(I.ext_state["fw_n"], k))]


@loop_contract
class FwSettingDupInner(LoopContract):
    qualname = LQ + "_is_valid_firewall_setting"
    ordinal = 2
    tags = ("C17", "C18")

    def snapshot(self, I, fr, seq):
        return {"i": I.ext_state["fw_outer_k"]}

    def havoc(self, I, fr, entry, seq):
        for v in ("j", "y"):
            fr.locals.pop(v, None)

    def inv(self, I, fr, entry, seq, k):
        i = entry["i"]
        b = z3.Int("fw_ib")
        return [("entry-differs-from-earlier-positions", z3.ForAll([b], z3.Implies(
            z3.And(0 <= b, b < k, b != i), fw_name(i) != fw_name(b))))]


def fw_rule_spec(I, f, nSrv):
    """the documented meaning of "valid firewall setting" for an arbitrary value f: a list of known services (names
    0..nSrv-1) without duplicates"""
    if isinstance(f, PyList):
        f = SymSeq(len(f.items), lambda j, items=list(f.items): B._pick(items, j), "list")
    if not (isinstance(f, SymSeq) and f.label != "tuple"):
        return z3.BoolVal(False)
    n = f.n if not isinstance(f.n, int) else z3.IntVal(f.n)
    a, b = z3.Int("fwr_a"), z3.Int("fwr_b")
    el = lambda j: nameval(f.elem(j))
    return z3.And(z3.ForAll([a], z3.Implies(z3.And(0 <= a, a < n), z3.And(0 <= el(a), el(a) < nSrv))),
                  z3.ForAll([a, b], z3.Implies(z3.And(0 <= a, a < n, 0 <= b, b < n, a != b), el(a) != el(b))))


@contract
class IsValidFirewallSetting(Contract):
    """result <=> the value is a list of known services without duplicates (any length).  Used as the callee contract
    at the call sites in _validate_firewall / _validate_host_config."""
    qualname = LQ + "_is_valid_firewall_setting"
    standin_contract = LQ + "load"      # bounded stand-in of last resort: the whole-loader tasks
    bounded = False
    inline_when_concrete = True        # the bounded whole-loader tasks keep executing the real helper
    tags = {"": ("C17", "C18")}

    def variants(self):
        return ["list", "not-a-list"]

    def setup(self, I, variant):
        n, nSrv = size_var(I, "doc_fw_len", 3), size_var(I, "doc_nSrv", 2)
        I.ctx.assume(z3.And(n >= 0, nSrv >= 1))
        I.ext_state.update(fw_n=n, fw_nSrv=nSrv)
        if variant == "list":
            f = SymSeq(n, lambda j: SymV(fw_name(ival(j)), "name"), "list")
        else:
            f = (SymV(z3.Int("doc_fw_a"), "name"), SymV(z3.Int("doc_fw_b"), "name"))     # e.g. a YAML tuple / scalar
        lo = loader_obj(I, services=names_seq(nSrv, "services"))
        S = Scope()
        S.extra.update(variant=variant, n=n, nSrv=nSrv)
        S.a = {"self": lo, "f": f}
        S.call_args = ([lo, f], {})
        return S

    def ensures(self, I, S):
        f = S.a["f"]
        nSrv = ival(B._len(I, S.a["self"].fields["services"]))
        r = S.result
        spec = fw_rule_spec(I, f, nSrv)
        if z3.is_false(spec):
            return [("C18.firewall-rule-must-be-a-list", z3.BoolVal(r is False) if isinstance(r, bool) else z3.Not(bval(r)))]
        return [("C17.valid-rule-accepted", z3.Implies(spec, bval(r))),
                ("C18.accepted-rule-is-list-of-distinct-services", z3.Implies(bval(r), spec))]

    def havoc(self, I, S):
        return SymV(I.ctx.fresh("fw_rule_ok", B_), "bool")


# ---- _construct_host_config ------------------------------------------------------------------------------------
# the three name -> bool dicts of a host, built by loops over the scenario's name lists (names 0..n-1 in list order):
# domain = exactly the scenario's names, in list order; value = what the host configuration says

from pyvc.values import SDict, NameK

hc_srv = z3.Function("doc_host_service", I_, I_)        # the host's services list
hc_proc = z3.Function("doc_host_process", I_, I_)


def _hc_runs(I, which, x):
    """does the host configuration list name x"""
    if which == "os":
        return x == z3.Int("doc_host_os")
    f = hc_srv if which == "services" else hc_proc
    n = I.ext_state["hc_m"][which]
    j = z3.Int("hc_rj_" + which)
    return z3.Exists([j], z3.And(0 <= j, j < n, f(j) == x))


def hc_dict_spec(I, which, d, k):
    """d holds exactly the first k names of the scenario list with the configured truth values"""
    x = z3.Int("hc_x_" + which)
    ks = z3.simplify(k) if z3.is_expr(k) else z3.IntVal(k)
    if isinstance(d, PyDict):
        # concrete-length run (loop unrolled): an ordinary dict with literal keys
        if not z3.is_int_value(ks) or d.sym:
            return [("dict-holds-the-first-names", z3.BoolVal(False))]
        kk = ks.as_long()
        keys = list(d.d.keys())
        want = [NameK(i) for i in range(kk)]
        cs = [z3.BoolVal(keys == want)]
        if keys == want:
            cs += [bval(d.d[NameK(i)]) == _hc_runs(I, which, z3.IntVal(i)) for i in range(kk)]
        return [("dict-holds-the-first-names", z3.And(*cs))]
    if not isinstance(d, SDict):
        return [("dict-holds-the-first-names", z3.BoolVal(False))]
    return [("keys-are-the-first-names", z3.ForAll([x], z3.Select(d.dom, x) == z3.And(0 <= x, x < k))),
            ("values-are-the-configuration", z3.ForAll([x], z3.Implies(z3.And(0 <= x, x < k),
                                                                        z3.Select(d.val, x) == _hc_runs(I, which, x))))]


class _HcLoop(LoopContract):
    qualname = LQ + "_construct_host_config"
    tags = ("C17", "C09", "C01")
    which = None

    def snapshot(self, I, fr, seq):
        return {"var": store_target(self.st)}

    def havoc(self, I, fr, entry, seq):
        A = z3.ArraySort
        var = entry["var"]
        # ghost iteration order: the names are inserted in list order and are pairwise distinct (checked by
        # _validate_os / _validate_services / _validate_processes), so the dict iterates in list order
        fr.locals[var] = SDict(1, "bool", I.ctx.fresh(var + "_dom", A(I_, B_)), I.ctx.fresh(var + "_val", A(I_, B_)),
                               keyseq=SymSeq(seq.n, seq.elem, var + ".keys"), fresh=True, label=var)
        for t in loop_assigned(self.st):
            fr.locals.pop(t, None)

    def inv(self, I, fr, entry, seq, k):
        return hc_dict_spec(I, self.which, fr.locals[entry["var"]], k)


@loop_contract
class HcOsLoop(_HcLoop):
    ordinal = 0
    which = "os"


@loop_contract
class HcSrvLoop(_HcLoop):
    ordinal = 1
    which = "services"


@loop_contract
class HcProcLoop(_HcLoop):
    ordinal = 2
    which = "processes"


@contract
class ConstructHostConfig(Contract):
    """the OS / service / process maps of a host: keys = the scenario's name lists in list order (what
    HostVector.vectorize and HostVector._initialize rely on), value = the host configuration's content"""
    qualname = LQ + "_construct_host_config"
    standin_contract = LQ + "load"      # bounded stand-in of last resort: the whole-loader tasks
    callable_by_contract = False
    bounded = False
    tags = {"": ("C17", "C09", "C01")}

    def setup(self, I, variant):
        nOS, nSrv, nProc = size_var(I, "doc_nOS", 2), size_var(I, "doc_nSrv", 3), size_var(I, "doc_nProc", 2)
        ms, mp = size_var(I, "doc_n_host_srv", 2), size_var(I, "doc_n_host_proc", 1)
        I.ctx.assume(z3.And(nOS >= 1, nSrv >= 1, nProc >= 1, ms >= 0, mp >= 0))
        I.ext_state["hc_m"] = {"services": ms, "processes": mp}
        cfg = PyDict({"os": SymV(z3.Int("doc_host_os"), "name"),
                      "services": SymSeq(ms, lambda j: SymV(hc_srv(ival(j)), "name"), "list"),
                      "processes": SymSeq(mp, lambda j: SymV(hc_proc(ival(j)), "name"), "list")}, fresh=False)
        lo = loader_obj(I, os=names_seq(nOS, "os"), services=names_seq(nSrv, "services"),
                        processes=names_seq(nProc, "processes"))
        S = Scope()
        S.extra.update(n={"os": nOS, "services": nSrv, "processes": nProc})
        S.a = {"self": lo}
        S.call_args = ([lo, cfg], {})
        return S

    def ensures(self, I, S):
        r = S.result
        ok = isinstance(r, tuple) and len(r) == 3 and all(isinstance(d, (SDict, PyDict)) for d in r)
        out = [("C17.three-config-maps", z3.BoolVal(ok))]
        if not ok:
            return out
        for which, d in zip(("os", "services", "processes"), r):
            n = S.extra["n"][which]
            for l, t in hc_dict_spec(I, which, d, n):
                out.append((f"C17.host-{which}-map.{l}", t))
            if isinstance(d, PyDict):
                continue            # literal keys: the order is part of dict-holds-the-first-names
            ks = d.keyseq
            j = z3.Int("hc_kj")
            out.append((f"C09.host-{which}-map.keys-in-scenario-list-order", z3.And(
                ival(ks.n) == n, z3.ForAll([j], z3.Implies(z3.And(0 <= j, j < n), nameval(ks.elem(j)) == j)))
                if ks is not None else z3.BoolVal(False)))
        return out


# ---- _get_host_value -------------------------------------------------------------------------------------------

@contract
class GetHostValue(Contract):
    """value of a host: the sensitive_hosts entry if the address is listed there, else the configuration's `value`,
    else the documented default 0"""
    qualname = LQ + "_get_host_value"
    standin_contract = LQ + "load"      # bounded stand-in of last resort: the whole-loader tasks
    callable_by_contract = False
    bounded = False
    tags = {"": ("C17",)}

    def variants(self):
        return ["config-has-value", "config-without-value"]

    def setup(self, I, variant):
        from pyvc.values import SymDict
        sens = z3.Function("doc_is_sensitive", I_, I_, B_)
        sval = z3.Function("doc_sensitive_value", I_, I_, R_)
        a, b, v = z3.Int("doc_addr_s"), z3.Int("doc_addr_h"), z3.Real("doc_cfg_value")
        sh = SymDict(lambda k: sens(ival(k[0]), ival(k[1])), lambda k: mk(sval(ival(k[0]), ival(k[1])), "real"),
                     label="sensitive_hosts")
        cfg = PyDict({"os": SymV(z3.Int("doc_host_os"), "name")} | ({"value": SymV(v, "real")} if variant == "config-has-value" else {}),
                     fresh=False)
        lo = loader_obj(I, sensitive_hosts=sh)
        S = Scope()
        S.extra.update(sens=sens(a, b), sval=sval(a, b), v=v, has=variant == "config-has-value")
        S.a = {"self": lo}
        S.call_args = ([lo, (SymV(a, "int"), SymV(b, "int")), cfg], {})
        return S

    def ensures(self, I, S):
        e = S.extra
        want = z3.If(e["sens"], e["sval"], e["v"] if e["has"] else z3.RealVal(0))
        return [("C17.host-value", rval(S.result) == want)]


# ---- address-keyed sections: _has_all_host_addresses / _contains_all_required_firewalls / _validate_host_address --
# keys of the document are strings; str((a, b)) / eval(key) follow the ASSUMED address-string contract of
# pyvc.builtins (ADDR_STR canonical and inverted by eval; eval a pure function of the string)

from pyvc.values import SymColl

doc_size = z3.Function("doc_subnet_size", I_, I_)          # self.subnets (index 0 = internet)
doc_topo = z3.Function("doc_topology", I_, I_, I_)
has_key = z3.Function("doc_has_key", I_, B_)               # the section has this (string) key


CONC_SUBNETS = [1, 2, 1]          # bounded stand-in task: internet + two subnets with literal sizes


def subnets_seq(nS, I=None):
    if I is not None and I.ext_state.get("concrete") is not None:
        for j, v in enumerate(CONC_SUBNETS):
            I.ctx.assume(doc_size(z3.IntVal(j)) == v)
        return PyList(list(CONC_SUBNETS), fresh=False)
    return SymSeq(nS, lambda j: SymV(doc_size(ival(j)), "int"), "list")


def keys_coll():
    return SymColl(lambda x: has_key(nameval(x)), "document-keys")


def hosts_covered(k, upto=None):
    """every address (s, m) with 1 <= s < k (and, for s == k if upto is given, m < upto) is a key"""
    ks = z3.simplify(k) if z3.is_expr(k) else z3.IntVal(k)
    if z3.is_int_value(ks) and upto is None and ks.as_long() <= len(CONC_SUBNETS):
        # bounded stand-in task (literal subnet sizes): the explicit conjunction
        return z3.And(*[has_key(B.ADDR_STR(z3.IntVal(a), z3.IntVal(b))) for a in range(1, ks.as_long())
                        for b in range(CONC_SUBNETS[a])])
    s, m = z3.Int("ha_s"), z3.Int("ha_m")
    rng = z3.And(1 <= s, s < k, 0 <= m, m < doc_size(s))
    if upto is not None:
        rng = z3.Or(rng, z3.And(s == k, 0 <= m, m < upto))
    return z3.ForAll([s, m], z3.Implies(rng, has_key(B.ADDR_STR(s, m))))


@loop_contract
class HasAllAddrSubnets(LoopContract):
    qualname = LQ + "_has_all_host_addresses"
    ordinal = 0
    tags = ("C17", "C18")

    def snapshot(self, I, fr, seq):
        return {}

    def havoc(self, I, fr, entry, seq):
        for v in ("s_id", "s_size", "m"):
            fr.locals.pop(v, None)

    def inv(self, I, fr, entry, seq, k):
        I.ext_state["ha_k"] = k
        return [("earlier-subnets-covered", hosts_covered(k + 1))]


@loop_contract
class HasAllAddrHosts(LoopContract):
    qualname = LQ + "_has_all_host_addresses"
    ordinal = 1
    tags = ("C17", "C18")

    def snapshot(self, I, fr, seq):
        return {"k": I.ext_state["ha_k"]}

    def havoc(self, I, fr, entry, seq):
        fr.locals.pop("m", None)

    def inv(self, I, fr, entry, seq, k):
        return [("earlier-hosts-covered", hosts_covered(entry["k"] + 1, upto=k))]


@contract
class HasAllHostAddresses(Contract):
    """result <=> every address of the network is a key of the host-configuration section (any number of subnets/hosts)"""
    qualname = LQ + "_has_all_host_addresses"
    standin_contract = LQ + "load"      # bounded stand-in of last resort: the whole-loader tasks
    callable_by_contract = False
    bounded = False
    tags = {"": ("C17", "C18")}

    def setup(self, I, variant):
        nS = size_var(I, "doc_nS", len(CONC_SUBNETS))
        j = z3.Int("hs_j")
        I.ctx.assume(z3.And(nS >= 2, z3.ForAll([j], doc_size(j) >= 0)))
        B.addr_axioms(I)
        lo = loader_obj(I, subnets=subnets_seq(nS, I))
        S = Scope()
        S.extra.update(nS=nS)
        S.a = {"self": lo}
        S.call_args = ([lo, keys_coll()], {})
        return S

    def ensures(self, I, S):
        spec = hosts_covered(S.extra["nS"])
        return [("C17.complete-section-accepted", z3.Implies(spec, bval(S.result))),
                ("C18.accepted-section-has-every-address", z3.Implies(bval(S.result), spec))]


def fw_pairs_covered(nS, k, upto=None):
    a, b = z3.Int("fwc_a"), z3.Int("fwc_b")
    rng = z3.And(0 <= a, a < k, 0 <= b, b < nS)
    if upto is not None:
        rng = z3.Or(rng, z3.And(a == k, 0 <= b, b < upto))
    return z3.ForAll([a, b], z3.Implies(z3.And(rng, a != b, doc_topo(a, b) == 1),
                                        z3.And(has_key(B.ADDR_STR(a, b)), has_key(B.ADDR_STR(b, a)))))


@loop_contract
class RequiredFwRows(LoopContract):
    qualname = LQ + "_contains_all_required_firewalls"
    ordinal = 0
    tags = ("C17", "C18")

    def snapshot(self, I, fr, seq):
        return {}

    def havoc(self, I, fr, entry, seq):
        for v in ("src", "row", "dest", "col"):
            fr.locals.pop(v, None)

    def inv(self, I, fr, entry, seq, k):
        I.ext_state["fwc_k"] = k
        return [("earlier-rows-covered", fw_pairs_covered(I.ext_state["fwc_nS"], k))]


@loop_contract
class RequiredFwCols(LoopContract):
    qualname = LQ + "_contains_all_required_firewalls"
    ordinal = 1
    tags = ("C17", "C18")

    def snapshot(self, I, fr, seq):
        return {"k": I.ext_state["fwc_k"]}

    def havoc(self, I, fr, entry, seq):
        for v in ("dest", "col"):
            fr.locals.pop(v, None)

    def inv(self, I, fr, entry, seq, k):
        return [("earlier-columns-covered", fw_pairs_covered(I.ext_state["fwc_nS"], entry["k"], upto=k))]


def fw_cover_spec(I, topology, firewall):
    """both directions of every connected ordered pair of distinct subnets are keys of `firewall`"""
    from pyvc.builtins import contains
    nS = ival(B._len(I, topology))
    a, b = z3.Int("fwc_a"), z3.Int("fwc_b")
    if isinstance(topology, SymSeq) and topology.concrete_len() is None:
        cell = lambda r, c: ival(topology.elem(r).elem(c))
    else:
        rows = [I.as_sequence(r) for r in I.as_sequence(topology)]
        rows = [r if isinstance(r, list) else [r.elem(i) for i in range(r.concrete_len())] for r in rows]
        cell = lambda r, c: ival(B._pick([B._pick_t(row, c) for row in rows], r))
    has = lambda x, y: bval(contains(I, firewall, SymV(B.ADDR_STR(x, y), "name"), None))
    return z3.ForAll([a, b], z3.Implies(z3.And(0 <= a, a < nS, 0 <= b, b < nS, a != b, cell(a, b) == 1),
                                        z3.And(has(a, b), has(b, a))))


@contract
class ContainsAllRequiredFirewalls(Contract):
    """result <=> the firewall section has a rule in both directions for every connected ordered pair of distinct
    subnets (internet included), for a topology of any size.  Callee contract of _validate_firewall."""
    qualname = LQ + "_contains_all_required_firewalls"
    standin_contract = LQ + "load"      # bounded stand-in of last resort: the whole-loader tasks
    bounded = False
    inline_when_concrete = True
    tags = {"": ("C17", "C18")}

    def setup(self, I, variant):
        nS = size_var(I, "doc_nS", 2)           # bounded stand-in: internet + one subnet (two symbolic links)
        I.ctx.assume(nS >= 2)
        I.ext_state["fwc_nS"] = nS
        B.addr_axioms(I)
        topo = SymSeq(nS, lambda r: SymSeq(nS, lambda c, r=r: SymV(doc_topo(ival(r), ival(c)), "int"), "list"), "list")
        lo = loader_obj(I, topology=topo)
        S = Scope()
        S.extra.update(nS=nS)
        S.a = {"self": lo, "firewall": keys_coll()}
        S.call_args = ([lo, S.a["firewall"]], {})
        return S

    def ensures(self, I, S):
        if getattr(S, "callsite", False):
            spec = fw_cover_spec(I, S.a["self"].fields["topology"], S.a["firewall"])
        else:
            nS = S.extra["nS"]
            spec = fw_pairs_covered(nS, nS)
        return [("C17.complete-firewall-accepted", z3.Implies(spec, bval(S.result))),
                ("C18.accepted-firewall-covers-every-connection", z3.Implies(bval(S.result), spec))]

    def havoc(self, I, S):
        B.addr_axioms(I)
        return SymV(I.ctx.fresh("fw_complete", B_), "bool")


# ---- _validate_firewall: the two helper contracts composed over a section with any number of rules ---------------

rule_len = z3.Function("doc_rule_len", I_, I_)             # length of the rule stored under a key (by key code)
rule_name = z3.Function("doc_rule_name", I_, I_, I_)
rule_islist = z3.Function("doc_rule_is_list", I_, B_)
fwk = z3.Function("doc_fw_key", I_, I_)                    # j-th key of the firewall section


def rule_ok(nSrv, key):
    a, b = z3.Int("rk_a"), z3.Int("rk_b")
    n = rule_len(key)
    return z3.And(z3.ForAll([a], z3.Implies(z3.And(0 <= a, a < n), z3.And(0 <= rule_name(key, a), rule_name(key, a) < nSrv))),
                  z3.ForAll([a, b], z3.Implies(z3.And(0 <= a, a < n, 0 <= b, b < n, a != b),
                                               rule_name(key, a) != rule_name(key, b))))


def rules_ok(nSrv, k):
    j = z3.Int("rk_j")
    return z3.ForAll([j], z3.Implies(z3.And(0 <= j, j < k), rule_ok(nSrv, fwk(j))))


@loop_contract
class ValidateFirewallRules(LoopContract):
    qualname = LQ + "_validate_firewall"
    ordinal = 0
    tags = ("C17", "C18")

    def snapshot(self, I, fr, seq):
        return {}

    def havoc(self, I, fr, entry, seq):
        for v in loop_assigned(self.st):
            fr.locals.pop(v, None)

    def inv(self, I, fr, entry, seq, k):
        return [("earlier-rules-valid", rules_ok(I.ext_state["vf_nSrv"], k))]


@contract
class ValidateFirewall(_Leaf):
    """firewall section with any number of rules over a topology of any size: accepted iff it has both directions of
    every connection and every rule is a duplicate-free list of known services.  Verified against the CONTRACTS of
    _contains_all_required_firewalls and _is_valid_firewall_setting (modular)."""
    qualname = LQ + "_validate_firewall"
    standin_contract = LQ + "load"      # bounded stand-in of last resort: the whole-loader tasks

    def setup(self, I, variant):
        from pyvc.values import SymDict
        conc = I.ext_state.get("concrete") is not None
        nS, n, nSrv = size_var(I, "doc_nS", 2), size_var(I, "doc_n_rules", 2), size_var(I, "doc_nSrv", 2)
        j, i2 = z3.Int("vf_j"), z3.Int("vf_i")
        I.ctx.assume(z3.And(nS >= 2, n >= 0, nSrv >= 1, z3.ForAll([j], rule_len(j) >= 0)))
        if conc:
            # bounded stand-in: every rule is a list of two (symbolic) names, the helpers' real loops are unrolled
            I.ctx.assume(z3.ForAll([j], rule_len(j) == 2))
            I.ext_state.update(fw_n=z3.IntVal(2), fw_nSrv=nSrv)
        I.ctx.assume(z3.ForAll([j, i2], z3.Implies(z3.And(0 <= j, j < i2, i2 < n), fwk(j) != fwk(i2))))
        B.addr_axioms(I)
        I.ext_state.update(vf_nSrv=nSrv, fwc_nS=nS)
        keys = SymSeq(n, lambda q: SymV(fwk(ival(q)), "name"), "firewall.keys")
        in_keys = lambda k: z3.Exists([j], z3.And(0 <= j, j < n, fwk(j) == nameval(k)))
        fw = SymDict(in_keys, lambda k: SymSeq(2 if conc else rule_len(nameval(k)),
                                               lambda q, k=k: SymV(rule_name(nameval(k), ival(q)), "name"), "list"),
                     keys=keys, label="firewall")
        topo = SymSeq(nS, lambda r: SymSeq(nS, lambda c, r=r: SymV(doc_topo(ival(r), ival(c)), "int"), "list"), "list")
        a, b = z3.Int("vf_a"), z3.Int("vf_b")
        has = lambda x, y: in_keys(SymV(B.ADDR_STR(x, y), "name"))
        cover = z3.ForAll([a, b], z3.Implies(z3.And(0 <= a, a < nS, 0 <= b, b < nS, a != b, doc_topo(a, b) == 1),
                                             z3.And(has(a, b), has(b, a))))
        spec = z3.And(cover, rules_ok(nSrv, n))
        if variant == "valid":
            I.ctx.assume(spec)
        lo = loader_obj(I, topology=topo, services=names_seq(nSrv, "services"))
        S = Scope()
        S.extra.update(variant=variant, spec=spec)
        S.a = {"self": lo}
        S.call_args = ([lo, fw], {})
        return S

    def ensures(self, I, S):
        return [("C18.accepted-firewall-is-complete-with-valid-rules", S.extra["spec"])]


@contract
class ValidateHostAddress(_Leaf):
    """host-firewall key: accepted iff it evaluates to a pair of ints that is an address of the network"""
    qualname = LQ + "_validate_host_address"
    standin_contract = LQ + "load"      # bounded stand-in of last resort: the whole-loader tasks

    def setup(self, I, variant):
        nS, key = size_var(I, "doc_nS", len(CONC_SUBNETS)), z3.Int("doc_key")
        j = z3.Int("hs_j")
        I.ctx.assume(z3.And(nS >= 2, z3.ForAll([j], doc_size(j) >= 0)))
        B.addr_axioms(I)
        a, b = B.EV_A(key), B.EV_B(key)
        is_int = lambda t: z3.Or(t == B.TAG_INT, t == B.TAG_BOOL)
        valid = z3.And(B.EV_PAIR(key), is_int(B.EV_TA(key)), is_int(B.EV_TB(key)), 0 < a, a < nS, 0 <= b, b < doc_size(a))
        if variant == "valid":
            I.ctx.assume(valid)
        lo = loader_obj(I, subnets=subnets_seq(nS, I))
        S = Scope()
        S.extra.update(variant=variant, valid=valid)
        S.a = {"self": lo}
        S.call_args = ([lo, SymV(key, "name")], {"err_prefix": "Host"})
        return S

    def ensures(self, I, S):
        if getattr(S, "callsite", False):
            return []
        return [("C18.accepted-key-is-an-address-of-the-network", S.extra["valid"]),
                ("C17.returns-true", z3.BoolVal(S.result is True))]

    # ---- use at a call site (_validate_host_config): exact - returns True iff the key is an address of the network,
    # raises AssertionError otherwise
    callable_by_contract = True
    inline_when_concrete = True

    def bind(self, I, fi, args, kwargs):
        return Scope(a=I.bind_params(fi, args, kwargs))

    def havoc(self, I, S):
        B.addr_axioms(I)
        key = nameval(S.a["addr"])
        subs = S.a["self"].fields["subnets"]
        nS = ival(B._len(I, subs))
        a, b = B.EV_A(key), B.EV_B(key)
        size_a = ival(subs.elem(a)) if isinstance(subs, SymSeq) else doc_size(a)
        is_int = lambda t: z3.Or(t == B.TAG_INT, t == B.TAG_BOOL)
        valid = z3.And(B.EV_PAIR(key), is_int(B.EV_TA(key)), is_int(B.EV_TB(key)), 0 < a, a < nS, 0 <= b, b < size_a)
        if not I.ctx.branch(valid):
            I.raise_("AssertionError")
        return True


# ---- _validate_sensitive_hosts ---------------------------------------------------------------------------------

sh_key = z3.Function("doc_sens_key", I_, I_)               # j-th key (a string) of the sensitive_hosts section
sh_val = z3.Function("doc_sens_value", I_, R_)             # value stored under a key (by key code)
sh_vtag = z3.Function("doc_sens_value_type", I_, I_)


def sh_entry_ok(nS, j):
    k = sh_key(j)
    a, b = B.EV_A(k), B.EV_B(k)
    num = z3.Or(sh_vtag(k) == B.TAG_INT, sh_vtag(k) == B.TAG_BOOL, sh_vtag(k) == B.TAG_FLOAT)
    return z3.And(B.EV_PAIR(k), B.EV_TA(k) == B.TAG_INT, B.EV_TB(k) == B.TAG_INT, 1 <= a, a < nS, 0 <= b, b < doc_size(a),
                  num, sh_val(k) > 0)


def sh_entries_ok(nS, k):
    j = z3.Int("sh_ej")
    return z3.ForAll([j], z3.Implies(z3.And(0 <= j, j < k), sh_entry_ok(nS, j)))


def sh_differs(a, b):
    ka, kb = sh_key(a), sh_key(b)
    return z3.Or(B.EV_A(ka) != B.EV_A(kb), B.EV_B(ka) != B.EV_B(kb))


def sh_unique(n, k):
    a, b = z3.Int("sh_ua"), z3.Int("sh_ub")
    return z3.ForAll([a, b], z3.Implies(z3.And(0 <= a, a < k, 0 <= b, b < n, a != b), sh_differs(a, b)))


@loop_contract
class SensEntriesLoop(LoopContract):
    qualname = LQ + "_validate_sensitive_hosts"
    ordinal = 0
    tags = ("C17", "C18")

    def snapshot(self, I, fr, seq):
        return {}

    def havoc(self, I, fr, entry, seq):
        for v in ("address", "value", "subnet_id", "host_id"):
            fr.locals.pop(v, None)

    def inv(self, I, fr, entry, seq, k):
        return [("earlier-entries-valid", sh_entries_ok(I.ext_state["sh_nS"], k))]


@loop_contract
class SensDupOuter(LoopContract):
    qualname = LQ + "_validate_sensitive_hosts"
    ordinal = 1
    tags = ("C17", "C18")

    def snapshot(self, I, fr, seq):
        return {}

    def havoc(self, I, fr, entry, seq):
        for v in ("i", "m", "h1_addr", "j", "n", "h2_addr"):
            fr.locals.pop(v, None)

    def inv(self, I, fr, entry, seq, k):
        I.ext_state["sh_outer_k"] = k
        return [("earlier-addresses-unique", sh_unique(I.ext_state["sh_n"], k))]


@loop_contract
class SensDupInner(LoopContract):
    qualname = LQ + "_validate_sensitive_hosts"
    ordinal = 2
    tags = ("C17", "C18")

    def snapshot(self, I, fr, seq):
        return {"i": I.ext_state["sh_outer_k"]}

    def havoc(self, I, fr, entry, seq):
        for v in ("j", "n", "h2_addr"):
            fr.locals.pop(v, None)

    def inv(self, I, fr, entry, seq, k):
        i = entry["i"]
        b = z3.Int("sh_ib")
        return [("address-differs-from-earlier-positions", z3.ForAll([b], z3.Implies(
            z3.And(0 <= b, b < k, b != i), sh_differs(i, b))))]


@contract
class ValidateSensitiveHosts(_Leaf):
    """sensitive_hosts section with any number of entries: accepted iff non-empty, not more entries than hosts, every
    key a valid address, every value a positive number, no address twice"""
    qualname = LQ + "_validate_sensitive_hosts"
    standin_contract = LQ + "load"      # bounded stand-in of last resort: the whole-loader tasks

    def setup(self, I, variant):
        from pyvc.values import SymDict
        nS, n, nh = size_var(I, "doc_nS", len(CONC_SUBNETS)), size_var(I, "doc_n_sensitive", 2), z3.Int("doc_num_hosts")
        j, i2 = z3.Int("hs_j"), z3.Int("hs_i")
        I.ctx.assume(z3.And(nS >= 2, n >= 0, nh >= 1, z3.ForAll([j], doc_size(j) >= 0)))
        # keys of a dict are pairwise different strings
        I.ctx.assume(z3.ForAll([j, i2], z3.Implies(z3.And(0 <= j, j < i2, i2 < n), sh_key(j) != sh_key(i2))))
        B.addr_axioms(I)
        I.ext_state.update(sh_nS=nS, sh_n=n)
        keys = SymSeq(n, lambda q: SymV(sh_key(ival(q)), "name"), "sensitive_hosts.keys")
        sh = SymDict(lambda k: z3.BoolVal(True), lambda k: SymV(sh_val(nameval(k)), "real", pytag=sh_vtag(nameval(k))),
                     keys=keys, label="sensitive_hosts")
        spec = z3.And(n >= 1, n <= nh, sh_entries_ok(nS, n), sh_unique(n, n))
        if variant == "valid":
            I.ctx.assume(spec)
        lo = loader_obj(I, subnets=subnets_seq(nS, I), num_hosts=SymV(nh, "int"))
        S = Scope()
        S.extra.update(variant=variant, spec=spec)
        S.a = {"self": lo}
        S.call_args = ([lo, sh], {})
        return S

    def ensures(self, I, S):
        return [("C18.accepted-sensitive-hosts-are-valid-unique-positive", S.extra["spec"])]


# ---- _parse_sensitive_hosts: validation + re-keying by the parsed address -----------------------------------------

def sh_rekeyed(m, k):
    """the address-keyed map holds exactly the first k entries of the section, each under its parsed address, with
    the file's value"""
    j, a, b = z3.Int("shp_j"), z3.Int("shp_a"), z3.Int("shp_b")
    if isinstance(m, PyDict):
        ks = z3.simplify(k) if z3.is_expr(k) else z3.IntVal(k)
        if not z3.is_int_value(ks):
            return [("map-holds-the-first-entries", z3.BoolVal(False))]
        kk = ks.as_long()
        # concrete-length run (loops unrolled): an ordinary dict whose keys are (symbolic) address pairs
        ents = [(kk_, v) for kk_, v in m.d.items()] + [(e[0], e[1]) for e in m.sym]
        if len(ents) != kk or any(not (isinstance(a_, tuple) and len(a_) == 2) for a_, _ in ents):
            return [("map-holds-the-first-entries", z3.BoolVal(kk == 0 and not ents))]
        cs = []
        for q in range(kk):
            key = sh_key(z3.IntVal(q))
            cs.append(z3.Or(*[z3.And(ival(a_[0]) == B.EV_A(key), ival(a_[1]) == B.EV_B(key), rval(v) == sh_val(key))
                              for a_, v in ents]))
        return [("map-holds-the-first-entries", z3.And(*cs) if cs else z3.BoolVal(True))]
    if not isinstance(m, SDict) or m.arity != 2:
        return [("map-holds-the-first-entries", z3.BoolVal(False))]
    key = lambda q: sh_key(q)
    return [("entries-present-with-file-values", z3.ForAll([j], z3.Implies(z3.And(0 <= j, j < k), z3.And(
                z3.Select(m.dom, B.EV_A(key(j)), B.EV_B(key(j))),
                z3.Select(m.val, B.EV_A(key(j)), B.EV_B(key(j))) == sh_val(key(j)))))),
            ("nothing-else", z3.ForAll([a, b], z3.Implies(z3.Select(m.dom, a, b), z3.Exists([j], z3.And(
                0 <= j, j < k, B.EV_A(key(j)) == a, B.EV_B(key(j)) == b)))))]


@loop_contract
class ParseSensitiveLoop(LoopContract):
    qualname = LQ + "_parse_sensitive_hosts"
    ordinal = 0
    tags = ("C17",)

    def snapshot(self, I, fr, seq):
        return {"self": fr.locals["self"]}

    def havoc(self, I, fr, entry, seq):
        A = z3.ArraySort
        entry["self"].fields["sensitive_hosts"] = SDict(2, "real", I.ctx.fresh("sens_dom", A(I_, I_, B_)),
                                                        I.ctx.fresh("sens_val", A(I_, I_, R_)), fresh=True, label="sensitive_hosts")
        for v in loop_assigned(self.st):
            fr.locals.pop(v, None)

    def inv(self, I, fr, entry, seq, k):
        return sh_rekeyed(entry["self"].fields.get("sensitive_hosts"), k)


@contract
class ParseSensitiveHosts(Contract):
    """the sensitive_hosts section of any size: after validation the loader holds it re-keyed by the parsed address
    tuples, with the file's values (what Scenario / Network / the goal test read)"""
    qualname = LQ + "_parse_sensitive_hosts"
    standin_contract = LQ + "load"      # bounded stand-in of last resort: the whole-loader tasks
    callable_by_contract = False
    bounded = False
    tags = {"": ("C17",)}

    def setup(self, I, variant):
        from pyvc.values import SymDict
        nS, n, nh = size_var(I, "doc_nS", len(CONC_SUBNETS)), size_var(I, "doc_n_sensitive", 2), z3.Int("doc_num_hosts")
        j, i2 = z3.Int("hs_j"), z3.Int("hs_i")
        I.ctx.assume(z3.And(nS >= 2, n >= 0, nh >= 1, z3.ForAll([j], doc_size(j) >= 0)))
        I.ctx.assume(z3.ForAll([j, i2], z3.Implies(z3.And(0 <= j, j < i2, i2 < n), sh_key(j) != sh_key(i2))))
        B.addr_axioms(I)
        I.ext_state.update(sh_nS=nS, sh_n=n)
        keys = SymSeq(n, lambda q: SymV(sh_key(ival(q)), "name"), "sensitive_hosts.keys")
        sh = SymDict(lambda k: z3.BoolVal(True), lambda k: SymV(sh_val(nameval(k)), "real", pytag=sh_vtag(nameval(k))),
                     keys=keys, label="sensitive_hosts")
        lo = loader_obj(I, subnets=subnets_seq(nS, I), num_hosts=SymV(nh, "int"),
                        yaml_dict=PyDict({"sensitive_hosts": sh}, fresh=False))
        S = Scope()
        S.extra.update(n=n)
        S.a = {"self": lo}
        S.call_args = ([lo], {})
        return S

    def modifies(self, I, S):
        return [S.a["self"]]

    def allowed_exception(self, I, S, exc):
        return True            # an invalid section is rejected by the validator (its own contract says exactly when)

    def ensures(self, I, S):
        return [("C17.sensitive-hosts-" + l, t) for l, t in sh_rekeyed(S.a["self"].fields.get("sensitive_hosts"), S.extra["n"])]


# ---- _validate_single_exploit / _validate_single_privesc -------------------------------------------------------------
# one definition over name lists of any length; field values carry symbolic run-time type tags.  `str(x).lower() ==
# "none"` (the any-OS marker) is an ASSUMED function of the string (str_lower); the scenario's names are 0..n-1.

from pyvc.values import intern_name, NONE_ID, EngineLimit


def _any_os(code):
    return B.STR_LOWER(code) == intern_name("none")


def single_def_spec(d, target_key, nT, nOS):
    """documented validity of one exploit / escalation definition d (a dict of tagged symbolic values), and the level its
    access field stands for; None if the dict does not have the five fields as tagged scalars"""
    try:
        tgt, os_, prob, cost, acc = d.d[target_key], d.d["os"], d.d["prob"], d.d["cost"], d.d["access"]
    except KeyError:
        return None
    if not all(isinstance(x, SymV) and x.pytag is not None for x in (tgt, os_, prob, cost, acc)):
        return None
    num = lambda t: z3.Or(t == B.TAG_INT, t == B.TAG_BOOL, t == B.TAG_FLOAT)
    user, root = intern_name("user"), intern_name("root")
    if acc.ty == "name":
        acc_ok = z3.And(acc.pytag == B.TAG_STR, z3.Or(acc.t == user, acc.t == root))
        acc_val = z3.If(acc.t == user, 1, 2)
    else:
        acc_ok = z3.And(z3.Or(acc.pytag == B.TAG_INT, acc.pytag == B.TAG_BOOL), z3.Or(ival(acc) == 1, ival(acc) == 2))
        acc_val = ival(acc)
    spec = z3.And(tgt.pytag == B.TAG_STR, 0 <= tgt.t, tgt.t < nT, os_.pytag == B.TAG_STR,
                  z3.Or(_any_os(os_.t), z3.And(0 <= os_.t, os_.t < nOS)), num(prob.pytag), 0 <= rval(prob), rval(prob) <= 1,
                  num(cost.pytag), rval(cost) > 0, acc_ok)
    return spec, acc_val, z3.If(_any_os(os_.t), z3.IntVal(NONE_ID), os_.t)


class _ValidateSingleDef(Contract):
    bounded = False
    inline_when_concrete = True         # the bounded whole-loader tasks keep executing the real validator
    tags = {"": ("C17", "C18")}
    target_key, target_list = None, None

    def variants(self):
        return [f"{v}/{a}" for v in ("valid", "any") for a in ("access-str", "access-int")]

    def setup(self, I, variant):
        v, acc_kind = variant.split("/")
        nT, nOS = z3.Int("doc_n_targets"), z3.Int("doc_nOS")
        I.ctx.assume(z3.And(nT >= 1, nOS >= 1))
        tgt, tgt_tag = z3.Int("def_target"), z3.Int("def_target_type")
        os_, os_tag = z3.Int("def_os"), z3.Int("def_os_type")
        prob, prob_tag = z3.Real("def_prob"), z3.Int("def_prob_type")
        cost, cost_tag = z3.Real("def_cost"), z3.Int("def_cost_type")
        acc, acc_tag = z3.Int("def_access"), z3.Int("def_access_type")
        # the codes of strings are non-negative (None has its own, negative, code: a YAML null in these fields is a
        # non-string and is covered by the document-level catalogue)
        I.ctx.assume(z3.And(tgt >= 0, os_ >= 0, acc >= 0))
        # "none" (any case) is not the name of an OS of the scenario
        nn = z3.Int("nn")
        I.ctx.assume(z3.ForAll([nn], z3.Implies(z3.And(0 <= nn, nn < nOS), z3.Not(_any_os(nn)))))
        if acc_kind == "access-str":
            access = SymV(acc, "name", pytag=acc_tag)
            I.ctx.assume(acc_tag == B.TAG_STR)          # this variant: the access field is some string
        else:
            access = SymV(acc, "int", pytag=acc_tag)
            I.ctx.assume(acc_tag != B.TAG_STR)
        d = PyDict({self.target_key: SymV(tgt, "name", pytag=tgt_tag), "os": SymV(os_, "name", pytag=os_tag),
                    "prob": SymV(prob, "real", pytag=prob_tag), "cost": SymV(cost, "real", pytag=cost_tag),
                    "access": access}, fresh=False)
        spec, acc_val, norm_os = single_def_spec(d, self.target_key, nT, nOS)
        if v == "valid":
            I.ctx.assume(spec)
        lo = loader_obj(I, os=names_seq(nOS, "os"), **{self.target_list: names_seq(nT, self.target_list)})
        S = Scope()
        S.extra.update(variant=v, spec=spec, d=d, norm_os=norm_os, acc_val=acc_val)
        S.a = {"self": lo}
        S.call_args = ([lo, "e_name", d], {})
        return S

    def modifies(self, I, S):
        return [S.extra["d"]] if "d" in S.extra else []            # the definition is normalised in place

    def allowed_exception(self, I, S, exc):
        return S.extra["variant"] == "any"

    def ensures(self, I, S):
        if getattr(S, "callsite", False):
            return []
        d, e = S.extra["d"], S.extra
        os_after, acc_after = d.d.get("os"), d.d.get("access")
        return [("C18.accepted-definition-is-valid", e["spec"]),
                ("C17.os-normalised", nameval(os_after) == e["norm_os"]),
                ("C17.access-normalised-to-level", ival(acc_after) == e["acc_val"] if isinstance(acc_after, (SymV, int)) and
                 not isinstance(acc_after, bool) and (not isinstance(acc_after, SymV) or acc_after.ty == "int")
                 else z3.BoolVal(False))]

    # ---- use at a call site (the section loops): exact contract - returns iff the definition is valid, and normalises it
    def bind(self, I, fi, args, kwargs):
        return Scope(a=I.bind_params(fi, args, kwargs))

    def havoc(self, I, S):
        lo = S.a["self"]
        d = [v for k, v in S.a.items() if k not in ("self",) and isinstance(v, PyDict)]
        if len(d) != 1:
            raise EngineLimit("definition handed to the single-definition validator is not a dict")
        d = d[0]
        nT = ival(B._len(I, lo.fields[self.target_list]))
        nOS = ival(B._len(I, lo.fields["os"]))
        r = single_def_spec(d, self.target_key, nT, nOS)
        if r is None:
            raise EngineLimit("definition without tagged fields")
        spec, acc_val, norm_os = r
        if not I.ctx.branch(spec):
            I.raise_("AssertionError")
        d.d["os"] = mk(norm_os, "name")
        d.d["access"] = mk(acc_val, "int")
        return None


@contract
class ValidateSingleExploit(_ValidateSingleDef):
    qualname = LQ + "_validate_single_exploit"
    standin_contract = LQ + "load"      # bounded stand-in of last resort: the whole-loader tasks
    target_key, target_list = "service", "services"


@contract
class ValidateSinglePrivesc(_ValidateSingleDef):
    qualname = LQ + "_validate_single_privesc"
    standin_contract = LQ + "load"      # bounded stand-in of last resort: the whole-loader tasks
    target_key, target_list = "process", "processes"


# ---- _validate_exploits / _validate_privescs: a section with any number of definitions, verified MODULARLY against
# the contract of the single-definition validator (exact: it returns iff the definition is valid)

dk = z3.Function("doc_def_key", I_, I_)                     # j-th key (a name) of the section
df_t, df_tt = z3.Function("doc_def_target", I_, I_), z3.Function("doc_def_target_type", I_, I_)
df_o, df_ot = z3.Function("doc_def_os", I_, I_), z3.Function("doc_def_os_type", I_, I_)
df_p, df_pt = z3.Function("doc_def_prob", I_, R_), z3.Function("doc_def_prob_type", I_, I_)
df_c, df_ct = z3.Function("doc_def_cost", I_, R_), z3.Function("doc_def_cost_type", I_, I_)
df_a, df_at = z3.Function("doc_def_access", I_, I_), z3.Function("doc_def_access_type", I_, I_)


def section_def(key, target_key, acc_kind):
    k = nameval(key)
    return PyDict({target_key: SymV(df_t(k), "name", pytag=df_tt(k)), "os": SymV(df_o(k), "name", pytag=df_ot(k)),
                   "prob": SymV(df_p(k), "real", pytag=df_pt(k)), "cost": SymV(df_c(k), "real", pytag=df_ct(k)),
                   "access": SymV(df_a(k), "name" if acc_kind == "access-str" else "int", pytag=df_at(k))}, fresh=False)


def section_ok(I, k):
    e = I.ext_state["sec"]
    j = z3.Int("sec_j")
    spec = single_def_spec(section_def(SymV(dk(j), "name"), e["target_key"], e["acc_kind"]), e["target_key"], e["nT"], e["nOS"])[0]
    return z3.ForAll([j], z3.Implies(z3.And(0 <= j, j < k), spec))


class _SectionLoop(LoopContract):
    ordinal = 0
    tags = ("C17", "C18")

    def snapshot(self, I, fr, seq):
        return {}

    def havoc(self, I, fr, entry, seq):
        for v in loop_assigned(self.st):
            fr.locals.pop(v, None)

    def inv(self, I, fr, entry, seq, k):
        return [("earlier-definitions-valid", section_ok(I, k))]


@loop_contract
class ValidateExploitsLoop(_SectionLoop):
    qualname = LQ + "_validate_exploits"


@loop_contract
class ValidatePrivescsLoop(_SectionLoop):
    qualname = LQ + "_validate_privescs"


class _ValidateSection(_Leaf):
    target_key, target_list = None, None

    def variants(self):
        return [f"{v}/{a}" for v in ("valid", "any") for a in ("access-str", "access-int")]

    def setup(self, I, variant):
        from pyvc.values import SymDict
        v, acc_kind = variant.split("/")
        n, nT, nOS = z3.Int("doc_n_defs"), z3.Int("doc_n_targets"), z3.Int("doc_nOS")
        j, nn = z3.Int("sec_q"), z3.Int("nn")
        I.ctx.assume(z3.And(n >= 0, nT >= 1, nOS >= 1))
        I.ctx.assume(z3.ForAll([j], z3.And(df_t(j) >= 0, df_o(j) >= 0, df_a(j) >= 0,
                                           df_at(j) == B.TAG_STR if acc_kind == "access-str" else df_at(j) != B.TAG_STR)))
        I.ctx.assume(z3.ForAll([nn], z3.Implies(z3.And(0 <= nn, nn < nOS), z3.Not(_any_os(nn)))))
        I.ext_state["sec"] = {"target_key": self.target_key, "acc_kind": acc_kind, "nT": nT, "nOS": nOS}
        keys = SymSeq(n, lambda q: SymV(dk(ival(q)), "name"), "section.keys")
        sec = SymDict(lambda k: z3.BoolVal(True), lambda k: section_def(k, self.target_key, acc_kind), keys=keys, label="section")
        spec = section_ok(I, n)
        if v == "valid":
            I.ctx.assume(spec)
        lo = loader_obj(I, os=names_seq(nOS, "os"), **{self.target_list: names_seq(nT, self.target_list)})
        S = Scope()
        S.extra.update(variant=v, spec=spec)
        S.a = {"self": lo}
        S.call_args = ([lo, sec], {})
        return S

    def ensures(self, I, S):
        return [("C18.accepted-section-has-only-valid-definitions", S.extra["spec"])]


@contract
class ValidateExploits(_ValidateSection):
    """exploits section with any number of definitions (empty allowed): accepted iff every definition is valid"""
    qualname = LQ + "_validate_exploits"
    standin_contract = LQ + "load"      # bounded stand-in of last resort: the whole-loader tasks
    target_key, target_list = "service", "services"


@contract
class ValidatePrivescs(_ValidateSection):
    """privilege_escalation section with any number of definitions (empty allowed): accepted iff every one is valid"""
    qualname = LQ + "_validate_privescs"
    standin_contract = LQ + "load"      # bounded stand-in of last resort: the whole-loader tasks
    target_key, target_list = "process", "processes"


# ---- _validate_host_config: one host configuration over lists of any length, verified against the contracts of
# _validate_host_address and _is_valid_firewall_setting

hcv_srv = z3.Function("doc_hc_service", I_, I_)
hcv_proc = z3.Function("doc_hc_process", I_, I_)
hfw_key = z3.Function("doc_hfw_key", I_, I_)               # j-th key of the host firewall
hfw_len = z3.Function("doc_hfw_rule_len", I_, I_)
hfw_name = z3.Function("doc_hfw_rule_name", I_, I_, I_)
ISCLOSE = z3.Function("isclose", R_, R_, B_)


def _known_upto(f, k, limit):
    """entries with index < k are names of the scenario list (0..limit-1)"""
    a = z3.Int("hcv_a")
    return z3.ForAll([a], z3.Implies(z3.And(0 <= a, a < k), z3.And(0 <= f(a), f(a) < limit)))


def _known_distinct(f, n, limit):
    a, b = z3.Int("hcv_da"), z3.Int("hcv_db")
    return z3.And(_known_upto(f, n, limit),
                  z3.ForAll([a, b], z3.Implies(z3.And(0 <= a, a < b, b < n), f(a) != f(b))))


def _hfw_entry_ok(e, j):
    key = hfw_key(j)
    a, b = B.EV_A(key), B.EV_B(key)
    is_int = lambda t: z3.Or(t == B.TAG_INT, t == B.TAG_BOOL)
    addr_ok = z3.And(B.EV_PAIR(key), is_int(B.EV_TA(key)), is_int(B.EV_TB(key)), 0 < a, a < e["nS"], 0 <= b, b < doc_size(a))
    x, y = z3.Int("hfw_x"), z3.Int("hfw_y")
    n = hfw_len(key)
    rule_ok_ = z3.And(z3.ForAll([x], z3.Implies(z3.And(0 <= x, x < n), z3.And(0 <= hfw_name(key, x), hfw_name(key, x) < e["nSrv"]))),
                      z3.ForAll([x, y], z3.Implies(z3.And(0 <= x, x < n, 0 <= y, y < n, x != y), hfw_name(key, x) != hfw_name(key, y))))
    return z3.And(addr_ok, rule_ok_)


def _hfw_ok(e, k):
    j = z3.Int("hfw_j")
    return z3.ForAll([j], z3.Implies(z3.And(0 <= j, j < k), _hfw_entry_ok(e, j)))


class _HcvLoop(LoopContract):
    qualname = LQ + "_validate_host_config"
    tags = ("C17", "C18")

    def snapshot(self, I, fr, seq):
        return {}

    def havoc(self, I, fr, entry, seq):
        for v in loop_assigned(self.st):
            fr.locals.pop(v, None)


@loop_contract
class HcvServicesLoop(_HcvLoop):
    ordinal = 1

    def inv(self, I, fr, entry, seq, k):
        e = I.ext_state["hcv"]
        return [("earlier-services-known", _known_upto(hcv_srv, k, e["nSrv"]))]


@loop_contract
class HcvProcessesLoop(_HcvLoop):
    ordinal = 2

    def inv(self, I, fr, entry, seq, k):
        e = I.ext_state["hcv"]
        return [("earlier-processes-known", _known_upto(hcv_proc, k, e["nProc"]))]


@loop_contract
class HcvFirewallLoop(_HcvLoop):
    ordinal = 3

    def inv(self, I, fr, entry, seq, k):
        return [("earlier-host-firewall-entries-valid", _hfw_ok(I.ext_state["hcv"], k))]


@contract
class ValidateHostConfig(_Leaf):
    """one host configuration (services / processes / host firewall of any length): accepted iff the services and
    processes are known and duplicate-free, the OS is known, the host firewall (if any) maps addresses of the network
    to valid rules, and the value (if any) is a number that agrees with the declared one for a sensitive host"""
    qualname = LQ + "_validate_host_config"
    standin_contract = LQ + "load"      # bounded stand-in of last resort: the whole-loader tasks

    def variants(self):
        return [f"{v}/{fw}/{val}" for v in ("valid", "any") for fw in ("firewall", "no-firewall") for val in ("value", "no-value")]

    def setup(self, I, variant):
        from pyvc.values import SymDict
        v, fw, val = variant.split("/")
        nS, nSrv, nProc, nOS = z3.Int("doc_nS"), z3.Int("doc_nSrv"), z3.Int("doc_nProc"), z3.Int("doc_nOS")
        ms, mp, nf = z3.Int("doc_hc_n_srv"), z3.Int("doc_hc_n_proc"), z3.Int("doc_hfw_n")
        j, i2 = z3.Int("hcv_j"), z3.Int("hcv_i")
        I.ctx.assume(z3.And(nS >= 2, nSrv >= 1, nProc >= 1, nOS >= 1, ms >= 0, mp >= 0, nf >= 0,
                            z3.ForAll([j], z3.And(doc_size(j) >= 0, hfw_len(j) >= 0))))
        I.ctx.assume(z3.ForAll([j, i2], z3.Implies(z3.And(0 <= j, j < i2, i2 < nf), hfw_key(j) != hfw_key(i2))))
        B.addr_axioms(I)
        e = {"nS": nS, "nSrv": nSrv, "nProc": nProc, "ms": ms, "mp": mp}
        I.ext_state["hcv"] = e
        host_os = z3.Int("doc_hc_os")
        addr = z3.Int("doc_hc_addr")                    # the configuration's own key (a string)
        hv, hvt = z3.Real("doc_hc_value"), z3.Int("doc_hc_value_type")
        sens = z3.Function("doc_is_sensitive", I_, I_, B_)
        sval = z3.Function("doc_sensitive_value", I_, I_, R_)
        d = {"os": SymV(host_os, "name"),
             "services": SymSeq(ms, lambda q: SymV(hcv_srv(ival(q)), "name"), "list"),
             "processes": SymSeq(mp, lambda q: SymV(hcv_proc(ival(q)), "name"), "list")}
        spec = [_known_distinct(hcv_srv, ms, nSrv), _known_distinct(hcv_proc, mp, nProc), z3.And(0 <= host_os, host_os < nOS)]
        if fw == "firewall":
            keys = SymSeq(nf, lambda q: SymV(hfw_key(ival(q)), "name"), "host-firewall.keys")
            d["firewall"] = SymDict(lambda k: z3.BoolVal(True),
                                    lambda k: SymSeq(hfw_len(nameval(k)), lambda q, k=k: SymV(hfw_name(nameval(k), ival(q)), "name"), "list"),
                                    keys=keys, label="host-firewall")
            spec.append(_hfw_ok(e, nf))
        if val == "value":
            d["value"] = SymV(hv, "real", pytag=hvt)
            num = z3.Or(hvt == B.TAG_INT, hvt == B.TAG_BOOL, hvt == B.TAG_FLOAT)
            # the key of a host configuration has already been checked to be an address (_has_all_host_addresses)
            I.ctx.assume(B.EV_PAIR(addr))
            a, b = B.EV_A(addr), B.EV_B(addr)
            spec.append(z3.And(num, z3.Implies(sens(a, b), ISCLOSE(hv, sval(a, b)))))
        spec = z3.And(*spec)
        if v == "valid":
            I.ctx.assume(spec)
        cfg = PyDict(d, fresh=False)
        sh = SymDict(lambda k: sens(ival(k[0]), ival(k[1])), lambda k: mk(sval(ival(k[0]), ival(k[1])), "real"), label="sensitive_hosts")
        lo = loader_obj(I, subnets=subnets_seq(nS), services=names_seq(nSrv, "services"), processes=names_seq(nProc, "processes"),
                        os=names_seq(nOS, "os"), sensitive_hosts=sh)
        S = Scope()
        S.extra.update(variant=v, spec=spec, cfg=cfg)
        S.a = {"self": lo}
        S.call_args = ([lo, SymV(addr, "name"), cfg], {})
        return S

    def modifies(self, I, S):
        return [S.extra["cfg"]]           # a missing host firewall is normalised to an empty one

    def ensures(self, I, S):
        return [("C18.accepted-host-configuration-is-valid", S.extra["spec"])]
