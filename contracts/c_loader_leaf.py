"""UNBOUNDED contracts for the leaf validators of nasim/scenarios/loader.py (C17 accepts every valid value,
C18 normal return implies the rule): lists of symbolic length with symbolically typed entries"""
import z3

from pyvc.contract import Contract, LoopContract, Scope, contract, loop_contract
from pyvc.values import SymV, Obj, SymSeq, PyDict, PyList, mk, ival, rval, bval, nameval
from pyvc import builtins as B

LQ = "nasim.scenarios.loader.ScenarioLoader."
I_, R_, B_ = z3.IntSort(), z3.RealSort(), z3.BoolSort()


def loader_obj(I, **f):
    return Obj(I.repo.cls("nasim.scenarios.loader.ScenarioLoader"), dict(f), fresh=False, label="loader")


class _Leaf(Contract):
    callable_by_contract = False
    bounded = False
    tags = {"": ("C17", "C18")}

    def variants(self):
        return ["valid", "any"]

    def allowed_exception(self, I, S, exc):
        # "any" input: rejecting is fine (C18 is about normal returns); "valid" input must be accepted (C17)
        return S.extra["variant"] == "any"


# ---- _validate_subnets -----------------------------------------------------------------------------------------

sub_val = z3.Function("doc_subnet", I_, I_)
sub_tag = z3.Function("doc_subnet_type", I_, I_)


def subnets_valid(n, k=None):
    j = z3.Int("sv_j")
    k = n if k is None else k
    return z3.ForAll([j], z3.Implies(z3.And(0 <= j, j < k), z3.And(sub_tag(j) == B.TAG_INT, sub_val(j) > 0)))


@loop_contract
class ValidateSubnetsLoop(LoopContract):
    qualname = LQ + "_validate_subnets"
    ordinal = 0
    tags = ("C17", "C18")

    def snapshot(self, I, fr, seq):
        return {}

    def havoc(self, I, fr, entry, seq):
        fr.locals.pop("subnet_size", None)

    def inv(self, I, fr, entry, seq, k):
        return [("earlier-entries-positive-ints", subnets_valid(None, k))]


@contract
class ValidateSubnets(_Leaf):
    qualname = LQ + "_validate_subnets"

    def setup(self, I, variant):
        n = z3.Int("doc_n_subnets")
        I.ctx.assume(n >= 0)
        subs = SymSeq(n, lambda j: SymV(sub_val(ival(j)), "int", pytag=sub_tag(ival(j))), "list")
        if variant == "valid":
            I.ctx.assume(z3.And(n > 0, subnets_valid(n)))
        S = Scope()
        S.extra.update(variant=variant, n=n)
        lo = loader_obj(I)
        S.a = {"self": lo}
        S.call_args = ([lo, subs], {})
        return S

    def ensures(self, I, S):
        n = S.extra["n"]
        return [("C18.subnets-non-empty-positive-ints", z3.And(n > 0, subnets_valid(n)))]


# ---- _validate_topology ----------------------------------------------------------------------------------------

row_len = z3.Function("doc_row_len", I_, I_)
top_val = z3.Function("doc_topo", I_, I_, I_)
top_tag = z3.Function("doc_topo_type", I_, I_, I_)


def row_ok(r, nS, k=None):
    c = z3.Int("tv_c")
    k = row_len(r) if k is None else k
    return z3.ForAll([c], z3.Implies(z3.And(0 <= c, c < k), z3.And(
        z3.Or(top_tag(r, c) == B.TAG_INT, top_tag(r, c) == B.TAG_BOOL), z3.Or(top_val(r, c) == 0, top_val(r, c) == 1))))


def rows_ok(nS, k):
    r = z3.Int("tv_r")
    return z3.ForAll([r], z3.Implies(z3.And(0 <= r, r < k), z3.And(row_len(r) == nS, row_ok(r, nS))))


@loop_contract
class ValidateTopologyRows(LoopContract):
    qualname = LQ + "_validate_topology"
    ordinal = 0
    tags = ("C17", "C18")

    def snapshot(self, I, fr, seq):
        return {}

    def havoc(self, I, fr, entry, seq):
        for v in ("row", "col"):
            fr.locals.pop(v, None)

    def inv(self, I, fr, entry, seq, k):
        nS = ival(B._len(I, fr.locals["self"].fields["subnets"]))
        I.ext_state["topo_row_index"] = k
        return [("earlier-rows-valid", rows_ok(nS, k))]


@loop_contract
class ValidateTopologyCols(LoopContract):
    qualname = LQ + "_validate_topology"
    ordinal = 1
    tags = ("C17", "C18")

    def snapshot(self, I, fr, seq):
        return {"r": I.ext_state["topo_row_index"]}

    def havoc(self, I, fr, entry, seq):
        fr.locals.pop("col", None)

    def inv(self, I, fr, entry, seq, k):
        nS = ival(B._len(I, fr.locals["self"].fields["subnets"]))
        return [("earlier-entries-valid", row_ok(entry["r"], nS, k))]


@contract
class ValidateTopology(_Leaf):
    qualname = LQ + "_validate_topology"

    def setup(self, I, variant):
        nS = z3.Int("doc_nS")
        nrows = z3.Int("doc_n_rows")
        I.ctx.assume(z3.And(nS >= 2, nrows >= 0))
        r_ = z3.Int("tr_r")
        I.ctx.assume(z3.ForAll([r_], row_len(r_) >= 0))
        topo = SymSeq(nrows, lambda r: SymSeq(row_len(ival(r)), lambda c, r=r: SymV(top_val(ival(r), ival(c)), "int",
                                                                                  pytag=top_tag(ival(r), ival(c))), "list"),
                      "list")
        if variant == "valid":
            I.ctx.assume(z3.And(nrows == nS, rows_ok(nS, nS)))
        lo = loader_obj(I, subnets=SymSeq(nS, lambda j: SymV(sub_val(ival(j)), "int"), "list"))
        S = Scope()
        S.extra.update(variant=variant, nS=nS, nrows=nrows)
        S.a = {"self": lo}
        S.call_args = ([lo, topo], {})
        return S

    def ensures(self, I, S):
        nS, nrows = S.extra["nS"], S.extra["nrows"]
        return [("C18.topology-square-0-1", z3.And(nrows == nS, rows_ok(nS, nS)))]


# ---- _validate_os / _validate_services / _validate_processes --------------------------------------------------

name_at = z3.Function("doc_name", I_, I_)


class _ValidateNames(_Leaf):
    def setup(self, I, variant):
        n = z3.Int("doc_n_names")
        I.ctx.assume(n >= 0)
        names = SymSeq(n, lambda j: SymV(name_at(ival(j)), "name"), "list")
        i_, j_ = z3.Int("vn_i"), z3.Int("vn_j")
        S = Scope()
        S.extra["distinct"] = z3.ForAll([i_, j_], z3.Implies(z3.And(0 <= i_, i_ < j_, j_ < n), name_at(i_) != name_at(j_)))
        if variant == "valid":
            I.ctx.assume(z3.And(n > 0, S.extra["distinct"]))
        S.extra.update(variant=variant, n=n)
        lo = loader_obj(I)
        S.a = {"self": lo}
        S.call_args = ([lo, names], {})
        return S

    def ensures(self, I, S):
        return [("C18.names-non-empty-and-duplicate-free", z3.And(S.extra["n"] > 0, S.extra["distinct"]))]


@contract
class ValidateOs(_ValidateNames):
    qualname = LQ + "_validate_os"


@contract
class ValidateServices(_ValidateNames):
    qualname = LQ + "_validate_services"


@contract
class ValidateProcesses(_ValidateNames):
    qualname = LQ + "_validate_processes"


# ---- _validate_scan_cost / _parse_step_limit ------------------------------------------------------------------

@contract
class ValidateScanCost(_Leaf):
    qualname = LQ + "_validate_scan_cost"

    def setup(self, I, variant):
        c = z3.Real("doc_scan_cost")
        if variant == "valid":
            I.ctx.assume(c >= 0)
        S = Scope()
        S.extra.update(variant=variant, c=c)
        lo = loader_obj(I)
        S.a = {"self": lo}
        S.call_args = ([lo, "OS", SymV(c, "real")], {})
        return S

    def ensures(self, I, S):
        return [("C18.scan-cost-non-negative", S.extra["c"] >= 0)]


@contract
class ParseStepLimit(_Leaf):
    qualname = LQ + "_parse_step_limit"

    def variants(self):
        return ["valid-absent", "valid-present", "any-present"]

    def setup(self, I, variant):
        lim = z3.Int("doc_step_limit")
        present = not variant.endswith("absent")
        if variant == "valid-present":
            I.ctx.assume(lim > 0)
        doc = PyDict({"step_limit": SymV(lim, "int")} if present else {}, fresh=False)
        lo = loader_obj(I, yaml_dict=doc)
        S = Scope()
        S.extra.update(variant="any" if variant.startswith("any") else "valid", lim=lim, present=present)
        S.a = {"self": lo}
        S.call_args = ([lo], {})
        return S

    def modifies(self, I, S):
        return [S.a["self"]]

    def ensures(self, I, S):
        got = S.a["self"].fields.get("step_limit", "missing")
        if not S.extra["present"]:
            return [("C17.no-step-limit-means-none", z3.BoolVal(got is None))]
        return [("C18.step-limit-positive", S.extra["lim"] > 0),
                ("C17.step-limit-kept", ival(got) == S.extra["lim"] if isinstance(got, (SymV, int)) else z3.BoolVal(False))]
