"""contracts for observations (C08): HostVector.observe, State.get_observation, State.get_initial_observation"""
import z3

from pyvc.contract import Contract, LoopContract, Scope, contract, loop_contract
from pyvc.values import (SymV, Obj, NpCell, NpArr, AbsVal, SDict, SymSeq, SymDict, PyDict, PyList, ClassRef, mk, ival,
                         rval, bval, nameval, A1, A2)
from . import vocab as V
from .c_network import dyn_setup, tensor_of
from .c_host_vector import DictSort, EMPTY_DICT
from .c_environment import GetObservationModel

I_, R_, B_ = z3.IntSort(), z3.RealSort(), z3.BoolSort()
HVQ = "nasim.envs.host_vector.HostVector"
SWITCHES = ["address", "compromised", "reachable", "discovered", "access", "value", "discovery_value", "services",
            "processes", "os"]


def group_on(sig, sw, c):
    """is column c in a feature group whose switch is on?  sw: dict switch-name -> z3 Bool"""
    L = sig.layout()
    return z3.Or(
        z3.And(sw["address"], 0 <= c, c < L.comp),
        z3.And(sw["compromised"], c == L.comp), z3.And(sw["reachable"], c == L.reach),
        z3.And(sw["discovered"], c == L.disc), z3.And(sw["value"], c == L.value),
        z3.And(sw["discovery_value"], c == L.dvalue), z3.And(sw["access"], c == L.access),
        z3.And(sw["os"], L.os0 <= c, c < L.srv0), z3.And(sw["services"], L.srv0 <= c, c < L.proc0),
        z3.And(sw["processes"], L.proc0 <= c, c < L.W))


# ---------------------------------------------------------------------------- HostVector.observe

@contract
class Observe(Contract):
    qualname = HVQ + ".observe"
    callable_by_contract = False       # loop-free; its switches are concrete at every call site: inlined there
    tags = {"": ("C08", "C09")}

    def variants(self):
        return ["sp00", "sp01", "sp10", "sp11"]

    def setup(self, I, variant):
        sig = V.Sigma(concrete=I.ext_state.get("concrete"))
        for ax in sig.wfs():
            I.ctx.assume(ax)
        I.ext_state["sig"] = sig
        L = sig.install_layout(I)
        vec = z3.Const("ovec", A1)
        cell = NpCell(vec, (L.W,), fresh=False, label="self.vector")
        selfobj = Obj(I.repo.cls(HVQ), {"vector": NpArr(cell)}, fresh=False, label="self")
        sw = {}
        kw = {}
        for k in SWITCHES:
            if k == "services":
                sw[k] = z3.BoolVal(variant[2] == "1")
                kw[k] = variant[2] == "1"
            elif k == "processes":
                sw[k] = z3.BoolVal(variant[3] == "1")
                kw[k] = variant[3] == "1"
            else:
                sw[k] = z3.Bool("sw_" + k)
                kw[k] = SymV(sw[k], "bool")
        S = Scope(sig=sig)
        S.a = {"self": selfobj}
        S.extra["sw"] = sw
        S.call_args = ([selfobj], kw)
        return S

    def concretize(self, I, S):
        from . import dyn_cex
        return dyn_cex.make_observe(I, S)

    def snapshot(self, I, S):
        S.old["vec"] = S.a["self"].fields["vector"].content()
        S.old["cell"] = S.a["self"].fields["vector"].cell

    def ensures(self, I, S):
        sig = S.sig
        L = sig.layout()
        res = S.result
        ok = isinstance(res, NpArr) and res.ndim == 1
        out = [("C08.returns-vector", z3.BoolVal(ok))]
        if not ok:
            return out
        c = sig.qvar("oc")
        cur = res.content()
        out.append(("C08.observe-cells", z3.ForAll([c], z3.Implies(z3.And(0 <= c, c < L.W), z3.Select(cur, c) == z3.If(
            group_on(sig, S.extra["sw"], c), z3.Select(S.old["vec"], c), z3.RealVal(0))))))
        out.append(("C08.observe-fresh", z3.BoolVal(res.cell.fresh and res.cell is not S.old["cell"])))
        out.append(("C09.observe-width", ival(res.shape[0]) == L.W))
        return out

    def frame(self, I, S):
        return [("C08.vector-untouched", S.old["cell"].content == S.old["vec"])]


# ---------------------------------------------------------------------------- State.hosts (assumed, bounded-validated)

@loop_contract
class StateHostsLoop(LoopContract):
    """State.hosts: the list built so far is [(address_j, HostVector(view of row j)) for j < k] (probe-based
    invariant: the symbolic list is queried at an arbitrary index)"""
    qualname = "nasim.envs.state.State.hosts"
    ordinal = 0
    tags = ("C08",)

    def snapshot(self, I, fr, seq):
        return {"cell": tensor_of(fr.locals["self"]), "T": tensor_of(fr.locals["self"]).content}

    def _canon(self, I, fr, entry, k):
        sig = I.ext_state["sig"]
        hv = I.repo.cls(HVQ)
        cell = entry["cell"]
        return SymSeq(k, lambda j: (sig.addr(j), Obj(hv, {"vector": NpArr(cell, ival(j))}, fresh=True)), "hosts",
                      mutable=True)

    def havoc(self, I, fr, entry, seq):
        k = I.ctx.fresh("hosts_len", z3.IntSort())
        entry["k"] = k
        fr.locals["hosts"] = self._canon(I, fr, entry, k)
        fr.locals.pop("host_addr", None)

    def inv(self, I, fr, entry, seq, k):
        sig = I.ext_state["sig"]
        h = fr.locals["hosts"]
        if isinstance(h, PyList):
            return [("list-prefix", z3.BoolVal(not h.items))]
        j = I.ctx.fresh("hosts_probe", z3.IntSort())
        el = h.elem(j)
        ok = isinstance(el, tuple) and len(el) == 2 and isinstance(el[1], Obj) and el[1].cls.name == "HostVector" \
            and isinstance(el[1].fields.get("vector"), NpArr) and el[1].fields["vector"].cell is entry["cell"]
        if not ok:
            return [("list-prefix", z3.BoolVal(False))]
        a = el[0]
        return [("list-prefix", z3.And(ival(h.n) == k, z3.Implies(z3.And(0 <= j, j < k), z3.And(
            ival(a[0]) == sig.asub(j), ival(a[1]) == sig.ahid(j), el[1].fields["vector"].row == j)))),
            ("state-untouched", entry["cell"].content == entry["T"])]


@contract
class StateHosts(Contract):
    """State.hosts: proved with the loop invariant above; at call sites the result is the canonical list
    [(address_j, HostVector(view of row j))] in address order"""
    qualname = "nasim.envs.state.State.hosts"
    bounded = False
    tags = {"": ("C08",)}

    def setup(self, I, variant):
        sig, T, st, net, a = dyn_setup(I, None)
        S = Scope(sig=sig)
        S.a = {"self": st}
        S.call_args = ([st], {})
        return S

    def bind(self, I, fi, args, kwargs):
        S = super().bind(I, fi, args, kwargs)
        S.sig = I.ext_state["sig"]
        return S

    def snapshot(self, I, S):
        S.old["cell"] = tensor_of(S.a["self"])
        S.old["T"] = tensor_of(S.a["self"]).content

    def ensures(self, I, S):
        if getattr(S, "callsite", False):
            return []
        sig = S.sig
        h = S.result
        if isinstance(h, PyList) and not sig.symbolic:
            # concrete-structured mode: the list itself, entry by entry
            cs = [z3.BoolVal(len(h.items) == sig.N)]
            for i, el in enumerate(h.items[:sig.N]):
                okc = isinstance(el, tuple) and len(el) == 2 and isinstance(el[1], Obj) and \
                    isinstance(el[1].fields.get("vector"), NpArr) and el[1].fields["vector"].cell is S.old["cell"] and \
                    isinstance(el[0], tuple) and len(el[0]) == 2
                if not okc:
                    return [("C08.hosts-list", z3.BoolVal(False))]
                cs.append(z3.And(ival(el[0][0]) == sig.addrs[i][0], ival(el[0][1]) == sig.addrs[i][1],
                                 ival(el[1].fields["vector"].row) == i))
            return [("C08.hosts-list", z3.And(*cs))]
        if not isinstance(h, SymSeq):
            return [("C08.hosts-list", z3.BoolVal(False))]
        j = z3.Int("hosts_j")
        el = h.elem(j)
        ok = isinstance(el, tuple) and len(el) == 2 and isinstance(el[1], Obj) and \
            isinstance(el[1].fields.get("vector"), NpArr) and el[1].fields["vector"].cell is S.old["cell"]
        if not ok:
            return [("C08.hosts-list", z3.BoolVal(False))]
        a = el[0]
        return [("C08.hosts-list", z3.And(ival(h.n) == ival(sig.N), z3.Implies(z3.And(0 <= j, j < ival(sig.N)), z3.And(
            ival(a[0]) == sig.asub(j), ival(a[1]) == sig.ahid(j), el[1].fields["vector"].row == j))))]

    def frame(self, I, S):
        return [("C08.state-untouched", S.old["cell"].content == S.old["T"])]

    def havoc(self, I, S):
        sig = S.sig
        st = S.a["self"]
        arr = st.fields["tensor"]
        hv = I.repo.cls(HVQ)
        if not sig.symbolic:
            return PyList([(ad, Obj(hv, {"vector": NpArr(arr.cell, z3.IntVal(i))}, fresh=True))
                           for i, ad in enumerate(sig.addrs)])
        return SymSeq(sig.N, lambda j: (sig.addr(j), Obj(hv, {"vector": NpArr(arr.cell, ival(j))}, fresh=True)),
                      "state.hosts")


# ---------------------------------------------------------------------------- get_observation

def entitled(sig, a, T, succ, fully, disc_of, newly_of, r, c):
    """C08 (statement + class documentation): may cell (r, c) of the observation show the true value?"""
    L = sig.layout()
    t = sig.hnum(a.tsub, a.thid)
    addr = z3.And(0 <= c, c < L.comp)
    base = z3.Or(addr, c == L.reach, c == L.disc)
    os_b = z3.And(L.os0 <= c, c < L.srv0)
    srv_b = z3.And(L.srv0 <= c, c < L.proc0)
    proc_b = z3.And(L.proc0 <= c, c < L.W)
    F = z3.BoolVal(False)
    if a.kind == "NoOp":
        part = F
    else:
        k = a.kind
        tgt = {"Exploit": z3.Or(base, c == L.comp, srv_b, os_b, c == L.access, c == L.value),
               "PrivilegeEscalation": z3.Or(base, c == L.comp, c == L.access),
               "ServiceScan": z3.Or(base, srv_b), "OSScan": z3.Or(base, os_b),
               "ProcessScan": z3.Or(base, proc_b, c == L.access),
               "SubnetScan": z3.Or(base, c == L.comp)}[k]
        if k == "SubnetScan":
            other = z3.And(disc_of(r), z3.Or(base, z3.And(c == L.dvalue, newly_of(r))))
            part = z3.If(r == t, tgt, other)
        else:
            part = z3.And(r == t, tgt)
        part = z3.And(succ, part)
    return z3.Or(fully, part)


@contract
class GetObservation(GetObservationModel):
    qualname = "nasim.envs.state.State.get_observation"
    verify = True
    tags = {"": ("C08", "C09", "C12", "C13", "C19"), "C10": ("C10",)}

    def variants(self):
        return list(V.KINDS)

    def concretize(self, I, S):
        from . import dyn_cex
        return dyn_cex.make_obs(I, S)

    def setup(self, I, variant):
        sig, T, st, net, a = dyn_setup(I, variant)
        arcls = I.repo.cls("nasim.envs.action.ActionResult")
        succ = z3.Bool("r_success")
        f = {"success": SymV(succ, "bool"), "value": SymV(z3.Real("r_value"), "real"),
             "connection_error": SymV(z3.Bool("r_conn"), "bool"), "permission_error": SymV(z3.Bool("r_perm"), "bool"),
             "undefined_error": SymV(z3.Bool("r_undef"), "bool")}
        for k in ("services", "os", "processes"):
            f[k] = AbsVal(z3.Const("r_" + k, DictSort), "dict")
        # ActionResult.access: the code stores a scalar access level here (action.access / host.access), or {} by default
        f["access"] = SymV(z3.Real("r_access"), "real")
        dis = z3.Function("r_disc", I_, B_)
        new = z3.Function("r_newly", I_, B_)
        if variant == "SubnetScan":
            if sig.symbolic:
                dd = z3.Const("r_disc_dom", z3.ArraySort(I_, I_, B_))
                dv = z3.Const("r_disc_val", z3.ArraySort(I_, I_, B_))
                nd = z3.Const("r_new_dom", z3.ArraySort(I_, I_, B_))
                nv = z3.Const("r_new_val", z3.ArraySort(I_, I_, B_))
                f["discovered"] = SDict(2, "bool", dd, dv, keyseq=sig.addr_seq(), fresh=False, label="discovered")
                f["newly_discovered"] = SDict(2, "bool", nd, nv, keyseq=sig.addr_seq(), fresh=False, label="newly")
                j = sig.qvar("rd")
                s_, h_ = sig.asub(j), sig.ahid(j)
                # shape of the dicts as _perform_subnet_scan's contract guarantees it
                I.ctx.assume(z3.ForAll([j], z3.Implies(z3.And(0 <= j, j < sig.N), z3.And(
                    z3.Select(dd, s_, h_), z3.Select(nd, s_, h_), z3.Select(dv, s_, h_) == dis(j),
                    z3.Select(nv, s_, h_) == new(j)))))
            else:
                f["discovered"] = PyDict({ad: SymV(dis(z3.IntVal(i)), "bool") for i, ad in enumerate(sig.addrs)}, fresh=False)
                f["newly_discovered"] = PyDict({ad: SymV(new(z3.IntVal(i)), "bool") for i, ad in enumerate(sig.addrs)}, fresh=False)
        else:
            f["discovered"] = PyDict({}, fresh=False)
            f["newly_discovered"] = PyDict({}, fresh=False)
        res = Obj(arcls, f, fresh=False, label="action_result")
        fully = z3.Bool("fully_obs")
        S = Scope(sig=sig, act=a)
        S.extra.update(dis=dis, new=new, fully=fully, succ=succ, res=res)
        S.a = {"self": st, "action": a.obj(I), "action_result": res}
        S.call_args = ([st, S.a["action"], res, SymV(fully, "bool")], {})
        return S

    def snapshot(self, I, S):
        S.old["T"] = tensor_of(S.a["self"]).content
        S.old["cell"] = tensor_of(S.a["self"])

    def ensures(self, I, S):
        if getattr(S, "callsite", False):
            return []          # callers only rely on freshness and on the frame (content: C08, here)
        sig, a = S.sig, S.act
        L = sig.layout()
        T = S.old["T"]
        obs = S.result
        ok = isinstance(obs, Obj) and obs.cls.name == "Observation"
        out = [("C08.returns-observation", z3.BoolVal(ok))]
        if not ok:
            return out
        oc = obs.fields["tensor"].cell
        O = oc.content
        N = ival(sig.N)
        r, c = sig.qvar("or"), sig.qvar("oc")
        ent = entitled(sig, a, T, S.extra["succ"], S.extra["fully"], lambda j: S.extra["dis"](j),
                       lambda j: S.extra["new"](j), r, c)
        out.append(("C08.cells", z3.ForAll([r, c], z3.Implies(
            z3.And(0 <= r, r < N, 0 <= c, c < L.W),
            z3.Select(z3.Select(O, r), c) == z3.If(ent, z3.Select(z3.Select(T, r), c), z3.RealVal(0))))))
        f = S.extra["res"].fields
        b = lambda t: z3.If(bval(t), z3.RealVal(1), z3.RealVal(0))
        aux = z3.Select(O, N)
        c2 = sig.qvar("ac")
        out.append(("C08.aux-row", z3.And(
            z3.Select(aux, 0) == b(f["success"]), z3.Select(aux, 1) == b(f["connection_error"]),
            z3.Select(aux, 2) == b(f["permission_error"]), z3.Select(aux, 3) == b(f["undefined_error"]),
            z3.ForAll([c2], z3.Implies(z3.And(4 <= c2, c2 < L.W), z3.Select(aux, c2) == 0)))))
        shp = obs.fields.get("obs_shape")
        out.append(("C09.obs-shape", z3.And(ival(shp[0]) == N + 1, ival(shp[1]) == L.W,
                                            ival(obs.fields["aux_row"]) == N, ival(oc.shape[0]) == N + 1,
                                            ival(oc.shape[1]) == L.W) if isinstance(shp, tuple) else z3.BoolVal(False)))
        out.append(("C08.fresh-observation", z3.BoolVal(oc.fresh and oc is not S.old["cell"])))
        out.append(("C10.observation-is-float32", z3.BoolVal(oc.dtype == "float32")))
        return out

    def frame(self, I, S):
        return [("C08.state-untouched", S.old["cell"].content == S.old["T"])]


@loop_contract
class GetObservationScanLoop(LoopContract):
    qualname = "nasim.envs.state.State.get_observation"
    ordinal = 0
    tags = ("C08",)

    def snapshot(self, I, fr, seq):
        obs = fr.locals["obs"]
        return {"ocell": obs.fields["tensor"].cell, "O0": obs.fields["tensor"].cell.content,
                "T": tensor_of(fr.locals["self"]).content, "tcell": tensor_of(fr.locals["self"])}

    def havoc(self, I, fr, entry, seq):
        entry["ocell"].content = I.ctx.fresh("O_loop", A2)
        for v in ("host_addr", "discovered", "d_idx", "d_host", "newly_discovered", "d_obs"):
            fr.locals.pop(v, None)

    def inv(self, I, fr, entry, seq, k):
        sig = I.ext_state["sig"]
        L = sig.layout()
        res = fr.locals["action_result"]
        d, nd = res.fields["discovered"], res.fields["newly_discovered"]
        O, O0, T = entry["ocell"].content, entry["O0"], entry["T"]
        r, c = sig.qvar("lr"), sig.qvar("lc")
        s_, h_ = sig.asub(r), sig.ahid(r)
        disr = z3.Select(d.val, s_, h_)
        newr = z3.Select(nd.val, s_, h_)
        base = z3.Or(z3.And(0 <= c, c < L.comp), c == L.reach, c == L.disc)
        shown = z3.Or(base, z3.And(c == L.dvalue, newr))
        row_done = z3.And(0 <= r, r < k, disr)
        return [("rows", z3.ForAll([r, c], z3.Implies(z3.And(0 <= c, c < L.W, 0 <= r, r < ival(sig.N)),
                                                     z3.Select(z3.Select(O, r), c) == z3.If(
                                                         row_done, z3.If(shown, z3.Select(z3.Select(T, r), c), z3.RealVal(0)),
                                                         z3.Select(z3.Select(O0, r), c))))),
                ("aux-row-kept", z3.Select(O, ival(sig.N)) == z3.Select(O0, ival(sig.N))),
                ("state-untouched", entry["tcell"].content == T)]


# ---------------------------------------------------------------------------- get_initial_observation

@contract
class GetInitialObservation(GetObservationModel):
    qualname = "nasim.envs.state.State.get_initial_observation"
    verify = True
    tags = {"": ("C08", "C09", "C13", "C19", "C04"), "C10": ("C10",)}

    def setup(self, I, variant):
        sig, T, st, net, a = dyn_setup(I, None)
        fully = z3.Bool("fully_obs")
        S = Scope(sig=sig)
        S.extra["fully"] = fully
        S.a = {"self": st}
        S.call_args = ([st, SymV(fully, "bool")], {})
        return S

    def snapshot(self, I, S):
        S.old["T"] = tensor_of(S.a["self"]).content
        S.old["cell"] = tensor_of(S.a["self"])

    def ensures(self, I, S):
        if getattr(S, "callsite", False):
            return []
        sig = S.sig
        L = sig.layout()
        T = S.old["T"]
        obs = S.result
        ok = isinstance(obs, Obj) and obs.cls.name == "Observation"
        out = [("C08.returns-observation", z3.BoolVal(ok))]
        if not ok:
            return out
        O = obs.fields["tensor"].cell.content
        N = ival(sig.N)
        r, c = sig.qvar("ir"), sig.qvar("ic")
        v = V.View(sig, T)
        base = z3.Or(z3.And(0 <= c, c < L.comp), c == L.reach, c == L.disc)
        shown = z3.Or(S.extra["fully"], z3.And(v.reach(r), base))
        out.append(("C08.initial", z3.ForAll([r, c], z3.Implies(
            z3.And(0 <= r, r < N, 0 <= c, c < L.W),
            z3.Select(z3.Select(O, r), c) == z3.If(shown, z3.Select(z3.Select(T, r), c), z3.RealVal(0))))))
        c2 = sig.qvar("ia")
        out.append(("C08.initial-aux-row-zero", z3.ForAll([c2], z3.Implies(z3.And(0 <= c2, c2 < L.W),
                                                                           z3.Select(z3.Select(O, N), c2) == 0))))
        out.append(("C10.observation-is-float32", z3.BoolVal(obs.fields["tensor"].cell.dtype == "float32")))
        return out

    def frame(self, I, S):
        return [("C08.state-untouched", S.old["cell"].content == S.old["T"])]


@loop_contract
class GetInitialObservationLoop(LoopContract):
    qualname = "nasim.envs.state.State.get_initial_observation"
    ordinal = 0
    tags = ("C08",)

    def snapshot(self, I, fr, seq):
        obs = fr.locals["obs"]
        return {"ocell": obs.fields["tensor"].cell, "O0": obs.fields["tensor"].cell.content,
                "T": tensor_of(fr.locals["self"]).content, "tcell": tensor_of(fr.locals["self"])}

    def havoc(self, I, fr, entry, seq):
        entry["ocell"].content = I.ctx.fresh("O_init", A2)
        for v in ("host_addr", "host", "host_obs", "host_idx"):
            fr.locals.pop(v, None)

    def inv(self, I, fr, entry, seq, k):
        sig = I.ext_state["sig"]
        L = sig.layout()
        O, O0, T = entry["ocell"].content, entry["O0"], entry["T"]
        v = V.View(sig, T)
        r, c = sig.qvar("ir"), sig.qvar("ic")
        base = z3.Or(z3.And(0 <= c, c < L.comp), c == L.reach, c == L.disc)
        return [("rows", z3.ForAll([r, c], z3.Implies(z3.And(0 <= c, c < L.W, 0 <= r, r < ival(sig.N)),
                                                     z3.Select(z3.Select(O, r), c) == z3.If(
                                                         z3.And(r < k, v.reach(r)),
                                                         z3.If(base, z3.Select(z3.Select(T, r), c), z3.RealVal(0)),
                                                         z3.Select(z3.Select(O0, r), c))))),
                ("aux-row-kept", z3.Select(O, ival(sig.N)) == z3.Select(O0, ival(sig.N))),
                ("state-untouched", entry["tcell"].content == T)]


# ---------------------------------------------------------------------------- array round trips (C09)

def _flat_matches(arr, content2d):
    """arr is the row-major flattening (assumed NumPy contract, ghost `flat_of`) of the 2-D content"""
    fo = getattr(arr.cell, "flat_of", None) if isinstance(arr, NpArr) else None
    if fo is None:
        return z3.BoolVal(False)
    return fo[0] == content2d


class _RoundTrip(Contract):
    callable_by_contract = False
    bounded = False
    tags = {"": ("C09", "C10")}
    cls_q = None

    def variants(self):
        return ["from-2d", "from-flat"]

    def _target(self, I):
        return ClassRef(I.repo.cls(self.cls_q))


@contract
class ObservationFromNumpy(_RoundTrip):
    """Observation.from_numpy followed by numpy() / numpy_flat() gives back the same content (2-D and 1-D input)"""
    qualname = "nasim.envs.observation.Observation.from_numpy"
    cls_q = "nasim.envs.observation.Observation"

    def setup(self, I, variant):
        sig, T, st, net, a = dyn_setup(I, None)
        L = sig.layout()
        N1 = ival(sig.N) + 1
        O = z3.Const("O_src", A2)
        src = NpArr(NpCell(O, (N1, L.W), fresh=False, label="o_array"))
        if variant == "from-flat":
            from pyvc import builtins as B_
            arr = B_._m_flatten(I, src, [], {}, None)
            arr.cell.fresh = False
        else:
            arr = src
        S = Scope(sig=sig)
        S.extra.update(O=O, variant=variant)
        S.a = {"cls": self._target(I)}
        shape = (mk(ival(sig.N), "int"), mk(L.W, "int"))
        S.call_args = ([S.a["cls"], arr, shape], {})
        return S

    def ensures(self, I, S):
        sig = S.sig
        O = S.extra["O"]
        obs = S.result
        ok = isinstance(obs, Obj) and isinstance(obs.fields.get("tensor"), NpArr)
        out = [("C09.from-numpy-returns-observation", z3.BoolVal(ok))]
        if not ok:
            return out
        out.append(("C09.from-numpy-keeps-content", obs.fields["tensor"].content() == O))
        # feed it back out through the public accessors
        two_d = I.call_function(I.find_member(obs.cls, "numpy")[1], [obs], {})
        flat = I.call_function(I.find_member(obs.cls, "numpy_flat")[1], [obs], {})
        out.append(("C09.round-trip-2d", two_d.content() == O if isinstance(two_d, NpArr) else z3.BoolVal(False)))
        out.append(("C09.round-trip-1d-is-row-major-flattening", _flat_matches(flat, O)))
        return out


@contract
class StateFromNumpy(_RoundTrip):
    qualname = "nasim.envs.state.State.from_numpy"
    cls_q = "nasim.envs.state.State"

    def setup(self, I, variant):
        sig, T, st, net, a = dyn_setup(I, None)
        L = sig.layout()
        Tsrc = z3.Const("T_src", A2)
        src = NpArr(NpCell(Tsrc, (ival(sig.N), L.W), fresh=False, label="s_array"))
        if variant == "from-flat":
            from pyvc import builtins as B_
            arr = B_._m_flatten(I, src, [], {}, None)
            arr.cell.fresh = False
        else:
            arr = src
        S = Scope(sig=sig)
        S.extra.update(O=Tsrc)
        S.a = {"cls": self._target(I)}
        shape = (mk(ival(sig.N), "int"), mk(L.W, "int"))
        S.call_args = ([S.a["cls"], arr, shape, sig.host_num_map()], {})
        return S

    def ensures(self, I, S):
        O = S.extra["O"]
        st = S.result
        ok = isinstance(st, Obj) and isinstance(st.fields.get("tensor"), NpArr)
        out = [("C09.from-numpy-returns-state", z3.BoolVal(ok))]
        if not ok:
            return out
        out.append(("C09.from-numpy-keeps-content", st.fields["tensor"].content() == O))
        flat = I.call_function(I.find_member(st.cls, "numpy_flat")[1], [st], {})
        out.append(("C09.round-trip-1d-is-row-major-flattening", _flat_matches(flat, O)))
        return out


@contract
class ObservationNumpyFlat(Contract):
    """the 1-D observation is the row-major flattening of the CURRENT 2-D tensor (also after it was written)"""
    qualname = "nasim.envs.observation.Observation.numpy_flat"
    callable_by_contract = False
    bounded = False
    tags = {"": ("C09", "C10")}

    def setup(self, I, variant):
        sig, T, st, net, a = dyn_setup(I, None)
        obscls = I.repo.cls("nasim.envs.observation.Observation")
        # built by the real constructor, then written to (as get_observation does)
        shape = (mk(ival(sig.N), "int"), mk(sig.layout().W, "int"))
        obs = I.instantiate(obscls, [shape], {})
        host_row = NpArr(NpCell(z3.Const("row_src", A1), (sig.layout().W,), fresh=False))
        I.call_function(I.find_member(obscls, "from_state")[1], [obs, st], {})
        I.call_function(I.find_member(obscls, "update_from_host")[1], [obs, 0, host_row], {})
        V.mark_preexisting(obs)
        I.ctx.writes[:] = []
        S = Scope(sig=sig)
        S.a = {"self": obs}
        S.call_args = ([obs], {})
        return S

    def snapshot(self, I, S):
        S.old["O"] = S.a["self"].fields["tensor"].content()

    def ensures(self, I, S):
        r = S.result
        return [("C09.flat-is-row-major-flattening-of-current-tensor", _flat_matches(r, S.old["O"])),
                ("C10.flat-is-float32", z3.BoolVal(isinstance(r, NpArr) and r.cell.dtype == "float32"))]
