"""contracts for nasim/scenarios/__init__.py (C19 / C14): make_benchmark_scenario, generate_scenario"""
import z3

from pyvc.contract import Contract, Scope, contract
from pyvc.values import SymV, Obj, PyDict, PyList, AbsVal, Opaque, mk, ival

Q = "nasim.scenarios."


@contract
class GenerateMethodModel(Contract):
    """call-site model of ScenarioGenerator.generate, used only inside the verification of generate_scenario (the
    generator itself is covered by C14 / C15 / C16)"""
    qualname = "nasim.scenarios.generator.ScenarioGenerator.generate"
    verify = False
    callable_by_contract = staticmethod(lambda I: bool(I.ext_state.get("model_generator_generate")))
    tags = {"": ("C19", "C14")}

    def bind(self, I, fi, args, kwargs):
        return Scope(a={"args": list(args), "kwargs": dict(kwargs)})

    def havoc(self, I, S):
        I.ext_state["generator_generate_call"] = dict(S.a)
        r = Opaque("scenario returned by ScenarioGenerator.generate")
        I.ext_state["generator_generate_result"] = r
        return r


@contract
class GenerateScenario(Contract):
    """generate_scenario(num_hosts, num_services, **params): a generator object of its own (allocated by this call, no
    process-wide instance), handed exactly the caller's parameters; returns what it generates.  At call sites the
    model below records the parameters."""
    qualname = Q + "generate_scenario"
    bounded = False
    tags = {"": ("C19", "C14", "C15")}

    def setup(self, I, variant):
        I.ext_state["model_generator_generate"] = True
        nh, ns, seed = SymV(z3.Int("arg_num_hosts"), "int"), SymV(z3.Int("arg_num_services"), "int"), SymV(z3.Int("arg_seed"), "int")
        S = Scope()
        S.extra.update(nh=nh, ns=ns, seed=seed, verifying=True)
        S.a = {}
        S.call_args = ([nh, ns], {"seed": seed, "num_os": 3})
        return S

    def bind(self, I, fi, args, kwargs):
        S = Scope(a={"args": list(args), "kwargs": dict(kwargs)})
        return S

    def ensures(self, I, S):
        if getattr(S, "callsite", False):
            return []
        call = I.ext_state.get("generator_generate_call")
        ok = call is not None and len(call["args"]) >= 1 and isinstance(call["args"][0], Obj)
        out = [("C19.generates-with-a-generator", z3.BoolVal(bool(ok)))]
        if not ok:
            return out
        g = call["args"][0]
        out.append(("C19.generator-object-is-its-own", z3.BoolVal(g.cls.name == "ScenarioGenerator" and g.fresh
                                                                 and not getattr(g, "module_level_instance", False))))
        pos, kw = call["args"][1:], call["kwargs"]
        e = S.extra
        out.append(("C14.parameters-handed-through-unchanged", z3.BoolVal(
            len(pos) == 2 and pos[0] is e["nh"] and pos[1] is e["ns"] and set(kw) == {"seed", "num_os"}
            and kw.get("seed") is e["seed"] and kw.get("num_os") == 3)))
        out.append(("C19.returns-the-generated-scenario", z3.BoolVal(S.result is I.ext_state.get("generator_generate_result"))))
        return out

    def havoc(self, I, S):
        I.ext_state["generate_called_with"] = S.a["kwargs"]
        return I.ext_state.get("toplevel_scenario") or Opaque("generated scenario")


@contract
class MakeBenchmarkScenario(Contract):
    qualname = Q + "make_benchmark_scenario"
    callable_by_contract = False
    bounded = False
    tags = {"": ("C19", "C14")}

    def variants(self):
        return ["seed-given/stale-none", "seed-none/stale-int", "seed-given/stale-int"]

    def setup(self, I, variant):
        sv, stale = variant.split("/")
        m = I.repo.module("nasim.scenarios.benchmark.generated")
        reg = I.module_global(m, "AVAIL_GEN_BENCHMARKS")
        params = reg.d["small-gen"]
        # arbitrary earlier calls may have left any seed in the shared module-level parameter dict
        params.d["seed"] = None if stale == "stale-none" else SymV(z3.Int("stale_seed"), "int")
        for d in [reg] + list(reg.d.values()):
            d.fresh = False
        seed = SymV(z3.Int("seed_arg"), "int") if sv == "seed-given" else None
        S = Scope()
        S.extra.update(params=params, seed=seed, reg=reg)
        S.a = {}
        S.call_args = (["small-gen"], {"seed": seed})
        return S

    def modifies(self, I, S):
        return [S.extra["params"]]

    def ensures(self, I, S):
        seed = S.extra["seed"]
        kw = I.ext_state.get("generate_called_with")
        ok = isinstance(kw, dict) and "seed" in kw
        out = [("C19.generator-called", z3.BoolVal(ok))]
        if not ok:
            return out

        def same(a, b):
            if a is None or b is None:
                return z3.BoolVal(a is None and b is None)
            return ival(a) == ival(b)
        # the seed used for generation is the caller's, whatever an earlier call left in the shared dict
        out.append(("C19.seed-is-callers", same(kw["seed"], seed)))
        out.append(("C14.unseeded-call-does-not-reseed", same(kw["seed"], seed)))
        out.append(("C19.no-stale-seed-left", same(S.extra["params"].d.get("seed"), seed)))
        return out


# ---------------------------------------------------------------------------- nasim.make_benchmark / load / generate

@contract
class LoadScenario(Contract):
    """load_scenario(path, name): a loader object of its own (allocated by this call, no process-wide instance) loads
    exactly that file under exactly that name; returns what it loads.  (The loader itself: C17 / C18.)"""
    qualname = Q + "load_scenario"
    bounded = False
    optional_params_modelled = ("name",)
    tags = {"": ("C12", "C10", "C19", "C17", "C06")}

    def variants(self):
        return ["name-given", "name-default"]

    def setup(self, I, variant):
        I.ext_state["model_loader_load"] = True
        S = Scope()
        S.extra.update(variant=variant)
        S.a = {}
        S.call_args = (["some/dir/file.yaml"], {"name": "my-name"} if variant == "name-given" else {})
        return S

    def bind(self, I, fi, args, kwargs):
        return Scope(a={"args": list(args), "kwargs": dict(kwargs)})

    def ensures(self, I, S):
        if getattr(S, "callsite", False):
            return []
        call = I.ext_state.get("loader_load_call")
        ok = call is not None and isinstance(call.get("self"), Obj)
        out = [("C19.loads-with-a-loader", z3.BoolVal(bool(ok)))]
        if not ok:
            return out
        lo = call["self"]
        out.append(("C19.loader-object-is-its-own", z3.BoolVal(lo.cls.name == "ScenarioLoader" and lo.fresh
                                                              and not getattr(lo, "module_level_instance", False))))
        want_name = "my-name" if S.extra["variant"] == "name-given" else None
        out.append(("C17.file-and-name-handed-through", z3.BoolVal(call.get("file_path") == "some/dir/file.yaml"
                                                                  and call.get("name") == want_name)))
        out.append(("C17.returns-the-loaded-scenario", z3.BoolVal(S.result is I.ext_state.get("loader_load_result"))))
        return out

    def havoc(self, I, S):
        return I.ext_state.get("toplevel_scenario") or Opaque("loaded scenario")


class _TopLevel(Contract):
    """the three public constructors hand the mode switches to NASimEnv unchanged: the environment they return is in
    the observability / action / observation mode the caller asked for"""
    callable_by_contract = False
    bounded = False
    global_writes_allowed = ("nasim.envs.host_vector.HostVector",)
    tags = {"": ("C12", "C10", "C19")}
    first_args = ()

    def setup(self, I, variant):
        from . import vocab as V
        from .c_action import sig_setup, inf_setup
        from .c_layout import havoc_class_state
        sig = sig_setup(I)
        inf_setup(I, sig)
        st = havoc_class_state(I)
        st["address_space_bounds"] = (SymV(z3.Int("prevB0"), "int"), SymV(z3.Int("prevB1"), "int"))
        sc = sig.scenario_obj(I)
        I.ext_state["toplevel_scenario"] = sc
        m = I.repo.module("nasim.scenarios.benchmark.generated")
        reg = I.module_global(m, "AVAIL_GEN_BENCHMARKS")
        for d in [reg] + list(reg.d.values()):
            d.fresh = False
        modes = {k: SymV(z3.Bool("arg_" + k), "bool") for k in ("fully_obs", "flat_actions", "flat_obs")}
        S = Scope(sig=sig)
        S.extra.update(modes=modes, scenario=sc, reg=reg)
        S.a = {}
        S.call_args = (list(self.first_args), dict(modes))
        return S

    def modifies(self, I, S):
        return list(S.extra["reg"].d.values())

    def ensures(self, I, S):
        from pyvc.values import bval
        env = S.result
        ok = isinstance(env, Obj) and env.cls.name in ("NASimEnv", "NASimGymEnv")
        out = [("C12.returns-environment", z3.BoolVal(ok))]
        if not ok:
            return out
        f = env.fields

        def same(a, b):
            if isinstance(a, bool) or a is None:
                return z3.BoolVal(False)
            return bval(a) == bval(b)
        out.append(("C12.mode-flags-are-the-callers", z3.And(*[same(f.get(k), v) for k, v in S.extra["modes"].items()])))
        out.append(("C12.environment-of-that-scenario", z3.BoolVal(f.get("scenario") is S.extra["scenario"])))
        sp = f.get("action_space")
        kind = sp.cls.name if isinstance(sp, Obj) else None
        fa = bval(S.extra["modes"]["flat_actions"])
        out.append(("C10.action-space-kind", z3.BoolVal(False) if kind not in ("FlatActionSpace", "ParameterisedActionSpace")
                    else (fa if kind == "FlatActionSpace" else z3.Not(fa))))
        return out


@contract
class TopMakeBenchmark(_TopLevel):
    qualname = "nasim.make_benchmark"
    first_args = ("small-gen",)


@contract
class TopLoad(_TopLevel):
    qualname = "nasim.load"
    first_args = ("some/path.yaml",)


@contract
class TopGenerate(_TopLevel):
    qualname = "nasim.generate"
    first_args = (8, 3)
