"""contracts for nasim/scenarios/__init__.py (C19 / C14): make_benchmark_scenario, generate_scenario"""
import z3

from pyvc.contract import Contract, Scope, contract
from pyvc.values import SymV, Obj, PyDict, PyList, AbsVal, Opaque, mk, ival

Q = "nasim.scenarios."


@contract
class GenerateScenarioModel(Contract):
    """call-site model of generate_scenario(**params): records the parameters it was called with; the generator
    itself is covered by C14/C15/C16"""
    qualname = Q + "generate_scenario"
    verify = False
    tags = {"": ("C19", "C14")}

    def bind(self, I, fi, args, kwargs):
        S = Scope(a={"args": list(args), "kwargs": dict(kwargs)})
        return S

    def havoc(self, I, S):
        I.ext_state["generate_called_with"] = S.a["kwargs"]
        return I.ext_state.get("toplevel_scenario") or Opaque("generated scenario")


@contract
class MakeBenchmarkScenario(Contract):
    qualname = Q + "make_benchmark_scenario"
    callable_by_contract = False
    bounded = False
    tags = {"": ("C19", "C14")}

    def variants(self):
        return ["seed-given/stale-none", "seed-none/stale-int", "seed-given/stale-int"]

    def setup(self, I, variant):
        sv, stale = variant.split("/")
        m = I.repo.module("nasim.scenarios.benchmark.generated")
        reg = I.module_global(m, "AVAIL_GEN_BENCHMARKS")
        params = reg.d["small-gen"]
        # arbitrary earlier calls may have left any seed in the shared module-level parameter dict
        params.d["seed"] = None if stale == "stale-none" else SymV(z3.Int("stale_seed"), "int")
        for d in [reg] + list(reg.d.values()):
            d.fresh = False
        seed = SymV(z3.Int("seed_arg"), "int") if sv == "seed-given" else None
        S = Scope()
        S.extra.update(params=params, seed=seed, reg=reg)
        S.a = {}
        S.call_args = (["small-gen"], {"seed": seed})
        return S

    def modifies(self, I, S):
        return [S.extra["params"]]

    def ensures(self, I, S):
        seed = S.extra["seed"]
        kw = I.ext_state.get("generate_called_with")
        ok = isinstance(kw, dict) and "seed" in kw
        out = [("C19.generator-called", z3.BoolVal(ok))]
        if not ok:
            return out

        def same(a, b):
            if a is None or b is None:
                return z3.BoolVal(a is None and b is None)
            return ival(a) == ival(b)
        # the seed used for generation is the caller's, whatever an earlier call left in the shared dict
        out.append(("C19.seed-is-callers", same(kw["seed"], seed)))
        out.append(("C14.unseeded-call-does-not-reseed", same(kw["seed"], seed)))
        out.append(("C19.no-stale-seed-left", same(S.extra["params"].d.get("seed"), seed)))
        return out


# ---------------------------------------------------------------------------- nasim.make_benchmark / load / generate

@contract
class LoadScenarioModel(Contract):
    """call-site model of load_scenario(path, name): some scenario (the loader itself is covered by C17 / C18)"""
    qualname = Q + "load_scenario"
    verify = False
    tags = {"": ("C12", "C10")}

    def bind(self, I, fi, args, kwargs):
        return Scope(a={"args": list(args), "kwargs": dict(kwargs)})

    def havoc(self, I, S):
        return I.ext_state.get("toplevel_scenario") or Opaque("loaded scenario")


class _TopLevel(Contract):
    """the three public constructors hand the mode switches to NASimEnv unchanged: the environment they return is in
    the observability / action / observation mode the caller asked for"""
    callable_by_contract = False
    bounded = False
    global_writes_allowed = ("nasim.envs.host_vector.HostVector",)
    tags = {"": ("C12", "C10", "C19")}
    first_args = ()

    def setup(self, I, variant):
        from . import vocab as V
        from .c_action import sig_setup, inf_setup
        from .c_layout import havoc_class_state
        sig = sig_setup(I)
        inf_setup(I, sig)
        st = havoc_class_state(I)
        st["address_space_bounds"] = (SymV(z3.Int("prevB0"), "int"), SymV(z3.Int("prevB1"), "int"))
        sc = sig.scenario_obj(I)
        I.ext_state["toplevel_scenario"] = sc
        m = I.repo.module("nasim.scenarios.benchmark.generated")
        reg = I.module_global(m, "AVAIL_GEN_BENCHMARKS")
        for d in [reg] + list(reg.d.values()):
            d.fresh = False
        modes = {k: SymV(z3.Bool("arg_" + k), "bool") for k in ("fully_obs", "flat_actions", "flat_obs")}
        S = Scope(sig=sig)
        S.extra.update(modes=modes, scenario=sc, reg=reg)
        S.a = {}
        S.call_args = (list(self.first_args), dict(modes))
        return S

    def modifies(self, I, S):
        return list(S.extra["reg"].d.values())

    def ensures(self, I, S):
        from pyvc.values import bval
        env = S.result
        ok = isinstance(env, Obj) and env.cls.name in ("NASimEnv", "NASimGymEnv")
        out = [("C12.returns-environment", z3.BoolVal(ok))]
        if not ok:
            return out
        f = env.fields

        def same(a, b):
            if isinstance(a, bool) or a is None:
                return z3.BoolVal(False)
            return bval(a) == bval(b)
        out.append(("C12.mode-flags-are-the-callers", z3.And(*[same(f.get(k), v) for k, v in S.extra["modes"].items()])))
        out.append(("C12.environment-of-that-scenario", z3.BoolVal(f.get("scenario") is S.extra["scenario"])))
        sp = f.get("action_space")
        kind = sp.cls.name if isinstance(sp, Obj) else None
        fa = bval(S.extra["modes"]["flat_actions"])
        out.append(("C10.action-space-kind", z3.BoolVal(False) if kind not in ("FlatActionSpace", "ParameterisedActionSpace")
                    else (fa if kind == "FlatActionSpace" else z3.Not(fa))))
        return out


@contract
class TopMakeBenchmark(_TopLevel):
    qualname = "nasim.make_benchmark"
    first_args = ("small-gen",)


@contract
class TopLoad(_TopLevel):
    qualname = "nasim.load"
    first_args = ("some/path.yaml",)


@contract
class TopGenerate(_TopLevel):
    qualname = "nasim.generate"
    first_args = (8, 3)
