"""contracts for nasim/scenarios/__init__.py (C19 / C14): make_benchmark_scenario, generate_scenario"""
import z3

from pyvc.contract import Contract, Scope, contract
from pyvc.values import SymV, Obj, PyDict, PyList, AbsVal, Opaque, mk, ival

Q = "nasim.scenarios."


@contract
class GenerateScenarioModel(Contract):
    """call-site model of generate_scenario(**params): records the parameters it was called with; the generator
    itself is covered by C14/C15/C16"""
    qualname = Q + "generate_scenario"
    verify = False
    tags = {"": ("C19", "C14")}

    def bind(self, I, fi, args, kwargs):
        S = Scope(a={"args": list(args), "kwargs": dict(kwargs)})
        return S

    def havoc(self, I, S):
        I.ext_state["generate_called_with"] = S.a["kwargs"]
        return Opaque("generated scenario")


@contract
class MakeBenchmarkScenario(Contract):
    qualname = Q + "make_benchmark_scenario"
    callable_by_contract = False
    bounded = False
    tags = {"": ("C19", "C14")}

    def variants(self):
        return ["seed-given/stale-none", "seed-none/stale-int", "seed-given/stale-int"]

    def setup(self, I, variant):
        sv, stale = variant.split("/")
        m = I.repo.module("nasim.scenarios.benchmark.generated")
        reg = I.module_global(m, "AVAIL_GEN_BENCHMARKS")
        params = reg.d["small-gen"]
        # arbitrary earlier calls may have left any seed in the shared module-level parameter dict
        params.d["seed"] = None if stale == "stale-none" else SymV(z3.Int("stale_seed"), "int")
        for d in [reg] + list(reg.d.values()):
            d.fresh = False
        seed = SymV(z3.Int("seed_arg"), "int") if sv == "seed-given" else None
        S = Scope()
        S.extra.update(params=params, seed=seed, reg=reg)
        S.a = {}
        S.call_args = (["small-gen"], {"seed": seed})
        return S

    def modifies(self, I, S):
        return [S.extra["params"]]

    def ensures(self, I, S):
        seed = S.extra["seed"]
        kw = I.ext_state.get("generate_called_with")
        ok = isinstance(kw, dict) and "seed" in kw
        out = [("C19.generator-called", z3.BoolVal(ok))]
        if not ok:
            return out

        def same(a, b):
            if a is None or b is None:
                return z3.BoolVal(a is None and b is None)
            return ival(a) == ival(b)
        # the seed used for generation is the caller's, whatever an earlier call left in the shared dict
        out.append(("C19.seed-is-callers", same(kw["seed"], seed)))
        out.append(("C14.unseeded-call-does-not-reseed", same(kw["seed"], seed)))
        out.append(("C19.no-stale-seed-left", same(S.extra["params"].d.get("seed"), seed)))
        return out
