"""contracts for nasim/envs/network.py"""
import z3

from pyvc.contract import Contract, LoopContract, Scope, contract, loop_contract
from pyvc.values import (SymV, Obj, NpCell, NpArr, AbsVal, SDict, SymSeq, PyDict, mk, ival, rval, bval, nameval,
                         NONE_ID, A1, A2)
from . import vocab as V
from .c_host_vector import hv_spec, result_fields, DictSort, EMPTY_DICT

I_, R_, B_ = z3.IntSort(), z3.RealSort(), z3.BoolSort()

# opaque specification predicates (definitions are revealed only where needed)
HRP = {k: z3.Function("HRP_" + k, A2, I_, I_, I_, B_) for k in V.KINDS}      # (T, tsub, req, srv)
TP = z3.Function("TP", A2, I_, I_, I_, B_)                                    # (T, hsub, hhid, srv)
GOAL = z3.Function("GOAL", A2, B_)
PSUM = z3.Function("psum", A2, I_, I_, R_)                                    # (T0, tsub, k) partial discovery sum


def subnet_ok(sig, a, b, srv):
    """subnet-firewall layer (statement of C02): same subnet, or connected and service allowed"""
    return z3.Or(a == b, z3.And(sig.connected(a, b), sig.allow(a, b, srv)))


def hrp_def(sig, a, T):
    """definition of HRP: target subnet public, or some compromised host with the required access is
    positioned as the action kind demands"""
    v = V.View(sig, T)

    def q(c):
        conds = [v.comp(c), v.acc(c) >= z3.ToReal(a.req)]
        if a.is_scan:
            conds.append(sig.connected(sig.asub_t(c), a.tsub))
        if a.is_exploit:
            conds.append(subnet_ok(sig, sig.asub_t(c), a.tsub, a.srv))
        return z3.And(*conds)
    return z3.Or(sig.public(a.tsub), sig.exists_hosts(q, "piv"))


def host_denies(sig, hs, hh, c, srv):
    cs, ch = sig.asub_t(c), sig.ahid_t(c)
    return z3.And(sig.hfwdom(hs, hh, cs, ch), sig.deny(hs, hh, cs, ch, srv))


def tp_def_code(sig, T, hs, hh, srv):
    """what Network.traffic_permitted computes (helper contract, derived from the code)"""
    v = V.View(sig, T)
    internet = z3.And(sig.public(hs), sig.allow(z3.IntVal(0), hs, srv))
    return z3.Or(internet, sig.exists_hosts(lambda c: z3.And(
        v.comp(c), subnet_ok(sig, sig.asub_t(c), hs, srv), z3.Not(host_denies(sig, hs, hh, c, srv))), "src"))


def traffic_ok_stmt(sig, T, hs, hh, srv):
    """C02, from the statement: from some attacker-controlled position - the internet for a public
    subnet, or a compromised host - the service is allowed by the subnet firewall rule in that
    direction (same subnet: always) and not denied for that source by the target's host firewall."""
    v = V.View(sig, T)
    internet = z3.And(sig.public(hs), sig.allow(z3.IntVal(0), hs, srv))
    pivot = sig.exists_hosts(lambda c: z3.And(v.comp(c), subnet_ok(sig, sig.asub_t(c), hs, srv),
                                              z3.Not(host_denies(sig, hs, hh, c, srv))), "src")
    return z3.Or(internet, pivot)


def goal_def(sig, T):
    v = V.View(sig, T)
    return sig.forall_range(sig.nSens, lambda j: v.acc(sig.hnum(sig.ssub(ival(j)), sig.shid(ival(j)))) >= 2, "sj")


# ---------------------------------------------------------------------------- common harness

def dyn_setup(I, kind=None, with_layout=True):
    sig = V.Sigma(concrete=I.ext_state.get("concrete"))
    for ax in sig.wfs():
        I.ctx.assume(ax)
    sig.install_layout(I)
    I.ext_state["sig"] = sig
    T = z3.Const("T", A2)
    I.ctx.assume(V.WF(sig, T))
    st = V.state_obj(I, sig, T, fresh=False, label="state")
    net = sig.network_obj(I)
    a = None
    if kind is not None:
        a = V.ActRec(kind)
        for t in a.wfa(sig):
            I.ctx.assume(t)
        I.ext_state["act"] = a
    return sig, T, st, net, a


def tensor_of(state_obj):
    return state_obj.fields["tensor"].cell


# ---------------------------------------------------------------------------- has_required_remote_permission

@contract
class HasReqRemotePerm(Contract):
    qualname = "nasim.envs.network.Network.has_required_remote_permission"
    tags = {"": ("C02", "C01", "C07", "C12", "C14", "C17")}

    def variants(self):
        return list(V.KINDS)

    def concretize(self, I, S):
        from . import dyn_cex
        return dyn_cex.make("net_hrp", I, S)

    def setup(self, I, variant):
        sig, T, st, net, a = dyn_setup(I, variant)
        S = Scope(sig=sig, act=a)
        S.a = {"self": net, "state": st, "action": a.obj(I)}
        S.call_args = ([net, st, S.a["action"]], {})
        # reveal the definition of the opaque predicate for this instance
        I.ctx.assume(HRP[a.kind](T, a.tsub, a.req, a.srv) == hrp_def(sig, a, T))
        return S

    def bind(self, I, fi, args, kwargs):
        S = super().bind(I, fi, args, kwargs)
        S.sig = I.ext_state["sig"]
        S.act = I.ext_state["act"]
        return S

    def snapshot(self, I, S):
        S.old["T"] = tensor_of(S.a["state"]).content

    def ensures(self, I, S):
        a = S.act
        return [("C02.pivot", bval(S.result) == HRP[a.kind](S.old["T"], a.tsub, a.req, a.srv))]

    def frame(self, I, S):
        return [("state-untouched", tensor_of(S.a["state"]).content == S.old["T"])]

    def havoc(self, I, S):
        return SymV(I.ctx.fresh("hrp", B_), "bool")


@loop_contract
class HasReqRemotePermLoop(LoopContract):
    qualname = "nasim.envs.network.Network.has_required_remote_permission"
    ordinal = 0
    tags = ("C02",)

    def snapshot(self, I, fr, seq):
        return {"T": tensor_of(fr.locals["state"]).content}

    def havoc(self, I, fr, entry, seq):
        pass

    def inv(self, I, fr, entry, seq, k):
        sig, a = I.ext_state["sig"], I.ext_state["act"]
        T = entry["T"]
        v = V.View(sig, T)
        j = sig.qvar("e")
        conds = [v.comp(j), v.acc(j) >= z3.ToReal(a.req)]
        if a.is_scan:
            conds.append(sig.connected(sig.asub(j), a.tsub))
        if a.is_exploit:
            conds.append(subnet_ok(sig, sig.asub(j), a.tsub, a.srv))
        return [("no-earlier-pivot", z3.ForAll([j], z3.Implies(z3.And(0 <= j, j < k), z3.Not(z3.And(*conds))))),
                ("state-untouched", tensor_of(fr.locals["state"]).content == T)]


# ---------------------------------------------------------------------------- traffic_permitted

@contract
class TrafficPermitted(Contract):
    qualname = "nasim.envs.network.Network.traffic_permitted"
    tags = {"": ("C02", "C01", "C07", "C12", "C14", "C17")}

    def concretize(self, I, S):
        from . import dyn_cex
        return dyn_cex.make("net_tp", I, S, extra={"host_addr": lambda m: [dyn_cex.mev(m, ival(S.a["host_addr"][0])), dyn_cex.mev(m, ival(S.a["host_addr"][1]))], "service": lambda m: dyn_cex.mev(m, nameval(S.a["service"]))})

    def setup(self, I, variant):
        sig, T, st, net, _ = dyn_setup(I, None)
        hs, hh, srv = z3.Int("tp_hsub"), z3.Int("tp_hhid"), z3.Int("tp_srv")
        I.ctx.assume(sig.valid_addr(hs, hh))
        I.ctx.assume(z3.And(0 <= srv, srv < sig.nSrv))
        S = Scope(sig=sig)
        addr = (mk(hs, "int"), mk(hh, "int"))
        S.a = {"self": net, "state": st, "host_addr": addr, "service": mk(srv, "name")}
        S.call_args = ([net, st, addr, S.a["service"]], {})
        I.ctx.assume(TP(T, hs, hh, srv) == tp_def_code(sig, T, hs, hh, srv))
        return S

    def bind(self, I, fi, args, kwargs):
        S = super().bind(I, fi, args, kwargs)
        S.sig = I.ext_state["sig"]
        return S

    def snapshot(self, I, S):
        S.old["T"] = tensor_of(S.a["state"]).content

    def ensures(self, I, S):
        hs, hh = S.a["host_addr"]
        return [("spec.traffic", bval(S.result) == TP(S.old["T"], ival(hs), ival(hh), nameval(S.a["service"])))]

    def frame(self, I, S):
        return [("state-untouched", tensor_of(S.a["state"]).content == S.old["T"])]

    def havoc(self, I, S):
        return SymV(I.ctx.fresh("tp", B_), "bool")


@loop_contract
class TrafficPermittedLoop(LoopContract):
    qualname = "nasim.envs.network.Network.traffic_permitted"
    ordinal = 0
    tags = ("C02",)

    def snapshot(self, I, fr, seq):
        return {"T": tensor_of(fr.locals["state"]).content}

    def havoc(self, I, fr, entry, seq):
        pass

    def inv(self, I, fr, entry, seq, k):
        sig = I.ext_state["sig"]
        T = entry["T"]
        v = V.View(sig, T)
        hs, hh = fr.locals["host_addr"]
        hs, hh = ival(hs), ival(hh)
        srv = nameval(fr.locals["service"])
        j = sig.qvar("e")
        body = z3.And(v.comp(j), subnet_ok(sig, sig.asub(j), hs, srv),
                      z3.Not(host_denies(sig, hs, hh, j, srv)))
        internet = z3.And(sig.public(hs), sig.allow(z3.IntVal(0), hs, srv))
        return [("no-internet-route", z3.Not(internet)),
                ("no-earlier-source", z3.ForAll([j], z3.Implies(z3.And(0 <= j, j < k), z3.Not(body)))),
                ("state-untouched", tensor_of(fr.locals["state"]).content == T)]


# ---------------------------------------------------------------------------- _update_reachable

def ur_rows(sig, T0, T1, csub, k):
    """rows of T1 after k iterations of _update_reachable from T0"""
    L = sig.layout()
    return sig.rows_spec(T0, T1, k,
                         lambda j: z3.And(z3.Select(z3.Select(T0, ival(j)), L.reach) == 0,
                                          sig.connected(csub, sig.asub_t(j))),
                         lambda j: z3.Store(z3.Select(T0, ival(j)), L.reach, z3.RealVal(1)), "u")


@contract
class UpdateReachable(Contract):
    qualname = "nasim.envs.network.Network._update_reachable"

    def modifies(self, I, S):
        return [tensor_of(S.a["state"])]

    tags = {"": ("C03", "C04", "C01", "C12", "C13", "C14")}

    def concretize(self, I, S):
        from . import dyn_cex
        return dyn_cex.make("net_update_reachable", I, S, extra={"compromised_addr": lambda m: [dyn_cex.mev(m, ival(S.a["compromised_addr"][0])), dyn_cex.mev(m, ival(S.a["compromised_addr"][1]))]})

    def setup(self, I, variant):
        sig, T, st, net, _ = dyn_setup(I, None)
        cs, ch = z3.Int("ur_csub"), z3.Int("ur_chid")
        I.ctx.assume(sig.valid_addr(cs, ch))
        S = Scope(sig=sig)
        addr = (mk(cs, "int"), mk(ch, "int"))
        S.a = {"self": net, "state": st, "compromised_addr": addr}
        S.call_args = ([net, st, addr], {})
        return S

    def bind(self, I, fi, args, kwargs):
        S = super().bind(I, fi, args, kwargs)
        S.sig = I.ext_state["sig"]
        return S

    def requires(self, I, S):
        return [("wf", V.WF(S.sig, tensor_of(S.a["state"]).content))]

    def snapshot(self, I, S):
        S.old["T"] = tensor_of(S.a["state"]).content

    def ensures(self, I, S):
        sig = S.sig
        T1 = tensor_of(S.a["state"]).content
        cs = ival(S.a["compromised_addr"][0])
        return [("C03.rows", ur_rows(sig, S.old["T"], T1, cs, sig.Nk()))]

    def havoc(self, I, S):
        cell = tensor_of(S.a["state"])
        if not cell.fresh:
            I.ctx.writes.append(("cell", cell))
        cell.content = I.ctx.fresh("T_ur", A2)
        return None


@loop_contract
class UpdateReachableLoop(LoopContract):
    qualname = "nasim.envs.network.Network._update_reachable"
    ordinal = 0
    tags = ("C03",)

    def snapshot(self, I, fr, seq):
        cell = tensor_of(fr.locals["state"])
        return {"T": cell.content, "cell": cell}

    def havoc(self, I, fr, entry, seq):
        entry["cell"].content = I.ctx.fresh("T_url", A2)

    def inv(self, I, fr, entry, seq, k):
        sig = I.ext_state["sig"]
        return [("rows", ur_rows(sig, entry["T"], entry["cell"].content, ival(fr.locals["comp_subnet"]), k))]


# ---------------------------------------------------------------------------- _perform_subnet_scan

def ss_newly(sig, T0, tsub, j):
    L = sig.layout()
    return z3.And(sig.connected(tsub, sig.asub_t(j)), z3.Select(z3.Select(T0, ival(j)), L.disc) == 0)


def ss_rows(sig, T0, T1, tsub, k):
    L = sig.layout()
    return sig.rows_spec(T0, T1, k, lambda j: ss_newly(sig, T0, tsub, j),
                         lambda j: z3.Store(z3.Select(T0, ival(j)), L.disc, z3.RealVal(1)), "d")


def psum(sig, T0, tsub, k):
    """partial discovery sum over the first k hosts: an explicit sum when k is a python int, else the
    recursively axiomatised PSUM (see psum_axioms)"""
    L = sig.layout()
    if isinstance(k, int):
        tot = z3.RealVal(0)
        for j in range(k):
            tot = tot + z3.If(ss_newly(sig, T0, tsub, j), z3.Select(z3.Select(T0, z3.IntVal(j)), L.dvalue), z3.RealVal(0))
        return tot
    return PSUM(T0, tsub, k)


def psum_axioms(sig, T0, tsub):
    """definition of the partial discovery sum psum(T0,tsub,k) = sum_{j<k, newly(j)} dvalue(j)"""
    if not sig.symbolic:
        return []
    L = sig.layout()
    k = sig.qvar("ps")
    term = z3.If(ss_newly(sig, T0, tsub, k), z3.Select(z3.Select(T0, k), L.dvalue), z3.RealVal(0))
    return [PSUM(T0, tsub, z3.IntVal(0)) == 0,
            z3.ForAll([k], z3.Implies(k >= 0, PSUM(T0, tsub, k + 1) == PSUM(T0, tsub, k) + term))]


def ss_dicts(sig, T0, tsub, disc, newly, k):
    """contents of the two result dicts after k iterations"""
    if isinstance(k, int):
        if not (isinstance(disc, PyDict) and isinstance(newly, PyDict)):
            return z3.BoolVal(False)
        if list(disc.d.keys()) != sig.addrs[:k] or list(newly.d.keys()) != sig.addrs[:k]:
            return z3.BoolVal(False)
        cs = []
        for j, ad in enumerate(sig.addrs[:k]):
            cs.append(bval(disc.d[ad]) == sig.connected(tsub, z3.IntVal(ad[0])))
            cs.append(bval(newly.d[ad]) == ss_newly(sig, T0, tsub, j))
        return z3.And(*cs) if cs else z3.BoolVal(True)
    j = sig.qvar("dd")
    s, h = sig.asub(j), sig.ahid(j)
    inr = z3.And(0 <= j, j < k)
    return z3.ForAll([j], z3.Implies(inr, z3.And(
        z3.Select(disc.dom, s, h), z3.Select(newly.dom, s, h),
        z3.Select(disc.val, s, h) == sig.connected(tsub, s),
        z3.Select(newly.val, s, h) == ss_newly(sig, T0, tsub, j))))


@contract
class PerformSubnetScan(Contract):
    qualname = "nasim.envs.network.Network._perform_subnet_scan"

    def modifies(self, I, S):
        return [tensor_of(S.a["next_state"])]

    tags = {"": ("C02", "C03", "C05", "C08", "C04", "C07", "C12", "C13", "C14")}

    def variants(self):
        return ["SubnetScan"]

    def concretize(self, I, S):
        from . import dyn_cex
        return dyn_cex.make("net_subnet_scan", I, S)

    def setup(self, I, variant):
        sig, T, st, net, a = dyn_setup(I, "SubnetScan")
        S = Scope(sig=sig, act=a)
        S.a = {"self": net, "next_state": st, "action": a.obj(I)}
        S.call_args = ([net, st, S.a["action"]], {})
        for ax in psum_axioms(sig, T, a.tsub):
            I.ctx.assume(ax)
        return S

    def bind(self, I, fi, args, kwargs):
        S = super().bind(I, fi, args, kwargs)
        S.sig = I.ext_state["sig"]
        S.act = I.ext_state["act"]
        return S

    def requires(self, I, S):
        return [("wf", V.WF(S.sig, tensor_of(S.a["next_state"]).content))]

    def snapshot(self, I, S):
        S.old["T"] = tensor_of(S.a["next_state"]).content

    def ensures(self, I, S):
        sig, a = S.sig, S.act
        T0 = S.old["T"]
        v0 = V.View(sig, T0)
        nxt, res = S.result
        T1 = tensor_of(nxt).content
        succ, value, conn, perm, undef = result_fields(res)
        t = sig.hnum(a.tsub, a.thid)
        ok = z3.And(v0.comp(t), v0.acc(t) >= z3.ToReal(a.req))
        out = [
            ("spec.success", succ == ok),
            ("spec.flags", z3.And(conn == z3.Not(v0.comp(t)), perm == z3.And(v0.comp(t), z3.Not(ok)), z3.Not(undef))),
            ("spec.same-object", z3.BoolVal(nxt is S.a["next_state"])),
            ("spec.rows", z3.If(ok, ss_rows(sig, T0, T1, a.tsub, sig.Nk()), T1 == T0)),
            ("spec.value", value == z3.If(ok, psum(sig, T0, a.tsub, sig.Nk()), z3.RealVal(0))),
        ]
        d, nd = res.fields["discovered"], res.fields["newly_discovered"]
        if isinstance(d, SDict) or (not sig.symbolic and isinstance(d, PyDict) and d.d):
            out.append(("spec.dicts", z3.Implies(ok, ss_dicts(sig, T0, a.tsub, d, nd, sig.Nk()))))
        else:
            out.append(("spec.dicts", z3.Not(ok)))
        return out

    def havoc(self, I, S):
        ctx = I.ctx
        cell = tensor_of(S.a["next_state"])
        if not cell.fresh:
            ctx.writes.append(("cell", cell))
        cell.content = ctx.fresh("T_ss", A2)
        arcls = I.repo.cls("nasim.envs.action.ActionResult")
        ks, vs = SDict.sorts(2, "bool")
        # the two result dicts are filled only when the scan is performed (target compromised with the required access)
        v0_ = V.View(S.sig, S.old["T"])
        t_ = S.sig.hnum(S.act.tsub, S.act.thid)
        performed = ctx.branch(z3.And(v0_.comp(t_), v0_.acc(t_) >= z3.ToReal(S.act.req)))
        if not performed:
            mkd = lambda nm: PyDict({})
        elif S.sig.symbolic:
            mkd = lambda nm: SDict(2, "bool", ctx.fresh(nm + "_dom", z3.ArraySort(I_, I_, B_)),
                                   ctx.fresh(nm + "_val", z3.ArraySort(I_, I_, B_)), keyseq=S.sig.addr_seq(), label=nm)
        else:
            mkd = lambda nm: PyDict({ad: SymV(ctx.fresh(nm + "_v", B_), "bool") for ad in S.sig.addrs})
        f = {
            "success": SymV(ctx.fresh("ss_success", B_), "bool"),
            "value": SymV(ctx.fresh("ss_value", R_), "real"),
            "connection_error": SymV(ctx.fresh("ss_conn", B_), "bool"),
            "permission_error": SymV(ctx.fresh("ss_perm", B_), "bool"),
            "undefined_error": False,
            "services": AbsVal(EMPTY_DICT, "dict"), "os": AbsVal(EMPTY_DICT, "dict"),
            "processes": AbsVal(EMPTY_DICT, "dict"), "access": AbsVal(EMPTY_DICT, "dict"),
            "discovered": mkd("ss_discovered"), "newly_discovered": mkd("ss_newly"),
        }
        for ax in psum_axioms(S.sig, S.old["T"], S.act.tsub):
            ctx.assume(ax)
        return (S.a["next_state"], Obj(arcls, f, fresh=True))


@loop_contract
class PerformSubnetScanLoop(LoopContract):
    qualname = "nasim.envs.network.Network._perform_subnet_scan"
    ordinal = 0
    tags = ("C03", "C05")

    def snapshot(self, I, fr, seq):
        cell = tensor_of(fr.locals["next_state"])
        return {"T": cell.content, "cell": cell}

    def _dicts(self, fr):
        out = []
        for nm in ("discovered", "newly_discovered"):
            d = fr.locals[nm]
            if isinstance(d, PyDict):
                assert not d.d
                d = SDict.empty(2, "bool", nm)
            out.append(d)
        return out

    def havoc(self, I, fr, entry, seq):
        ctx = I.ctx
        entry["cell"].content = ctx.fresh("T_ssl", A2)
        sig = I.ext_state["sig"]
        for nm in ("discovered", "newly_discovered"):
            fr.locals[nm] = SDict(2, "bool", ctx.fresh(nm + "_dom", z3.ArraySort(I_, I_, B_)),
                                  ctx.fresh(nm + "_val", z3.ArraySort(I_, I_, B_)), keyseq=sig.addr_seq(), label=nm)
        fr.locals["discovery_reward"] = SymV(ctx.fresh("disc_reward", R_), "real")
        for v in ("host", "h_addr"):
            fr.locals.pop(v, None)

    def inv(self, I, fr, entry, seq, k):
        sig = I.ext_state["sig"]
        T0 = entry["T"]
        tsub = ival(fr.locals["target_subnet"])
        d, nd = self._dicts(fr)
        return [("rows", ss_rows(sig, T0, entry["cell"].content, tsub, k)),
                ("sum", rval(fr.locals["discovery_reward"]) == psum(sig, T0, tsub, k)),
                ("dicts", ss_dicts(sig, T0, tsub, d, nd, k))]


# ---------------------------------------------------------------------------- reset

def reset_rows(sig, T0, T1, k):
    L = sig.layout()

    def new(j):
        r0 = z3.Select(T0, ival(j))
        pub = z3.If(sig.public(sig.asub_t(j)), z3.RealVal(1), z3.RealVal(0))
        return z3.Store(z3.Store(z3.Store(z3.Store(r0, L.comp, z3.RealVal(0)), L.access, z3.RealVal(0)), L.reach, pub), L.disc, pub)
    return sig.rows_spec(T0, T1, k, lambda j: z3.BoolVal(True), new, "r")


@contract
class NetworkReset(Contract):
    qualname = "nasim.envs.network.Network.reset"
    tags = {"": ("C03", "C04", "C13", "C19", "C14")}

    def concretize(self, I, S):
        from . import dyn_cex
        return dyn_cex.make("net_reset", I, S)

    def setup(self, I, variant):
        sig, T, st, net, _ = dyn_setup(I, None)
        S = Scope(sig=sig)
        S.a = {"self": net, "state": st}
        S.call_args = ([net, st], {})
        return S

    def bind(self, I, fi, args, kwargs):
        S = super().bind(I, fi, args, kwargs)
        S.sig = I.ext_state["sig"]
        return S

    def snapshot(self, I, S):
        S.old["T"] = tensor_of(S.a["state"]).content
        S.old["cell"] = tensor_of(S.a["state"])

    def ensures(self, I, S):
        sig = S.sig
        L = sig.layout()
        T0 = S.old["T"]
        T1 = tensor_of(S.result).content
        v1 = V.View(sig, T1)
        out = [("spec.rows", reset_rows(sig, T0, T1, sig.Nk()))]
        # C04 / C03 from the statements: no access anywhere, only public subnets reachable and discovered,
        # configuration columns untouched
        out.append(("C04.initial", sig.forall_hosts(lambda i: z3.And(
            v1.cell(i, L.comp) == 0, v1.acc(i) == 0,
            v1.cell(i, L.reach) == z3.If(sig.public(sig.asub_t(i)), z3.RealVal(1), z3.RealVal(0)),
            v1.cell(i, L.disc) == v1.cell(i, L.reach)), "ri")))
        out.append(("C04.config-untouched", sig.forall_hosts(
            lambda i: V.mask_dyn(L, z3.Select(T1, i)) == V.mask_dyn(L, z3.Select(T0, i)), "rc")))
        return out

    def frame(self, I, S):
        rc = tensor_of(S.result)
        return [("C13.input-untouched", S.old["cell"].content == S.old["T"]),
                ("C13.fresh-result", z3.BoolVal(rc is not S.old["cell"] and rc.fresh and S.result.fresh))]

    def havoc(self, I, S):
        sig = S.sig
        T1 = I.ctx.fresh("T_reset", A2)
        return V.state_obj(I, sig, T1, fresh=True, label="reset_state")


@loop_contract
class NetworkResetLoop(LoopContract):
    qualname = "nasim.envs.network.Network.reset"
    ordinal = 0
    tags = ("C03", "C04")

    def snapshot(self, I, fr, seq):
        cell = tensor_of(fr.locals["next_state"])
        return {"T": cell.content, "cell": cell, "T_in": tensor_of(fr.locals["state"]).content,
                "cell_in": tensor_of(fr.locals["state"])}

    def havoc(self, I, fr, entry, seq):
        entry["cell"].content = I.ctx.fresh("T_rl", A2)
        for v in ("host", "host_addr"):
            fr.locals.pop(v, None)

    def inv(self, I, fr, entry, seq, k):
        sig = I.ext_state["sig"]
        return [("rows", reset_rows(sig, entry["T"], entry["cell"].content, k)),
                ("input-untouched", entry["cell_in"].content == entry["T_in"])]


# ---------------------------------------------------------------------------- all_sensitive_hosts_compromised

@contract
class AllSensitive(Contract):
    qualname = "nasim.envs.network.Network.all_sensitive_hosts_compromised"
    tags = {"": ("C06", "C12", "C13", "C14")}

    def concretize(self, I, S):
        from . import dyn_cex
        return dyn_cex.make("net_goal", I, S)

    def setup(self, I, variant):
        sig, T, st, net, _ = dyn_setup(I, None)
        S = Scope(sig=sig)
        S.a = {"self": net, "state": st}
        S.call_args = ([net, st], {})
        I.ctx.assume(GOAL(T) == goal_def(sig, T))
        return S

    def bind(self, I, fi, args, kwargs):
        S = super().bind(I, fi, args, kwargs)
        S.sig = I.ext_state["sig"]
        return S

    def snapshot(self, I, S):
        S.old["T"] = tensor_of(S.a["state"]).content

    def ensures(self, I, S):
        out = [("C06.goal", bval(S.result) == GOAL(S.old["T"]))]
        if getattr(S, "callsite", False) and not S.sig.symbolic:
            # bounded instances: reveal the definition so that counterexamples are realisable on the real code
            out.append(("goal-def", GOAL(S.old["T"]) == goal_def(S.sig, S.old["T"])))
        return out

    def frame(self, I, S):
        return [("state-untouched", tensor_of(S.a["state"]).content == S.old["T"])]

    def havoc(self, I, S):
        return SymV(I.ctx.fresh("goal", B_), "bool")


@loop_contract
class AllSensitiveLoop(LoopContract):
    qualname = "nasim.envs.network.Network.all_sensitive_hosts_compromised"
    ordinal = 0
    tags = ("C06",)

    def snapshot(self, I, fr, seq):
        return {"T": tensor_of(fr.locals["state"]).content}

    def havoc(self, I, fr, entry, seq):
        fr.locals.pop("host_addr", None)

    def inv(self, I, fr, entry, seq, k):
        sig = I.ext_state["sig"]
        v = V.View(sig, entry["T"])
        j = sig.qvar("g")
        return [("earlier-all-root", z3.ForAll([j], z3.Implies(z3.And(0 <= j, j < k),
                                                            v.acc(sig.hnum(sig.ssub(j), sig.shid(j))) >= 2))),
                ("state-untouched", tensor_of(fr.locals["state"]).content == entry["T"])]


# ---------------------------------------------------------------------------- perform_action

def inv_C03(sig, T):
    """C03 invariant (from the statement): reachable <=> public or connected from a subnet holding a
    compromised host; compromised => discovered; discovered => reachable; compromised <=> access>=1"""
    v = V.View(sig, T)
    return sig.forall_hosts(lambda i: z3.And(
        v.reach(i) == z3.Or(sig.public(sig.asub_t(i)),
                            sig.exists_hosts(lambda c: z3.And(v.comp(c), sig.connected(sig.asub_t(c), sig.asub_t(i))), "ic")),
        z3.Implies(v.comp(i), v.disc(i)),
        z3.Implies(v.disc(i), v.reach(i)),
        v.comp(i) == (v.acc(i) >= 1)), "inv")


def net_spec(sig, a, T, U, T_ss, T_ur):
    """functional specification of Network.perform_action (helper contract for callers).
    U: the uniform draw; T_ss / T_ur: tensors characterised by the callee contracts."""
    L = sig.layout()
    v = V.View(sig, T)
    t = sig.hnum(a.tsub, a.thid)
    row = z3.Select(T, t)
    T_, F_ = z3.BoolVal(True), z3.BoolVal(False)
    zero = z3.RealVal(0)
    if a.kind == "NoOp":
        return dict(success=T_, next=T, value=zero, conn=F_, perm=F_, undef=F_, draws=z3.IntVal(0))
    c1 = z3.Not(z3.And(v.reach(t), v.disc(t)))
    hrp = HRP[a.kind](T, a.tsub, a.req, a.srv)
    c2 = z3.And(z3.BoolVal(a.is_remote), z3.Not(hrp))
    c3 = z3.And(z3.BoolVal(a.is_exploit), z3.Not(TP(T, a.tsub, a.thid, a.srv)))
    c4 = z3.And(z3.BoolVal(a.is_privesc), z3.Not(v.comp(t)))
    gate = z3.Or(c1, c2, c3, c4)
    nodraw = z3.And(z3.BoolVal(a.is_exploit), v.comp(t))
    chance_fail = z3.And(z3.Not(nodraw), U >= a.prob)
    draws = z3.If(z3.Or(gate, nodraw), 0, 1)
    if a.kind == "SubnetScan":
        ok = z3.And(v.comp(t), v.acc(t) >= z3.ToReal(a.req))
        live = z3.And(z3.Not(gate), z3.Not(chance_fail))
        return dict(
            success=z3.And(live, ok),
            next=z3.If(z3.And(live, ok), T_ss, T),
            value=z3.If(z3.And(live, ok), psum(sig, T, a.tsub, sig.Nk()), zero),
            conn=z3.Or(c1, z3.And(z3.Not(c1), z3.Not(c2), live, z3.Not(v.comp(t)))),
            perm=z3.And(z3.Not(c1), z3.Or(c2, z3.And(live, v.comp(t), z3.Not(ok)))),
            undef=z3.And(z3.Not(gate), chance_fail), draws=draws)
    hs = hv_spec(sig, a, row)
    live = z3.And(z3.Not(gate), z3.Not(chance_fail))
    T1 = z3.Store(T, t, hs["next"])
    nxt = z3.If(live, z3.If(z3.And(z3.BoolVal(a.is_exploit), hs["success"]), T_ur, T1), T)
    return dict(
        success=z3.And(live, hs["success"]),
        next=nxt,
        value=z3.If(live, hs["value"], zero),
        conn=z3.Or(c1, z3.And(z3.Not(c1), z3.Not(c2), z3.Or(c3, c4))),
        perm=z3.Or(z3.And(z3.Not(c1), c2), z3.And(live, hs["perm"])),
        undef=z3.And(z3.Not(gate), chance_fail), draws=draws)


@contract
class NetPerformAction(Contract):
    may_draw = True      # at most one draw, exactly as C07 states
    qualname = "nasim.envs.network.Network.perform_action"
    tags = {"C01": ("C01",), "C02": ("C02", "C17"), "C03": ("C03",), "C04": ("C04", "C20"), "C05": ("C05", "C20"), "C07": ("C07",),
            "C13": ("C13",), "C14": ("C14",),
            "spec": ("C01", "C02", "C03", "C04", "C05", "C06", "C07", "C12", "C13", "C14"),
            "raises": ("C01", "C02", "C07", "C10"), "frame": ("C04", "C13")}

    def variants(self):
        return list(V.KINDS)

    def concretize(self, I, S):
        from . import dyn_cex
        return dyn_cex.make("net_perform_action", I, S)

    def setup(self, I, variant):
        sig, T, st, net, a = dyn_setup(I, variant)
        S = Scope(sig=sig, act=a)
        S.a = {"self": net, "state": st, "action": a.obj(I)}
        S.call_args = ([net, st, S.a["action"]], {})
        self.reveal(I, sig, a, T)
        return S

    def reveal(self, I, sig, a, T):
        """definitions of the opaque predicates for the input state (needed by the property clauses)"""
        I.ctx.assume(HRP[a.kind](T, a.tsub, a.req, a.srv) == hrp_def(sig, a, T))
        I.ctx.assume(TP(T, a.tsub, a.thid, a.srv) == tp_def_code(sig, T, a.tsub, a.thid, a.srv))
        for ax in psum_axioms(sig, T, a.tsub):
            I.ctx.assume(ax)

    def bind(self, I, fi, args, kwargs):
        S = super().bind(I, fi, args, kwargs)
        S.sig = I.ext_state["sig"]
        S.act = I.ext_state["act"]
        return S

    def requires(self, I, S):
        return [("wf", V.WF(S.sig, tensor_of(S.a["state"]).content))]

    def snapshot(self, I, S):
        S.old["T"] = tensor_of(S.a["state"]).content
        S.old["cell"] = tensor_of(S.a["state"])
        S.old["ndraws"] = len(I.ctx.draws)

    def _draw(self, I, S):
        new = I.ctx.draws[S.old["ndraws"]:]
        ds = [d for d in new if d[0] == "rand"]
        # a batch draw consumes the stream differently from the contract's single draw: count it as two
        for d in new:
            if d[0] == "rand-batch":
                ds = ds + [("rand", z3.Real("U_batch_a")), ("rand", z3.Real("U_batch_b"))]
        return ds

    def ensures(self, I, S):
        sig, a = S.sig, S.act
        L = sig.layout()
        T0 = S.old["T"]
        nxt, res = S.result
        T1 = tensor_of(nxt).content
        succ, value, conn, perm, undef = result_fields(res)
        v0, v1 = V.View(sig, T0), V.View(sig, T1)
        t = sig.hnum(a.tsub, a.thid)
        ds = self._draw(I, S)
        U = ds[0][1] if ds else z3.Real("U_unused")
        ndraws = len(ds)
        out = []
        # ------------- helper contract: full functional specification (for callers)
        T_ss = z3.Const("T_ss_spec", A2)
        T_ur = z3.Const("T_ur_spec", A2)
        sp = net_spec(sig, a, T0, U, T_ss, T_ur)
        hs = hv_spec(sig, a, z3.Select(T0, t))
        defs = z3.And(ss_rows(sig, T0, T_ss, a.tsub, sig.Nk()),
                      ur_rows(sig, z3.Store(T0, t, hs["next"]), T_ur, a.tsub, sig.Nk()))
        S.extra["defs"] = defs
        out.append(("spec.success", z3.Implies(defs, succ == sp["success"])))
        out.append(("spec.next", z3.Implies(defs, T1 == sp["next"])))
        out.append(("spec.value", z3.Implies(defs, value == sp["value"])))
        out.append(("spec.flags", z3.Implies(defs, z3.And(conn == sp["conn"], perm == sp["perm"], undef == sp["undef"]))))
        out.append(("C07.at-most-one-draw", z3.And(ndraws <= 1, z3.IntVal(ndraws) == sp["draws"])))
        out.append(("wf-preserved", V.WF(sig, T1)))
        # ------------- property clauses (from the statements)
        hp = V.host_pre(sig, a, z3.Select(T0, t))
        isEP = a.kind in ("Exploit", "PrivilegeEscalation")
        # C01: other hosts never change compromised/access; the target only under HostPre by exploit/escalation
        out.append(("C01.other-hosts", sig.forall_hosts(lambda i: z3.Implies(
            i != t, z3.And(v1.cell(i, L.comp) == v0.cell(i, L.comp), v1.acc(i) == v0.acc(i))), "oh")))
        changed = z3.Or(v1.cell(t, L.comp) != v0.cell(t, L.comp), v1.acc(t) != v0.acc(t))
        out.append(("C01.target-only-if", z3.Implies(changed, z3.And(z3.BoolVal(isEP), hp, succ))))
        netpre = self.net_pre(sig, a, T0)
        if isEP:
            draw_ok = z3.BoolVal(True) if ndraws == 0 else (U < a.prob)
            out.append(("C01.liveness", z3.Implies(z3.And(netpre, hp, draw_ok), z3.And(
                succ, v1.cell(t, L.comp) == 1, v1.acc(t) == V.rmax(v0.acc(t), z3.ToReal(a.access))))))
        # C02
        out.append(("C02.undiscovered-unreachable", z3.Implies(
            z3.And(z3.BoolVal(a.kind != "NoOp"), z3.Not(z3.And(v0.reach(t), v0.disc(t)))),
            z3.And(z3.Not(succ), T1 == T0, value == 0))))
        if a.is_remote:
            out.append(("C02.remote-needs-pivot", z3.Implies(succ, hrp_def(sig, a, T0))))
        if a.is_exploit:
            out.append(("C02.exploit-needs-traffic", z3.Implies(succ, traffic_ok_stmt(sig, T0, a.tsub, a.thid, a.srv))))
        if a.kind in ("SubnetScan", "ProcessScan", "PrivilegeEscalation"):
            out.append(("C02.onhost-needs-access", z3.Implies(succ, z3.And(v0.comp(t), v0.acc(t) >= z3.ToReal(a.req)))))
        out.append(("C02.failure-changes-nothing", z3.Implies(z3.Not(succ), z3.And(T1 == T0, value == 0))))
        # C03
        out.append(("C03.inv-preserved", z3.Implies(inv_C03(sig, T0), inv_C03(sig, T1))))
        disc_changed = sig.exists_hosts(lambda i: v1.cell(i, L.disc) != v0.cell(i, L.disc), "dc")
        out.append(("C03.discovery-only-by-scan", z3.Implies(disc_changed, z3.And(
            z3.BoolVal(a.kind == "SubnetScan"), succ, v0.comp(t)))))
        if a.kind == "SubnetScan":
            out.append(("C03.scan-discovers-exactly", z3.Implies(succ, sig.forall_hosts(
                lambda j: v1.disc(j) == z3.Or(v0.disc(j), sig.connected(a.tsub, sig.asub_t(j))), "sd"))))
        # C04
        out.append(("C04.monotone", sig.forall_hosts(lambda i: z3.And(
            v1.cell(i, L.comp) >= v0.cell(i, L.comp), v1.cell(i, L.reach) >= v0.cell(i, L.reach),
            v1.cell(i, L.disc) >= v0.cell(i, L.disc), v1.acc(i) >= v0.acc(i)), "mo")))
        out.append(("C04.config-immutable", sig.forall_hosts(
            lambda i: V.mask_dyn(L, z3.Select(T1, i)) == V.mask_dyn(L, z3.Select(T0, i)), "ci")))
        # C05
        newly_root = z3.And(succ, z3.BoolVal(isEP), v0.acc(t) < 2, v1.acc(t) == 2)
        if a.kind == "SubnetScan":
            out.append(("C05.discovery-sum", value == z3.If(succ, psum(sig, T0, a.tsub, sig.Nk()), z3.RealVal(0))))
        else:
            out.append(("C05.value", value == z3.If(newly_root, v0.value(t), z3.RealVal(0))))
        out.append(("C05.failure-gains-nothing", z3.Implies(z3.Not(succ), value == 0)))
        # C07
        out.append(("C07.flags", z3.And(z3.Implies(succ, z3.Not(z3.Or(conn, perm, undef))),
                                        z3.Not(z3.And(conn, perm)), z3.Not(z3.And(conn, undef)),
                                        z3.Not(z3.And(perm, undef)))))
        allpre = z3.And(netpre, hp) if isEP else self.all_pre(sig, a, T0)
        if ndraws == 1:
            out.append(("C07.decided-by-draw", z3.Implies(allpre, succ == (U < a.prob))))
            out.append(("C07.chance-failure", z3.Implies(z3.And(allpre, z3.Not(succ)),
                                                         z3.And(T1 == T0, value == 0, undef, z3.Not(conn), z3.Not(perm)))))
            out.append(("C07.preconditions-false-unaffected", z3.Implies(z3.Not(allpre), z3.And(
                z3.Not(succ), T1 == T0, value == 0))))
        else:
            reexploit = z3.And(z3.BoolVal(a.is_exploit), v0.comp(t))
            out.append(("C07.no-draw-cases", z3.Or(z3.BoolVal(a.kind == "NoOp"), reexploit, z3.Not(netpre))))
            out.append(("C07.reexploit-never-fails-by-chance", z3.Implies(z3.And(reexploit, allpre), succ)))
        return out

    def net_pre(self, sig, a, T0):
        """network-level preconditions of C02 for action a in T0 (statement)"""
        v0 = V.View(sig, T0)
        t = sig.hnum(a.tsub, a.thid)
        conds = [v0.reach(t), v0.disc(t)]
        if a.is_remote:
            conds.append(hrp_def(sig, a, T0))
        if a.is_exploit:
            conds.append(TP(T0, a.tsub, a.thid, a.srv))
        if a.kind in ("SubnetScan", "ProcessScan", "PrivilegeEscalation"):
            conds.append(z3.And(v0.comp(t), v0.acc(t) >= z3.ToReal(a.req)))
        return z3.And(*conds)

    def all_pre(self, sig, a, T0):
        return self.net_pre(sig, a, T0)

    def frame(self, I, S):
        nxt, res = S.result
        nc = tensor_of(nxt)
        return [("C13.input-untouched", S.old["cell"].content == S.old["T"]),
                ("C13.fresh-result", z3.BoolVal(nc is not S.old["cell"] and nc.fresh and nxt.fresh
                                                and nxt is not S.a["state"]))]
