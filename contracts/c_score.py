"""contracts for the score upper bound (C20, unbounded part): Network.get_total_sensitive_host_value,
get_total_discovery_value, NASimEnv.get_score_upper_bound"""
import z3

from pyvc.contract import Contract, LoopContract, Scope, contract, loop_contract
from pyvc.values import SymV, Obj, SymSeq, SymDict, mk, ival, rval
from . import vocab as V
from .c_network import dyn_setup
from .c_environment import env_setup

I_, R_ = z3.IntSort(), z3.RealSort()
SSUM = z3.Function("sens_sum", I_, R_)      # sum of the first k sensitive values
DSUM = z3.Function("disc_sum", I_, R_)      # sum of the first k hosts' discovery values
HOPS = z3.Function("min_hops_of_scenario", I_, R_)


def sum_axioms(sig):
    k = sig.qvar("sk")
    return [SSUM(0) == 0, DSUM(0) == 0,
            z3.ForAll([k], z3.Implies(k >= 0, SSUM(k + 1) == SSUM(k) + sig.sval(k))),
            z3.ForAll([k], z3.Implies(k >= 0, DSUM(k + 1) == DSUM(k) + sig.dval(k)))]


class _SumLoop(LoopContract):
    tags = ("C20",)
    fn = None

    def snapshot(self, I, fr, seq):
        # the accumulator by role: the one local the loop body updates with `x += ...` / `x = x + ...`
        import ast
        from pyvc.values import EngineLimit
        names = {n.target.id for n in ast.walk(self.st) if isinstance(n, ast.AugAssign) and isinstance(n.target, ast.Name)}
        names |= {t.id for n in ast.walk(self.st) if isinstance(n, ast.Assign) and isinstance(n.value, ast.BinOp)
                  for t in n.targets if isinstance(t, ast.Name) and any(isinstance(x, ast.Name) and x.id == t.id
                                                                         for x in ast.walk(n.value))}
        if len(names) != 1:
            raise EngineLimit("sum loop without a single accumulator")
        return {"acc": names.pop()}

    def havoc(self, I, fr, entry, seq):
        from pyvc.contract import loop_assigned
        for v in loop_assigned(self.st):
            fr.locals.pop(v, None)
        fr.locals[entry["acc"]] = SymV(I.ctx.fresh("total", R_), "real")

    def inv(self, I, fr, entry, seq, k):
        return [("partial-sum", rval(fr.locals[entry["acc"]]) == self.fn(k))]


@loop_contract
class SensSumLoop(_SumLoop):
    qualname = "nasim.envs.network.Network.get_total_sensitive_host_value"
    ordinal = 0
    fn = staticmethod(SSUM)


@loop_contract
class DiscSumLoop(_SumLoop):
    qualname = "nasim.envs.network.Network.get_total_discovery_value"
    ordinal = 0
    fn = staticmethod(DSUM)


def score_setup(I):
    sig, T, st, net, a = dyn_setup(I, None)
    for ax in sum_axioms(sig):
        I.ctx.assume(ax)
    # sensitive_hosts: address -> value, iterated in the order of the sensitive address list
    vals = SymSeq(sig.nSens, lambda j: mk(sig.sval(ival(j)), "real"), "sensitive-values")
    keys = sig.sensitive_seq()
    d = SymDict(lambda k: z3.BoolVal(True), lambda k: mk(sig.sval2(ival(k[0]), ival(k[1])), "real"), keys=keys,
                label="sensitive_hosts")
    j = sig.qvar("sv")
    I.ctx.assume(z3.ForAll([j], z3.Implies(z3.And(0 <= j, j < sig.nSens),
                                           sig.sval2(sig.ssub(j), sig.shid(j)) == sig.sval(j))))
    net.fields["sensitive_hosts"] = d
    return sig, net


@contract
class TotalSensitive(Contract):
    qualname = "nasim.envs.network.Network.get_total_sensitive_host_value"
    bounded = False
    tags = {"": ("C20",)}
    fn = staticmethod(SSUM)
    count = "nSens"

    def setup(self, I, variant):
        sig, net = score_setup(I)
        S = Scope(sig=sig)
        S.a = {"self": net}
        S.call_args = ([net], {})
        return S

    def bind(self, I, fi, args, kwargs):
        S = super().bind(I, fi, args, kwargs)
        S.sig = I.ext_state["sig"]
        return S

    def ensures(self, I, S):
        return [("C20.total-is-the-sum", rval(S.result) == self.fn(ival(getattr(S.sig, self.count))))]

    def havoc(self, I, S):
        return SymV(I.ctx.fresh("tot", R_), "real")


@contract
class TotalDiscovery(TotalSensitive):
    qualname = "nasim.envs.network.Network.get_total_discovery_value"
    fn = staticmethod(DSUM)
    count = "N"


@contract
class UtilsHopsModel(Contract):
    """utils.get_minimal_hops_to_goal(topology, sensitive_addresses): Floyd-Warshall + a search over visiting orders, out
    of the path-splitting engine's reach.  ASSUMED at call sites: its value is an uninterpreted function of the scenario
    and it only reads its arguments; both are checked by BOUNDED run-time contracts on the real function
    (checks/c20_hops.py: exhaustive small topologies + structured larger ones, and the frame monitor).  The call-site
    precondition (discharged): it is handed the network's own topology and its own list of sensitive addresses."""
    qualname = "nasim.envs.utils.get_minimal_hops_to_goal"
    verify = False
    tags = {"": ("C20", "C06")}

    def bind(self, I, fi, args, kwargs):
        S = super().bind(I, fi, args, kwargs)
        S.sig = I.ext_state["sig"]
        return S

    def requires(self, I, S):
        net = I.ext_state.get("hops_network")
        if net is None:
            return []
        return [("C20.hops-of-this-networks-topology", z3.BoolVal(S.a.get("topology") is net.fields.get("topology"))),
                ("C20.hops-to-this-networks-sensitive-hosts",
                 z3.BoolVal(S.a.get("sensitive_addresses") is net.fields.get("sensitive_addresses")))]

    def havoc(self, I, S):
        return SymV(HOPS(ival(S.sig.nS)), "real")


@contract
class NetworkMinimalHops(Contract):
    """Network.get_minimal_hops: the hop count of THIS network's topology and sensitive hosts (callee assumed, see
    UtilsHopsModel), nothing written"""
    qualname = "nasim.envs.network.Network.get_minimal_hops"
    bounded = False
    tags = {"": ("C20",)}

    def setup(self, I, variant):
        sig = V.Sigma(concrete=I.ext_state.get("concrete"))
        for ax in sig.wfs():
            I.ctx.assume(ax)
        I.ext_state["sig"] = sig
        net = sig.network_obj(I)
        I.ext_state["hops_network"] = net
        S = Scope(sig=sig)
        S.a = {"self": net}
        S.call_args = ([net], {})
        return S

    def bind(self, I, fi, args, kwargs):
        S = super().bind(I, fi, args, kwargs)
        S.sig = I.ext_state["sig"]
        return S

    def ensures(self, I, S):
        if getattr(S, "callsite", False):
            return []
        return [("C20.hops-of-this-network", rval(S.result) == HOPS(ival(S.sig.nS)) if isinstance(S.result, SymV)
                 else z3.BoolVal(False))]

    def havoc(self, I, S):
        return SymV(HOPS(ival(S.sig.nS)), "real")


@contract
class EnvMinimumHops(NetworkMinimalHops):
    """NASimEnv.get_minimum_hops (public API): the same number"""
    qualname = "nasim.envs.environment.NASimEnv.get_minimum_hops"
    callable_by_contract = False

    def setup(self, I, variant):
        sig, T, st, env, a = env_setup(I, None)
        S = Scope(sig=sig)
        S.a = {"self": env}
        S.call_args = ([env], {})
        return S


@contract
class ScoreUpperBound(Contract):
    qualname = "nasim.envs.environment.NASimEnv.get_score_upper_bound"
    callable_by_contract = False
    bounded = False
    tags = {"": ("C20",)}

    def setup(self, I, variant):
        sig, T, st, env, a = env_setup(I, None)
        for ax in sum_axioms(sig):
            I.ctx.assume(ax)
        S = Scope(sig=sig)
        S.a = {"self": env}
        S.call_args = ([env], {})
        return S

    def ensures(self, I, S):
        sig = S.sig
        return [("C20.bound-is-values-minus-hops",
                 rval(S.result) == SSUM(ival(sig.nSens)) + DSUM(ival(sig.N)) - HOPS(ival(sig.nS)))]
