"""contracts for nasim/scenarios/loader.py (C17 / C18) -- BOUNDED, concrete-structured documents.

The document handed to ScenarioLoader.load is a real nested structure (the nine shipped YAML files of the tree
under test plus synthetic documents that exercise format features the shipped files lack) whose numeric leaves
(probabilities, costs, values, scan costs, step limit) are SYMBOLIC, constrained only by the documented format.
The real loader code is executed symbolically on it (all loops unrolled: the structure is concrete).

  C17: for every admissible valuation of the leaves the loader returns (never raises) and the scenario equals
       the document, field by field.
  C18: for each rule of the catalogue a document transformer breaks exactly that rule (again with symbolic
       leaves where the rule is numeric); on every path the loader must raise.
This is a bounded stand-in (structures are fixed), labelled as such; nothing here is counted as proved.
"""
import copy
import glob
import os
import z3

from . import vocab as V
from pyvc.contract import Contract, Scope, contract
from pyvc.values import SymV, Obj, PyDict, PyList, Opaque, NameK, mk, ival, rval, bval, kind_of
from pyvc import source

LQ = "nasim.scenarios.loader.ScenarioLoader."


class Leaf:
    """symbolic numeric leaf of a document template"""

    def __init__(self, name, kind, lo=None, hi=None, lo_strict=False, hi_strict=False, orig=None):
        self.name, self.kind, self.lo, self.hi = name, kind, lo, hi
        self.lo_strict, self.hi_strict, self.orig = lo_strict, hi_strict, orig

    def term(self):
        return z3.Int(self.name) if self.kind == "int" else z3.Real(self.name)

    def constraint(self):
        t = self.term()
        cs = []
        if self.lo is not None:
            cs.append(t > self.lo if self.lo_strict else t >= self.lo)
        if self.hi is not None:
            cs.append(t < self.hi if self.hi_strict else t <= self.hi)
        return z3.And(*cs) if cs else z3.BoolVal(True)


SYNTHETIC = {
    # asymmetric topology (subnet 2 reaches 3, not back), several public subnets, empty allow-lists,
    # exploit probability 1.0, no OS on one exploit, empty escalation section, no step limit, negative and
    # fractional host values, a host firewall, hosts that agree on os+services but differ in processes
    "syn-asym": {
        "subnets": [1, 2, 1],
        "topology": [[1, 1, 1, 0], [1, 1, 1, 0], [1, 1, 1, 1], [0, 0, 0, 1]],
        "sensitive_hosts": {"(3, 0)": 50, "(2, 1)": 7.5},
        "os": ["linux", "windows"], "services": ["ssh", "ftp"], "processes": ["tomcat", "daclsvc"],
        "exploits": {"e_ssh": {"service": "ssh", "os": "linux", "prob": 1.0, "cost": 2, "access": "user"},
                     "e_ftp": {"service": "ftp", "os": "None", "prob": 0.5, "cost": 1.5, "access": 2}},
        "privilege_escalation": {},
        "service_scan_cost": 1, "os_scan_cost": 2, "subnet_scan_cost": 3, "process_scan_cost": 0,
        "host_configurations": {
            "(1, 0)": {"os": "linux", "services": ["ssh"], "processes": ["tomcat"], "value": -3},
            "(2, 0)": {"os": "linux", "services": ["ssh"], "processes": ["daclsvc"], "firewall": {"(1, 0)": ["ssh"]}},
            "(2, 1)": {"os": "windows", "services": ["ftp", "ssh"], "processes": [], "value": 7.5},
            "(3, 0)": {"os": "windows", "services": ["ftp"], "processes": ["tomcat", "daclsvc"]}},
        "firewall": {"(0, 1)": ["ssh"], "(1, 0)": [], "(0, 2)": [], "(2, 0)": ["ftp"], "(1, 2)": ["ssh", "ftp"],
                     "(2, 1)": ["ssh"], "(2, 3)": ["ftp"], "(3, 2)": []},
    },
}


SYNTHETIC["syn-order"] = {
    # host configurations, sensitive hosts and firewall rules listed OUT of canonical address order; every host differs
    "subnets": [2, 1],
    "topology": [[1, 1, 0], [1, 1, 1], [0, 1, 1]],
    "sensitive_hosts": {"(2, 0)": 30, "(1, 1)": 20},
    "os": ["linux", "windows"], "services": ["ssh", "ftp", "http"], "processes": ["tomcat", "daclsvc"],
    "exploits": {"e_http": {"service": "http", "os": "None", "prob": 0.9, "cost": 3, "access": "root"},
                 "e_ssh": {"service": "ssh", "os": "linux", "prob": 0.6, "cost": 1, "access": 1}},
    "privilege_escalation": {"pe_tomcat": {"process": "tomcat", "os": "linux", "prob": 1.0, "cost": 1, "access": "root"}},
    "service_scan_cost": 1, "os_scan_cost": 1, "subnet_scan_cost": 2, "process_scan_cost": 1,
    "host_configurations": {
        "(2, 0)": {"os": "windows", "services": ["http"], "processes": ["daclsvc"], "firewall": {"(1, 1)": ["http"]}},
        "(1, 1)": {"os": "linux", "services": ["ssh", "ftp"], "processes": ["tomcat"]},
        "(1, 0)": {"os": "linux", "services": ["ftp"], "processes": [], "value": 4}},
    "firewall": {"(2, 1)": ["ssh"], "(1, 2)": ["http"], "(1, 0)": [], "(0, 1)": ["ssh", "ftp"]},
    "step_limit": 40,
}
SYNTHETIC["syn-allsens"] = {
    # every host is a sensitive host (the format allows as many sensitive hosts as hosts)
    "subnets": [1, 1],
    "topology": [[1, 1, 0], [1, 1, 1], [0, 1, 1]],
    "sensitive_hosts": {"(1, 0)": 5, "(2, 0)": 9},
    "os": ["linux"], "services": ["ssh"], "processes": ["tomcat"],
    "exploits": {"e_ssh": {"service": "ssh", "os": "linux", "prob": 0.8, "cost": 1, "access": "user"}},
    "privilege_escalation": {"pe_tomcat": {"process": "tomcat", "os": "linux", "prob": 1.0, "cost": 1, "access": "root"}},
    "service_scan_cost": 1, "os_scan_cost": 1, "subnet_scan_cost": 1, "process_scan_cost": 1,
    "host_configurations": {"(1, 0)": {"os": "linux", "services": ["ssh"], "processes": ["tomcat"]},
                            "(2, 0)": {"os": "linux", "services": ["ssh"], "processes": ["tomcat"], "value": 9}},
    "firewall": {"(0, 1)": ["ssh"], "(1, 0)": [], "(1, 2)": ["ssh"], "(2, 1)": []},
}


SYNTHETIC["syn-names"] = {
    # names that are substrings of one another (os, services, processes): membership must be by equality
    "subnets": [1, 1],
    "topology": [[1, 1, 0], [1, 1, 1], [0, 1, 1]],
    "sensitive_hosts": {"(2, 0)": 10},
    # ... and names are case-sensitive identifiers (capitalised names are names like any other)
    "os": ["Windows", "windows10", "win"], "services": ["HTTP", "https", "ftp", "sftp"], "processes": ["Svc", "svchost"],
    "exploits": {"e_https": {"service": "https", "os": "Windows", "prob": 0.9, "cost": 1, "access": "user"},
                 "e_HTTP": {"service": "HTTP", "os": "win", "prob": 0.7, "cost": 2, "access": "root"}},
    "privilege_escalation": {"pe_svchost": {"process": "svchost", "os": "Windows", "prob": 1.0, "cost": 1, "access": "root"},
                             "pe_Svc": {"process": "Svc", "os": "windows10", "prob": 0.5, "cost": 2, "access": "root"}},
    "service_scan_cost": 1, "os_scan_cost": 1, "subnet_scan_cost": 1, "process_scan_cost": 1,
    "host_configurations": {"(1, 0)": {"os": "windows10", "services": ["https", "sftp"], "processes": ["svchost"]},
                            "(2, 0)": {"os": "win", "services": ["HTTP"], "processes": ["Svc"]}},
    "firewall": {"(0, 1)": ["https"], "(1, 0)": [], "(1, 2)": ["HTTP", "https"], "(2, 1)": ["sftp"]},
}


_web = {"os": "linux", "services": ["ssh"], "processes": ["tomcat"], "firewall": {"(1, 0)": ["ssh"]}}
_dmz = {"os": "linux", "services": ["ssh"], "processes": ["tomcat"]}
SYNTHETIC["syn-alias"] = {
    # two hosts share ONE configuration mapping (with a host firewall) (what PyYAML yields for a YAML anchor `&web` and its aliases `*web`);
    # both are sensitive, with different values
    "subnets": [1, 1, 1],
    "topology": [[1, 1, 0, 0], [1, 1, 1, 1], [0, 1, 1, 0], [0, 1, 0, 1]],
    "sensitive_hosts": {"(2, 0)": 100, "(3, 0)": 50},
    "os": ["linux"], "services": ["ssh"], "processes": ["tomcat"],
    "exploits": {"e_ssh": {"service": "ssh", "os": "linux", "prob": 0.8, "cost": 1, "access": "user"}},
    "privilege_escalation": {"pe_tomcat": {"process": "tomcat", "os": "linux", "prob": 1.0, "cost": 1, "access": "root"}},
    "service_scan_cost": 1, "os_scan_cost": 1, "subnet_scan_cost": 1, "process_scan_cost": 1,
    "host_configurations": {"(1, 0)": _dmz, "(2, 0)": _web, "(3, 0)": _web},
    "firewall": {"(0, 1)": ["ssh"], "(1, 0)": [], "(1, 2)": ["ssh"], "(2, 1)": [], "(1, 3)": ["ssh"], "(3, 1)": ["ssh"]},
    "step_limit": 100,
}


def base_documents(tree, tier):
    import yaml
    docs = {}
    d = os.path.join(tree, "nasim", "scenarios", "benchmark")
    names = ["tiny", "tiny-small", "small-honeypot"] if tier == "quick" else None
    for f in sorted(glob.glob(os.path.join(d, "*.yaml"))):
        n = os.path.basename(f)[:-5]
        if names is None or n in names:
            with open(f) as fh:
                docs[n] = yaml.load(fh, Loader=yaml.FullLoader)
    docs.update(copy.deepcopy(SYNTHETIC))
    return docs


def templatize(doc):
    """replace the numeric leaves the format leaves free by symbolic Leaf objects (valid ranges)"""
    d = copy.deepcopy(doc)
    n = [0]

    def leaf(kind, orig, **kw):
        n[0] += 1
        return Leaf(f"leaf{n[0]}", kind, orig=orig, **kw)
    for k, v in d["sensitive_hosts"].items():
        d["sensitive_hosts"][k] = leaf("real", v, lo=0, lo_strict=True)
    for sec in ("exploits", "privilege_escalation"):
        for name, e in d[sec].items():
            e["prob"] = leaf("real", e["prob"], lo=0, hi=1)
            e["cost"] = leaf("real", e["cost"], lo=0, lo_strict=True)
    for k in ("service_scan_cost", "os_scan_cost", "subnet_scan_cost", "process_scan_cost"):
        d[k] = leaf("real", d[k], lo=0)
    for addr, cfg in d["host_configurations"].items():
        if "value" in cfg and addr not in d["sensitive_hosts"]:
            cfg["value"] = leaf("real", cfg["value"])
        elif "value" in cfg:
            cfg["value"] = d["sensitive_hosts"][addr]      # a valid file repeats the declared value
    if "step_limit" in d:
        d["step_limit"] = leaf("int", d["step_limit"], lo=0, lo_strict=True)
    return d


def to_value(x, leaves, memo=None):
    """engine value of a parsed document; a mapping / sequence object that occurs several times in the document (YAML
    anchor + aliases) stays ONE object"""
    memo = {} if memo is None else memo
    if isinstance(x, Leaf):
        if not any(l is x for l in leaves):
            leaves.append(x)
        return SymV(x.term(), "int" if x.kind == "int" else "real")
    if isinstance(x, (dict, list)) and id(x) in memo:
        return memo[id(x)]
    if isinstance(x, dict):
        out = PyDict({}, fresh=False)
        memo[id(x)] = out
        for k, v in x.items():
            out.d[k] = to_value(v, leaves, memo)
        return out
    if isinstance(x, list):
        out = PyList([], fresh=False)
        memo[id(x)] = out
        out.items.extend(to_value(v, leaves, memo) for v in x)
        return out
    return x


# ---------------------------------------------------------------------------- C18 rule catalogue

def first_key(d):
    return next(iter(d))


def R(name, fn, applicable=lambda d: True):
    return (name, fn, applicable)


def _bad_leaf(kind, **kw):
    return Leaf("bad_leaf", kind, **kw)


def rules():
    out = []

    def r_missing(sec):
        def f(d):
            del d[sec]
        return f
    for sec in ("subnets", "topology", "sensitive_hosts", "os", "services", "processes", "exploits",
                "privilege_escalation", "service_scan_cost", "host_configurations", "firewall"):
        out.append(R(f"missing-section:{sec}", r_missing(sec)))
    out.append(R("unknown-section", lambda d: d.__setitem__("colour", 3)))
    out.append(R("mistyped-section:subnets", lambda d: d.__setitem__("subnets", {"a": 1})))
    out.append(R("mistyped-section:exploits", lambda d: d.__setitem__("exploits", [1])))
    out.append(R("mistyped-section:os_scan_cost", lambda d: d.__setitem__("os_scan_cost", "cheap")))
    out.append(R("mistyped-section:step_limit", lambda d: d.__setitem__("step_limit", 2.5)))
    out.append(R("empty-subnet-list", lambda d: d.__setitem__("subnets", [])))
    out.append(R("non-positive-subnet", lambda d: d["subnets"].__setitem__(0, 0)))
    out.append(R("non-int-subnet", lambda d: d["subnets"].__setitem__(0, 1.0)))
    out.append(R("topology-missing-row", lambda d: d["topology"].pop()))
    out.append(R("topology-short-row", lambda d: d["topology"][1].pop()))
    out.append(R("topology-entry-not-0-1", lambda d: d["topology"][1].__setitem__(1, 2)))
    out.append(R("topology-row-not-list", lambda d: d["topology"].__setitem__(1, "1 1 1")))
    for sec in ("os", "services", "processes"):
        out.append(R(f"empty-{sec}-list", lambda d, sec=sec: d.__setitem__(sec, [])))
        out.append(R(f"duplicated-{sec}", lambda d, sec=sec: d[sec].append(d[sec][0])))
    out.append(R("sensitive-host-bad-subnet", lambda d: d["sensitive_hosts"].__setitem__("(99, 0)", 10)))
    out.append(R("sensitive-host-bad-host-id", lambda d: d["sensitive_hosts"].__setitem__("(1, 99)", 10)))
    out.append(R("sensitive-host-internet", lambda d: d["sensitive_hosts"].__setitem__("(0, 0)", 10)))

    def dup_sens(d):
        k = first_key(d["sensitive_hosts"])
        d["sensitive_hosts"][k.replace(", ", ",")] = d["sensitive_hosts"][k]
    out.append(R("duplicate-sensitive-host", dup_sens))
    out.append(R("non-positive-sensitive-value", lambda d: d["sensitive_hosts"].__setitem__(
        first_key(d["sensitive_hosts"]), _bad_leaf("real", hi=0))))
    out.append(R("no-sensitive-hosts", lambda d: d.__setitem__("sensitive_hosts", {})))
    for sec, keyname, fld in (("exploits", "service", "service"), ("privilege_escalation", "process", "process")):
        has = lambda d, sec=sec: len(d[sec]) > 0
        for k in (fld, "os", "prob", "cost", "access"):
            out.append(R(f"{sec}-missing-{k}", lambda d, sec=sec, k=k: d[sec][first_key(d[sec])].pop(k), has))
        out.append(R(f"{sec}-unknown-{fld}", lambda d, sec=sec, fld=fld: d[sec][first_key(d[sec])].__setitem__(fld, "nope"), has))
        out.append(R(f"{sec}-unknown-os", lambda d, sec=sec: d[sec][first_key(d[sec])].__setitem__("os", "beos"), has))
        out.append(R(f"{sec}-prob-above-1", lambda d, sec=sec: d[sec][first_key(d[sec])].__setitem__(
            "prob", _bad_leaf("real", lo=1, lo_strict=True)), has))
        out.append(R(f"{sec}-prob-negative", lambda d, sec=sec: d[sec][first_key(d[sec])].__setitem__(
            "prob", _bad_leaf("real", hi=0, hi_strict=True)), has))
        out.append(R(f"{sec}-non-positive-cost", lambda d, sec=sec: d[sec][first_key(d[sec])].__setitem__(
            "cost", _bad_leaf("real", hi=0)), has))
        out.append(R(f"{sec}-invalid-access", lambda d, sec=sec: d[sec][first_key(d[sec])].__setitem__("access", "admin"), has))
        out.append(R(f"{sec}-invalid-access-int", lambda d, sec=sec: d[sec][first_key(d[sec])].__setitem__("access", 3), has))
        out.append(R(f"{sec}-definition-not-dict", lambda d, sec=sec: d[sec].__setitem__(first_key(d[sec]), [1, 2]), has))
    for k in ("service_scan_cost", "os_scan_cost", "subnet_scan_cost", "process_scan_cost"):
        out.append(R(f"negative-{k}", lambda d, k=k: d.__setitem__(k, _bad_leaf("real", hi=0, hi_strict=True))))
    # YAML's `.nan` is a float that is neither inside [0, 1] nor positive nor non-negative: range rules written as
    # "reject if outside" instead of "accept if inside" let it through (symbolic real leaves cannot take this value)
    NAN = float("nan")
    for sec in ("exploits", "privilege_escalation"):
        has = lambda d, sec=sec: len(d[sec]) > 0
        out.append(R(f"{sec}-prob-nan", lambda d, sec=sec: d[sec][first_key(d[sec])].__setitem__("prob", NAN), has))
        out.append(R(f"{sec}-cost-nan", lambda d, sec=sec: d[sec][first_key(d[sec])].__setitem__("cost", NAN), has))
    out.append(R("scan-cost-nan", lambda d: d.__setitem__("os_scan_cost", NAN)))
    out.append(R("sensitive-value-nan", lambda d: d["sensitive_hosts"].__setitem__(first_key(d["sensitive_hosts"]), NAN)))
    hc = "host_configurations"
    out.append(R("host-config-missing", lambda d: d[hc].pop(first_key(d[hc]))))
    out.append(R("host-config-superfluous", lambda d: d[hc].__setitem__("(1, 77)", copy.deepcopy(d[hc][first_key(d[hc])]))))

    def swap_host(d):
        k = first_key(d[hc])
        d[hc]["(1, 77)"] = d[hc].pop(k)
    out.append(R("host-config-wrong-address", swap_host))
    for k in ("os", "services", "processes"):
        out.append(R(f"host-config-missing-{k}", lambda d, k=k: d[hc][first_key(d[hc])].pop(k)))
    out.append(R("host-config-unknown-service", lambda d: d[hc][first_key(d[hc])]["services"].append("nope")))
    out.append(R("host-config-duplicated-service", lambda d: d[hc][first_key(d[hc])]["services"].append(
        d[hc][first_key(d[hc])]["services"][0]), lambda d: len(d[hc][first_key(d[hc])]["services"]) > 0))
    out.append(R("host-config-unknown-process", lambda d: d[hc][first_key(d[hc])]["processes"].append("nope")))
    out.append(R("host-config-duplicated-process", lambda d: d[hc][first_key(d[hc])]["processes"].append(
        d[hc][first_key(d[hc])]["processes"][0]), lambda d: len(d[hc][first_key(d[hc])]["processes"]) > 0))
    out.append(R("host-config-unknown-os", lambda d: d[hc][first_key(d[hc])].__setitem__("os", "beos")))
    # "unknown name" comes in several spellings: the any-OS marker of exploit definitions ("none" in any case / YAML
    # null) is NOT a name a host can run or an exploit can target as service / process; names are case sensitive
    def casevar(s_):
        return s_.upper() if s_ != s_.upper() else s_.lower()
    UNKNOWN = (("none-string", lambda d, sec: "none"), ("None-string", lambda d, sec: "None"), ("null", lambda d, sec: None),
               ("empty-string", lambda d, sec: ""), ("zero", lambda d, sec: 0),
               ("other-case", lambda d, sec: casevar(d[sec][0])))
    for nm, mk_ in UNKNOWN:
        out.append(R(f"host-config-unknown-os:{nm}", lambda d, mk_=mk_: d[hc][first_key(d[hc])].__setitem__("os", mk_(d, "os"))))
        out.append(R(f"host-config-unknown-service:{nm}", lambda d, mk_=mk_: d[hc][first_key(d[hc])]["services"].append(mk_(d, "services"))))
        out.append(R(f"host-config-unknown-process:{nm}", lambda d, mk_=mk_: d[hc][first_key(d[hc])]["processes"].append(mk_(d, "processes"))))
        out.append(R(f"exploits-unknown-service:{nm}", lambda d, mk_=mk_: d["exploits"][first_key(d["exploits"])].__setitem__(
            "service", mk_(d, "services")), lambda d: len(d["exploits"]) > 0))
        out.append(R(f"privilege_escalation-unknown-process:{nm}", lambda d, mk_=mk_: d["privilege_escalation"][
            first_key(d["privilege_escalation"])].__setitem__("process", mk_(d, "processes")), lambda d: len(d["privilege_escalation"]) > 0))
        if nm in ("empty-string", "zero", "other-case"):
            for sec in ("exploits", "privilege_escalation"):
                out.append(R(f"{sec}-unknown-os:{nm}", lambda d, mk_=mk_, sec=sec: d[sec][first_key(d[sec])].__setitem__("os", mk_(d, "os")),
                             lambda d, sec=sec: len(d[sec]) > 0))
    out.append(R("host-config-not-dict", lambda d: d[hc].__setitem__(first_key(d[hc]), ["linux"])))
    out.append(R("host-firewall-not-dict", lambda d: d[hc][first_key(d[hc])].__setitem__("firewall", ["ssh"])))
    out.append(R("host-firewall-bad-address", lambda d: d[hc][first_key(d[hc])].__setitem__("firewall", {"(9, 9)": []})))
    out.append(R("host-firewall-unparsable-address", lambda d: d[hc][first_key(d[hc])].__setitem__("firewall", {"one-zero": []})))
    out.append(R("host-firewall-unknown-service", lambda d: d[hc][first_key(d[hc])].__setitem__(
        "firewall", {first_key(d[hc]): ["nope"]})))
    out.append(R("host-firewall-not-list", lambda d: d[hc][first_key(d[hc])].__setitem__(
        "firewall", {first_key(d[hc]): "ssh"})))
    out.append(R("host-value-non-numeric", lambda d: d[hc][first_key(d[hc])].__setitem__("value", "high")))

    def contradict(d):
        k = first_key(d["sensitive_hosts"])
        d[hc][k]["value"] = Leaf("bad_leaf", "real")
        d["__neq__"] = ("bad_leaf", k)
    out.append(R("host-value-contradicts-sensitive", contradict))

    def alias_pair(d, need_numbers=True):
        """two sensitive hosts with different declared values that share ONE configuration mapping (YAML alias)"""
        ks = [k for k in d[hc] if k in d["sensitive_hosts"]]
        for i, a in enumerate(ks):
            for b in ks[i + 1:]:
                va, vb = d["sensitive_hosts"][a], d["sensitive_hosts"][b]
                if d[hc][a] is d[hc][b] and (not need_numbers or (isinstance(va, (int, float)) and isinstance(vb, (int, float))
                                                                  and va != vb)):
                    return a, b
        return None

    def contradict_alias(d):
        a, b = alias_pair(d, need_numbers=False)
        la = d["sensitive_hosts"][a]
        d[hc][a]["value"] = la          # right for the first host using the mapping, wrong for the second
        d["__neq__"] = (la.name, b)
    out.append(R("host-value-contradicts-sensitive:second-user-of-a-shared-mapping", contradict_alias,
                 lambda d: alias_pair(d) is not None))
    out.append(R("firewall-missing-rule", lambda d: d["firewall"].pop(first_key(d["firewall"]))))

    def missing_reverse(d):
        # remove the rule of a direction whose own topology entry is 0 (but whose reverse is connected)
        t = d["topology"]
        for a in range(len(t)):
            for b in range(len(t)):
                if a != b and t[a][b] == 1 and t[b][a] == 0 and f"({b}, {a})" in d["firewall"]:
                    del d["firewall"][f"({b}, {a})"]
                    return
        raise KeyError("n/a")

    def has_oneway(d):
        t = d["topology"]
        return any(a != b and t[a][b] == 1 and t[b][a] == 0 for a in range(len(t)) for b in range(len(t)))
    out.append(R("firewall-missing-reverse-rule-of-one-way-link", missing_reverse, has_oneway))
    out.append(R("firewall-rule-not-list", lambda d: d["firewall"].__setitem__(first_key(d["firewall"]), "ssh")))
    for nm, bad in (("null", None), ("empty-dict", {}), ("empty-string", ""), ("zero", 0), ("false", False), ("tuple-like-str", "[]")):
        out.append(R(f"firewall-rule-{nm}", lambda d, bad=bad: d["firewall"].__setitem__(first_key(d["firewall"]), copy.deepcopy(bad))))
        out.append(R(f"host-firewall-rule-{nm}", lambda d, bad=bad: d[hc][first_key(d[hc])].__setitem__(
            "firewall", {first_key(d[hc]): copy.deepcopy(bad)})))
    out.append(R("firewall-rule-duplicated-service", lambda d: d["firewall"].__setitem__(
        first_key(d["firewall"]), [d["services"][0], d["services"][0]])))
    out.append(R("firewall-rule-unknown-service", lambda d: d["firewall"].__setitem__(first_key(d["firewall"]), ["nope"])))
    out.append(R("non-positive-step-limit", lambda d: d.__setitem__("step_limit", _bad_leaf("int", hi=0))))
    return out


RULES = rules()


# ---------------------------------------------------------------------------- models of u.load_yaml / u.get_file_name

@contract
class LoadYamlModel(Contract):
    qualname = "nasim.scenarios.utils.load_yaml"
    verify = False
    tags = {"": ("C17", "C18")}

    def bind(self, I, fi, args, kwargs):
        return Scope(a={})

    def havoc(self, I, S):
        return I.ext_state["yaml_doc"]       # assumed: PyYAML yields dict / list / scalars


@contract
class GetFileNameModel(Contract):
    qualname = "nasim.scenarios.utils.get_file_name"
    verify = False
    tags = {"": ("C17",)}

    def bind(self, I, fi, args, kwargs):
        return Scope(a={})

    def havoc(self, I, S):
        return "doc"


# ---------------------------------------------------------------------------- ScenarioLoader.load

def parse_addr(s):
    import ast as _a
    return _a.literal_eval(s)


@contract
class LoaderLoad(Contract):
    qualname = LQ + "load"
    # call-site model only inside the verification of load_scenario (which is about WHICH loader object is used and
    # what it is handed); everywhere else the real body is executed
    callable_by_contract = staticmethod(lambda I: bool(I.ext_state.get("model_loader_load")))
    unbounded = False
    own_bounds = True
    optional_params_modelled = ("name",)

    def bind(self, I, fi, args, kwargs):
        return Scope(a=I.bind_params(fi, args, kwargs))

    def havoc(self, I, S):
        I.ext_state["loader_load_call"] = dict(S.a)
        r = Opaque("scenario returned by ScenarioLoader.load")
        I.ext_state["loader_load_result"] = r
        return r
    # the step limit the environment counts against is the one this load produced (C06: "never, if there is none")
    tags = {"C17": ("C17", "C02"), "C17.host-os-services-processes": ("C17", "C09", "C01"), "C18": ("C18",),
            "C17.step-limit": ("C17", "C06"), "raises": ("C17",), "frame": ("C17", "C19", "C06")}

    def must_not_return(self, variant):
        return not variant.endswith("|valid")

    def variants(self):
        tier = os.environ.get("VERIF_TIER_ACTIVE", "quick")
        docs = base_documents(source.REPO_ROOT if not os.environ.get("PYVC_REPO") else os.environ["PYVC_REPO"], tier)
        out = []
        for n, d in docs.items():
            out.append(f"{n}|valid")
            for rn, fn, ok in RULES:
                try:
                    if ok(d):
                        out.append(f"{n}|{rn}")
                except Exception:
                    pass
        return out

    def setup(self, I, variant):
        name, rule = variant.split("|")
        tier = os.environ.get("VERIF_TIER_ACTIVE", "quick")
        docs = base_documents(I.repo.root, "thorough")
        base = docs[name]
        tdoc = templatize(base)
        S = Scope()
        S.extra["rule"] = rule
        S.extra["base"] = base
        if rule != "valid":
            fn = [r for r in RULES if r[0] == rule][0][1]
            fn(tdoc)
        neq = tdoc.pop("__neq__", None)
        leaves = []
        doc = to_value(tdoc, leaves)
        for lf in leaves:
            I.ctx.assume(lf.constraint())
        if neq is not None:
            bad, key = neq
            sv = [lf for lf in leaves if lf.orig is not None and False]
            # the configured value differs from the value the sensitive_hosts section declares
            sens_leaf = tdoc["sensitive_hosts"][key]
            f = z3.Function("isclose", z3.RealSort(), z3.RealSort(), z3.BoolSort())
            I.ctx.assume(z3.Not(f(z3.Real(bad), sens_leaf.term())))
            I.ctx.assume(z3.Not(f(sens_leaf.term(), z3.Real(bad))))
            I.ctx.assume(z3.Real(bad) != sens_leaf.term())
        I.ext_state["yaml_doc"] = doc
        S.extra["tdoc"] = tdoc
        S.extra["doc"] = doc
        lcls = I.repo.cls("nasim.scenarios.loader.ScenarioLoader")
        if I.find_member(lcls, "__init__") is not None and "__init__" in lcls.methods:
            # a loader object at an arbitrary point of its life (it may have loaded other files before): built by the
            # real constructor; every field a method other than __init__ writes holds unknown left-over state (hidden)
            loader = V.construct(I, "nasim.scenarios.loader.ScenarioLoader", [], label="loader")
        else:
            loader = Obj(lcls, {}, fresh=False, label="loader")
            loader.hidden = set()
        # ... it may have loaded other files before: every instance field that a method other than __init__ assigns holds
        # unknown left-over state of that earlier load (hidden: reading it before this call assigns it fails the frame)
        for fname in V.mutable_fields(lcls):
            if fname not in loader.fields:
                loader.fields[fname] = Opaque("left over from an earlier load: " + fname)
                loader.hidden.add(fname)
        S.a = {"self": loader}
        S.call_args = ([loader, "doc.yaml"], {})
        return S

    def concretize(self, I, S):
        from .dyn_cex import mev

        def build(m):
            count = {}

            def scan(x):
                if isinstance(x, (dict, list)):
                    count[id(x)] = count.get(id(x), 0) + 1
                    if count[id(x)] == 1:
                        for v in (x.values() if isinstance(x, dict) else x):
                            scan(v)
            scan(S.extra["tdoc"])
            anchors = {}

            def conv(x):
                if isinstance(x, Leaf):
                    v = mev(m, x.term())
                    return int(v) if x.kind == "int" else float(v)
                if isinstance(x, dict) and count.get(id(x), 0) > 1:
                    # one mapping used in several places (YAML anchor / alias): the replay rebuilds the sharing
                    if id(x) in anchors:
                        return {"__alias__": anchors[id(x)]}
                    anchors[id(x)] = len(anchors) + 1
                    out = {k: conv(v) for k, v in x.items()}
                    out["__anchor__"] = anchors[id(x)]
                    return out
                if isinstance(x, dict):
                    return {k: conv(v) for k, v in x.items()}
                if isinstance(x, list):
                    return [conv(v) for v in x]
                return x
            return {"harness": "loader", "rule": S.extra["rule"], "doc": conv(S.extra["tdoc"]), "predicted": {}}
        return build

    def modifies(self, I, S):
        # the loader object's own fields and the document it normalises in place
        mods = [S.a["self"]]

        def walk(v):
            if isinstance(v, (PyDict, PyList)):
                mods.append(v)
                for x in (v.d.values() if isinstance(v, PyDict) else v.items):
                    walk(x)
        walk(S.extra["doc"])
        return mods

    def allowed_exception(self, I, S, exc):
        # malformed documents must be rejected: any exception counts as rejection
        return S.extra["rule"] != "valid"

    def expected_exception_label(self, S):
        return f"C18.rejects:{S.extra['rule']}"

    def ensures(self, I, S):
        if getattr(S, "callsite", False):
            return []
        rule = S.extra["rule"]
        if rule != "valid":
            return [(f"C18.rejects:{rule}", z3.BoolVal(False))]       # returned normally: the rule was not enforced
        return self.reproduces(I, S)

    def reproduces(self, I, S):
        t = S.extra["tdoc"]
        sc = S.result
        out = []
        ok = isinstance(sc, Obj) and sc.cls.name == "Scenario" and isinstance(sc.fields.get("scenario_dict"), PyDict)
        out.append(("C17.returns-scenario", z3.BoolVal(ok)))
        if not ok:
            return out
        d = sc.fields["scenario_dict"].d

        def eqv(a, b):
            """engine value a equals template value b (Leaf -> its term)"""
            if isinstance(b, Leaf):
                if a is None or isinstance(a, (str, PyDict, PyList)):
                    return z3.BoolVal(False)
                return rval(a) == (z3.ToReal(b.term()) if b.kind == "int" else b.term())
            if isinstance(b, list):
                if not isinstance(a, PyList) or len(a.items) != len(b):
                    return z3.BoolVal(False)
                return z3.And(*[eqv(x, y) for x, y in zip(a.items, b)]) if b else z3.BoolVal(True)
            if isinstance(a, SymV):
                return rval(a) == b if isinstance(b, (int, float)) and not isinstance(b, bool) else z3.BoolVal(False)
            if isinstance(a, float) or isinstance(b, float):
                return z3.BoolVal(isinstance(a, (int, float)) and isinstance(b, (int, float)) and float(a) == float(b))
            return z3.BoolVal(a == b and type(a) == type(b))
        subs = d.get("subnets")
        out.append(("C17.subnets", eqv(subs, [1] + list(S.extra["base"]["subnets"]))))
        out.append(("C17.topology", eqv(d.get("topology"), t["topology"])))
        for k in ("os", "services", "processes"):
            out.append((f"C17.{k}", eqv(d.get(k), t[k])))
        sh = d.get("sensitive_hosts")
        want = {parse_addr(k): v for k, v in t["sensitive_hosts"].items()}
        out.append(("C17.sensitive-hosts", z3.And(z3.BoolVal(isinstance(sh, PyDict) and list(sh.d.keys()) == list(want.keys())),
                                                  *[eqv(sh.d.get(k), v) for k, v in want.items()]) if isinstance(sh, PyDict) else z3.BoolVal(False)))
        acc = {"user": 1, "root": 2, 1: 1, 2: 2}
        for sec, fld in (("exploits", "service"), ("privilege_escalation", "process")):
            got = d.get(sec)
            cs = [z3.BoolVal(isinstance(got, PyDict) and list(got.d.keys()) == list(t[sec].keys()))]
            if isinstance(got, PyDict):
                for name, e in t[sec].items():
                    g = got.d.get(name)
                    if not isinstance(g, PyDict):
                        cs.append(z3.BoolVal(False))
                        continue
                    os_want = None if str(e["os"]).lower() == "none" else e["os"]
                    cs += [z3.BoolVal(g.d.get(fld) == e[fld]), z3.BoolVal(g.d.get("os") == os_want),
                           eqv(g.d.get("prob"), e["prob"]), eqv(g.d.get("cost"), e["cost"]),
                           z3.BoolVal(g.d.get("access") == acc.get(e["access"]))]
            out.append((f"C17.{sec}", z3.And(*cs)))
        for k in ("service_scan_cost", "os_scan_cost", "subnet_scan_cost", "process_scan_cost"):
            out.append((f"C17.{k}", eqv(d.get(k), t[k])))
        out.append(("C17.step-limit", eqv(d.get("step_limit"), t["step_limit"]) if "step_limit" in t
                    else z3.BoolVal(d.get("step_limit") is None)))
        fw = d.get("firewall")
        wantfw = {parse_addr(k): v for k, v in t["firewall"].items()}
        out.append(("C17.subnet-firewall", z3.And(z3.BoolVal(isinstance(fw, PyDict) and set(fw.d.keys()) == set(wantfw.keys())),
                                                  *[eqv(fw.d.get(k), v) for k, v in wantfw.items()]) if isinstance(fw, PyDict) else z3.BoolVal(False)))
        hosts = d.get("host")
        cs, csfw, csval = [], [], []
        okh = isinstance(hosts, PyDict) and list(hosts.d.keys()) == [parse_addr(k) for k in t["host_configurations"]]
        cs.append(z3.BoolVal(okh))
        if okh:
            for k, cfg in t["host_configurations"].items():
                ad = parse_addr(k)
                h = hosts.d[ad]
                f = h.fields
                cs.append(z3.BoolVal(f.get("address") == ad))
                for fld, names, sel in (("os", t["os"], lambda n: n == cfg["os"]),
                                        ("services", t["services"], lambda n: n in cfg["services"]),
                                        ("processes", t["processes"], lambda n: n in cfg["processes"])):
                    m = f.get(fld)
                    cs.append(z3.BoolVal(isinstance(m, PyDict) and list(m.d.keys()) == list(names)
                                         and all(m.d[n] is sel(n) or m.d[n] == sel(n) for n in names)))
                hfw = f.get("firewall")
                wanth = {parse_addr(a): v for a, v in cfg.get("firewall", {}).items()}
                csfw.append(z3.And(z3.BoolVal(isinstance(hfw, PyDict) and set(hfw.d.keys()) == set(wanth.keys())),
                                   *[eqv(hfw.d.get(a), v) for a, v in wanth.items()]) if isinstance(hfw, PyDict) else z3.BoolVal(False))
                if k in t["sensitive_hosts"]:
                    csval.append(eqv(f.get("value"), t["sensitive_hosts"][k]))
                elif "value" in cfg:
                    csval.append(eqv(f.get("value"), cfg["value"]))
                else:
                    csval.append(eqv(f.get("value"), 0))
        out.append(("C17.host-os-services-processes", z3.And(*cs)))
        out.append(("C17.host-firewall-keys-and-deny-lists", z3.And(*csfw) if csfw else z3.BoolVal(True)))
        out.append(("C17.host-values", z3.And(*csval) if csval else z3.BoolVal(True)))
        return out
