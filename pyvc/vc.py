"""pyvc.vc -- discharge obligations: z3 first, cvc5 on z3's `unknown`."""
import os
import subprocess
import tempfile
import time
import z3

CVC5 = "/usr/bin/cvc5"


def split_conj(goal):
    if z3.is_and(goal):
        out = []
        for ch in goal.children():
            out.extend(split_conj(ch))
        return out
    return [goal]


def _cvc5_check(smt2, timeout_s):
    if not os.path.exists(CVC5):
        return "unknown", "cvc5 missing"
    with tempfile.NamedTemporaryFile("w", suffix=".smt2", delete=False) as f:
        f.write("(set-logic ALL)\n")
        f.write(smt2)
        f.write("\n(check-sat)\n")
        path = f.name
    try:
        p = subprocess.run([CVC5, "--lang", "smt2", f"--tlimit={int(timeout_s * 1000)}", "--arrays-exp", path],
                           stdout=subprocess.PIPE, stderr=subprocess.PIPE, text=True, timeout=timeout_s + 5)
        out = p.stdout.strip().splitlines()
        ans = out[0].strip() if out else "unknown"
        if ans not in ("sat", "unsat", "unknown"):
            return "unknown", (p.stdout + p.stderr)[:300]
        return ans, ""
    except subprocess.TimeoutExpired:
        return "unknown", "timeout"
    finally:
        os.unlink(path)


EMATCH = {"smt.mbqi": False, "smt.auto_config": False}     # pure E-matching: no model-based instantiation


def _z3_check(hyps, goal, timeout_ms, seed, cfg):
    s = z3.Solver()
    s.set("timeout", timeout_ms)
    s.set("random_seed", seed)
    for k, v in (cfg or {}).items():
        s.set(k, v)
    for h in hyps:
        s.add(h)
    s.add(z3.Not(goal))
    return s, s.check()


def solve_one(hyps, goal, timeout_ms=10000, use_cvc5=True, seed=0, prefer_ematch=False):
    """returns dict(status= discharged|refuted|unknown, backend, seconds, model).
    `unsat` under any solver configuration is a proof; with prefer_ematch the E-matching-only configuration (which
    cannot answer `sat` for quantified queries) is tried first with a short budget, then the default one."""
    t0 = time.time()
    if prefer_ematch:
        s, r = _z3_check(hyps, goal, min(timeout_ms, 5000), seed, EMATCH)
        if r == z3.unsat:
            return {"status": "discharged", "backend": "z3", "seconds": time.time() - t0, "model": None}
    s, r = _z3_check(hyps, goal, timeout_ms, seed, None)
    dt = time.time() - t0
    if r == z3.unsat:
        return {"status": "discharged", "backend": "z3", "seconds": dt, "model": None}
    if r == z3.sat:
        return {"status": "refuted", "backend": "z3", "seconds": dt, "model": s.model()}
    reason = s.reason_unknown()
    if z3.is_false(z3.simplify(goal)):
        # the goal is a frame/structure fact the engine evaluated to False on this path; the solver could not show the
        # path infeasible, so the obligation fails (no model: quantified hypotheses)
        return {"status": "refuted", "backend": "z3", "seconds": dt, "model": None,
                "reason": "engine-evaluated clause is false on a path the solver cannot prove infeasible"}
    if not prefer_ematch:
        # second configuration of the same solver: E-matching only (default auto-configuration can diverge in
        # model-based instantiation on list-building invariants that pure E-matching closes at once)
        t1 = time.time()
        s2, r2 = _z3_check(hyps, goal, min(timeout_ms, 5000), seed, EMATCH)
        if r2 == z3.unsat:
            return {"status": "discharged", "backend": "z3", "seconds": dt + time.time() - t1, "model": None}
    if use_cvc5:
        try:
            smt2 = s.to_smt2().replace("(check-sat)", "")
            t1 = time.time()
            ans, msg = _cvc5_check(smt2, min(10.0, max(5.0, timeout_ms / 1000.0)))
            dt2 = time.time() - t1
            if ans == "unsat":
                return {"status": "discharged", "backend": "cvc5", "seconds": dt + dt2, "model": None}
            if ans == "sat":
                return {"status": "refuted", "backend": "cvc5", "seconds": dt + dt2, "model": None,
                        "note": "cvc5 sat (no model extracted)"}
            reason += f" ; cvc5: {ans} {msg}"
        except Exception as e:   # never let the fallback crash the run
            reason += f" ; cvc5 failed: {e}"
    return {"status": "unknown", "backend": "z3+cvc5" if use_cvc5 else "z3", "seconds": time.time() - t0,
            "model": None, "reason": reason}


def discharge(ob, timeout_ms=10000, use_cvc5=True, prefer_ematch=False):
    """solve one Obligation (conjuncts separately); returns result dict with 'name'"""
    parts = split_conj(ob.goal)
    total = 0.0
    backends = set()
    for g in parts:
        if z3.is_true(z3.simplify(g)):
            continue
        r = solve_one(ob.hyps, g, timeout_ms, use_cvc5, prefer_ematch=prefer_ematch or bool(ob.info.get("prefer_ematch")))
        total += r["seconds"]
        backends.add(r["backend"])
        if r["status"] != "discharged":
            r["name"] = ob.name
            r["seconds"] = total
            r["goal"] = g
            return r
    return {"name": ob.name, "status": "discharged", "backend": "+".join(sorted(backends)) or "simplify",
            "seconds": total, "model": None}


# ---------------------------------------------------------------------------- bounded-quantifier expansion
# In bounded (concrete-structured) mode every index range is a literal range; expanding such quantifiers makes the
# formulas quantifier-free, so z3 returns models (replayable counterexamples) instead of `unknown`.

def _lit(t):
    s = z3.simplify(t)
    return s.as_long() if z3.is_int_value(s) else None


def _bounds_of(ante, consts):
    lo, hi = {}, {}
    conj = split_conj(ante) if z3.is_and(ante) else [ante]
    ids = {c.get_id(): i for i, c in enumerate(consts)}
    for a in conj:
        if not z3.is_app(a) or a.num_args() != 2:
            continue
        k = a.decl().kind()
        x, y = a.arg(0), a.arg(1)
        xi, yi = ids.get(x.get_id()), ids.get(y.get_id())
        if k == z3.Z3_OP_LE:      # x <= y
            if yi is not None and _lit(x) is not None:
                lo[yi] = max(lo.get(yi, -10 ** 9), _lit(x))
            if xi is not None and _lit(y) is not None:
                hi[xi] = min(hi.get(xi, 10 ** 9), _lit(y) + 1)
        elif k == z3.Z3_OP_GE:    # x >= y
            if xi is not None and _lit(y) is not None:
                lo[xi] = max(lo.get(xi, -10 ** 9), _lit(y))
            if yi is not None and _lit(x) is not None:
                hi[yi] = min(hi.get(yi, 10 ** 9), _lit(x) + 1)
        elif k == z3.Z3_OP_LT:    # x < y
            if xi is not None and _lit(y) is not None:
                hi[xi] = min(hi.get(xi, 10 ** 9), _lit(y))
            if yi is not None and _lit(x) is not None:
                lo[yi] = max(lo.get(yi, -10 ** 9), _lit(x) + 1)
        elif k == z3.Z3_OP_GT:    # x > y
            if xi is not None and _lit(y) is not None:
                lo[xi] = max(lo.get(xi, -10 ** 9), _lit(y) + 1)
            if yi is not None and _lit(x) is not None:
                hi[yi] = min(hi.get(yi, 10 ** 9), _lit(x))
    return lo, hi


_EXP_N = [0]


def expand_quantifiers(t, limit=4000):
    """expand ForAll/Exists whose bound variables all range over literal integer intervals"""
    import itertools
    if not z3.is_expr(t):
        return t
    if z3.is_quantifier(t) and not t.is_lambda():
        n = t.num_vars()
        if all(t.var_sort(i) == z3.IntSort() for i in range(n)):
            _EXP_N[0] += 1
            consts = [z3.Int(f"_xq{_EXP_N[0]}_{i}") for i in range(n)]
            body = z3.substitute_vars(t.body(), *reversed(consts))
            if t.is_forall() and z3.is_implies(body):
                ante, cons = body.arg(0), body.arg(1)
            elif t.is_exists() and z3.is_and(body):
                ante, cons = body, body
            else:
                ante, cons = None, body
            if ante is not None:
                lo, hi = _bounds_of(ante, consts)
                if all(i in lo and i in hi for i in range(n)):
                    ranges = [range(lo[i], hi[i]) for i in range(n)]
                    size = 1
                    for r in ranges:
                        size *= max(len(r), 0)
                    if size <= limit:
                        insts = []
                        for vals in itertools.product(*ranges):
                            sub = [(c, z3.IntVal(v)) for c, v in zip(consts, vals)]
                            insts.append(expand_quantifiers(z3.simplify(z3.substitute(body, *sub)), limit))
                        if t.is_forall():
                            return z3.And(*insts) if insts else z3.BoolVal(True)
                        return z3.Or(*insts) if insts else z3.BoolVal(False)
        return t
    if z3.is_app(t) and t.num_args() > 0 and t.sort() == z3.BoolSort():
        k = t.decl().kind()
        if k in (z3.Z3_OP_AND, z3.Z3_OP_OR, z3.Z3_OP_NOT, z3.Z3_OP_IMPLIES, z3.Z3_OP_ITE, z3.Z3_OP_EQ, z3.Z3_OP_IFF):
            args = [expand_quantifiers(a, limit) if a.sort() == z3.BoolSort() else a for a in t.children()]
            if any(x is not y for x, y in zip(args, t.children())):
                return t.decl()(*args)
    return t
