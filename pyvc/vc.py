"""pyvc.vc -- discharge obligations: z3 first, cvc5 on z3's `unknown`."""
import os
import subprocess
import tempfile
import time
import z3

CVC5 = "/usr/bin/cvc5"


def split_conj(goal):
    if z3.is_and(goal):
        out = []
        for ch in goal.children():
            out.extend(split_conj(ch))
        return out
    return [goal]


def _cvc5_check(smt2, timeout_s):
    if not os.path.exists(CVC5):
        return "unknown", "cvc5 missing"
    with tempfile.NamedTemporaryFile("w", suffix=".smt2", delete=False) as f:
        f.write("(set-logic ALL)\n")
        f.write(smt2)
        f.write("\n(check-sat)\n")
        path = f.name
    try:
        p = subprocess.run([CVC5, "--lang", "smt2", f"--tlimit={int(timeout_s * 1000)}", "--arrays-exp", path],
                           stdout=subprocess.PIPE, stderr=subprocess.PIPE, text=True, timeout=timeout_s + 5)
        out = p.stdout.strip().splitlines()
        ans = out[0].strip() if out else "unknown"
        if ans not in ("sat", "unsat", "unknown"):
            return "unknown", (p.stdout + p.stderr)[:300]
        return ans, ""
    except subprocess.TimeoutExpired:
        return "unknown", "timeout"
    finally:
        os.unlink(path)


def solve_one(hyps, goal, timeout_ms=10000, use_cvc5=True, seed=0):
    """returns dict(status= discharged|refuted|unknown, backend, seconds, model)"""
    t0 = time.time()
    s = z3.Solver()
    s.set("timeout", timeout_ms)
    s.set("random_seed", seed)
    for h in hyps:
        s.add(h)
    s.add(z3.Not(goal))
    r = s.check()
    dt = time.time() - t0
    if r == z3.unsat:
        return {"status": "discharged", "backend": "z3", "seconds": dt, "model": None}
    if r == z3.sat:
        return {"status": "refuted", "backend": "z3", "seconds": dt, "model": s.model()}
    reason = s.reason_unknown()
    if use_cvc5:
        try:
            smt2 = s.to_smt2().replace("(check-sat)", "")
            t1 = time.time()
            ans, msg = _cvc5_check(smt2, min(10.0, max(5.0, timeout_ms / 1000.0)))
            dt2 = time.time() - t1
            if ans == "unsat":
                return {"status": "discharged", "backend": "cvc5", "seconds": dt + dt2, "model": None}
            if ans == "sat":
                return {"status": "refuted", "backend": "cvc5", "seconds": dt + dt2, "model": None,
                        "note": "cvc5 sat (no model extracted)"}
            reason += f" ; cvc5: {ans} {msg}"
        except Exception as e:   # never let the fallback crash the run
            reason += f" ; cvc5 failed: {e}"
    return {"status": "unknown", "backend": "z3+cvc5" if use_cvc5 else "z3", "seconds": time.time() - t0,
            "model": None, "reason": reason}


def discharge(ob, timeout_ms=10000, use_cvc5=True):
    """solve one Obligation (conjuncts separately); returns result dict with 'name'"""
    parts = split_conj(ob.goal)
    total = 0.0
    backends = set()
    for g in parts:
        if z3.is_true(z3.simplify(g)):
            continue
        r = solve_one(ob.hyps, g, timeout_ms, use_cvc5)
        total += r["seconds"]
        backends.add(r["backend"])
        if r["status"] != "discharged":
            r["name"] = ob.name
            r["seconds"] = total
            r["goal"] = g
            return r
    return {"name": ob.name, "status": "discharged", "backend": "+".join(sorted(backends)) or "simplify",
            "seconds": total, "model": None}
