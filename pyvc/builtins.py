"""pyvc.builtins -- assumed contracts of Python builtins, NumPy, Gymnasium, math used by NASim.

Everything in this file is part of the TRUSTED BASE (DESIGN.md section 3.4): these are models
of dependencies, not verified code.
"""
import ast
import math
import z3

from .values import (SymV, Opaque, AbsVal, Obj, ClassRef, ExtClass, FuncRef, BoundMethod, ExtFunc, ModRef,
                     PyList, PyDict, PySet, SymSeq, SymDict, SymColl, SDict, NestedSDict, NestedInner, RecDict, NpCell, NpArr, NpSlice, SliceV, NameK, TypeOfSym,
                     EngineLimit, is_sym, ival, rval, bval, nameval, mk, kind_of, intern_name, NONE_ID, A1, A2,
                     ite_value, seq_concat)

EXT_SUBMODULES = {"numpy.random", "os.path", "gymnasium.spaces", "gym.spaces", "yaml"}

# run-time type tags for scalars where isinstance() matters (C10)
INF_SYMBOL = None     # when set (z3 Real), math.inf is modelled by this symbol (see contracts.c_action.inf_setup)
TAG_INT, TAG_BOOL, TAG_FLOAT, TAG_NPINT, TAG_NPFLOAT, TAG_STR = 1, 2, 3, 4, 5, 6


def ext_attr(modname, attr):
    dotted = modname + "." + attr
    if dotted in EXT_SUBMODULES:
        return ModRef(dotted)
    if dotted == "math.inf":
        if INF_SYMBOL is not None:
            return SymV(INF_SYMBOL, "real")
        return math.inf
    if dotted == "math.pi":
        return math.pi
    if dotted in ("gymnasium.Env", "gymnasium.spaces.Discrete", "gymnasium.spaces.MultiDiscrete",
                  "gymnasium.spaces.Box", "enum.IntEnum", "enum.Enum", "numpy.ndarray",
                  "numpy.integer", "numpy.floating", "numpy.int_", "numpy.int64", "numpy.int32", "numpy.int16",
                  "numpy.int8", "numpy.uint8", "numpy.intc", "numpy.signedinteger"):
        return ExtClass(dotted)
    if modname == "gymnasium" and attr == "spaces":
        return ModRef("gymnasium.spaces")
    if modname in ("gymnasium", "numpy", "math", "enum", "os", "yaml", "pprint", "queue", "itertools",
                   "numpy.random", "os.path", "gymnasium.spaces", "networkx", "matplotlib"):
        return ExtFunc(dotted)
    return ExtFunc(dotted)


_EXT_CLASS_MEMBERS = {
    "gymnasium.Env": {"reset", "__init__", "close", "np_random"},
    "gymnasium.spaces.Discrete": {"__init__", "sample", "contains"},
    "gymnasium.spaces.MultiDiscrete": {"__init__", "sample", "contains"},
    "enum.IntEnum": set(),
}


def ext_class_has(cname, member):
    return member in _EXT_CLASS_MEMBERS.get(cname, set())


def check_hashable_concrete(k):
    if isinstance(k, (str, int, float, bool, NameK)) or k is None:
        return
    if isinstance(k, tuple):
        for x in k:
            check_hashable_concrete(x)
        return
    if isinstance(k, (ClassRef, ExtClass)):
        return
    raise EngineLimit(f"dict key {k!r} is not concrete")


def bval_eq(I, a, b):
    t = _eq_term(I, a, b)
    return z3.BoolVal(t) if isinstance(t, bool) else t


def bool_and(a, b):
    if isinstance(a, bool):
        return b if a else False
    if isinstance(b, bool):
        return a if b else False
    return mk(z3.And(bval(a), bval(b)), "bool")


# ---------------------------------------------------------------------------- arithmetic

def _num_kind(a, b):
    ka, kb = kind_of(a), kind_of(b)
    if ka in ("int", "bool") and kb in ("int", "bool"):
        return "int"
    if ka in ("int", "bool", "real") and kb in ("int", "bool", "real"):
        return "real"
    return None


def binop(I, op, a, b, node=None):
    # concrete fast path
    if not is_sym(a) and not is_sym(b) and isinstance(a, (int, float, str, tuple, bool)) \
            and isinstance(b, (int, float, str, tuple, bool)):
        try:
            if isinstance(op, ast.Add):
                return a + b
            if isinstance(op, ast.Sub):
                return a - b
            if isinstance(op, ast.Mult):
                return a * b
            if isinstance(op, ast.Div):
                return a / b
            if isinstance(op, ast.FloorDiv):
                return a // b
            if isinstance(op, ast.Mod):
                return a % b
            if isinstance(op, ast.Pow):
                return a ** b
        except ZeroDivisionError:
            I.raise_("ZeroDivisionError", node)
        except TypeError:
            I.raise_("TypeError", node)
    if isinstance(a, PyList) and isinstance(op, ast.Add) and isinstance(b, PyList):
        return PyList(a.items + b.items)
    if isinstance(a, PyList) and isinstance(op, ast.Mult) and isinstance(b, int):
        return PyList(a.items * b)
    if isinstance(a, PyList) and isinstance(op, ast.Mult) and isinstance(b, SymV) and b.ty == "int" and len(a.items) == 1:
        x = a.items[0]
        n = z3.simplify(z3.If(b.t < 0, 0, b.t))
        return SymSeq(n, lambda i, x=x: x, "list", True, mutable=True)
    if isinstance(a, PyList) and isinstance(op, ast.Add) and isinstance(b, SymSeq):
        return seq_concat(list(a.items), b)
    if isinstance(a, SymSeq) and isinstance(op, ast.Add) and isinstance(b, PyList) and a.label != "tuple":
        na, tail = a.n if not isinstance(a.n, int) else z3.IntVal(a.n), list(b.items)

        def elem(i, a=a, na=na, tail=tail):
            cur = tail[-1] if tail else None
            for j in range(len(tail) - 2, -1, -1):
                cur = ite_value(ival(i) == na + j, tail[j], cur)
            return ite_value(ival(i) < na, a.elem(i), cur) if tail else a.elem(i)
        return SymSeq(z3.simplify(na + len(tail)), elem, "list", True, mutable=True)
    if isinstance(op, ast.Add) and (isinstance(a, SymV) and a.ty == "name" or isinstance(b, SymV) and b.ty == "name") \
            and kind_of(a) == "name" and kind_of(b) == "name" and a is not None and b is not None:
        # string concatenation with a symbolic part: ASSUMED to be a function of the two strings (STR_CONCAT)
        return SymV(STR_CONCAT(nameval(a), nameval(b)), "name")
    if isinstance(a, float) and math.isinf(a) or isinstance(b, float) and math.isinf(b):
        raise EngineLimit("arithmetic with inf")
    k = _num_kind(a, b)
    if k is None:
        raise EngineLimit(f"binop {type(op).__name__} on {a!r}, {b!r}")
    if isinstance(op, (ast.Add, ast.Sub, ast.Mult)):
        x, y = (ival(a), ival(b)) if k == "int" else (rval(a), rval(b))
        if isinstance(op, ast.Add):
            return mk(x + y, k)
        if isinstance(op, ast.Sub):
            return mk(x - y, k)
        return mk(x * y, k)
    if isinstance(op, ast.Div):
        x, y = rval(a), rval(b)
        if I.ctx.branch(y == 0):
            I.raise_("ZeroDivisionError", node)
        return mk(x / y, "real")
    if isinstance(op, (ast.FloorDiv, ast.Mod)):
        if k != "int":
            raise EngineLimit("floor division / modulo on reals")
        x, y = ival(a), ival(b)
        if I.ctx.branch(y == 0):
            I.raise_("ZeroDivisionError", node)
        if not I.ctx.branch(y > 0):
            # the quantifier-free pruning could not exclude a negative divisor: ask the full solver
            from . import vc
            r = vc.solve_one(I.ctx.hyps()[:-1], y > 0, 5000, use_cvc5=False)
            if r["status"] != "discharged":
                raise EngineLimit("floor division / modulo by a possibly negative divisor")
            raise __import__("pyvc.interp", fromlist=["PathEnd"]).PathEnd()
        # python // and % agree with SMT-LIB div/mod for positive divisors
        return mk(x / y if isinstance(op, ast.FloorDiv) else x % y, "int")
    raise EngineLimit(f"binop {type(op).__name__}")


def _eq_term(I, a, b):
    """z3 Bool / python bool for a == b"""
    if isinstance(a, tuple) and isinstance(b, tuple):
        if len(a) != len(b):
            return False
        parts = [_eq_term(I, x, y) for x, y in zip(a, b)]
        if any(p is False for p in parts):
            return False
        ts = [p for p in parts if p is not True]
        if not ts:
            return True
        return z3.And(*ts) if len(ts) > 1 else ts[0]
    if isinstance(a, tuple) or isinstance(b, tuple):
        other = b if isinstance(a, tuple) else a
        if isinstance(other, (SymV, int, float, str)) or other is None:
            return False
        raise EngineLimit(f"== between {a!r} and {b!r}")
    if (isinstance(a, (SymSeq, PyList, PyDict, SymDict)) and isinstance(b, (str, int, float))) or \
       (isinstance(b, (SymSeq, PyList, PyDict, SymDict)) and isinstance(a, (str, int, float))):
        return False
    ka, kb = kind_of(a), kind_of(b)
    if ka is None or kb is None:
        if isinstance(a, (ClassRef, ExtClass)) and isinstance(b, (ClassRef, ExtClass)):
            return a == b
        if isinstance(a, AbsVal) and isinstance(b, AbsVal):
            return a.t == b.t
        if a is b:
            return True
        if isinstance(a, Obj) and isinstance(b, Obj):
            mem = I.find_member(a.cls, "__eq__")
            if mem and mem[0] == "func":
                r = I.call_function(mem[1], [a, b], {})
                t = I.truth_term(r)
                return t
            return False
        if (a is None) != (b is None) and (isinstance(a, (Obj, PyList, PyDict)) or isinstance(b, (Obj, PyList, PyDict))):
            return False
        raise EngineLimit(f"== between {a!r} and {b!r}")
    if not is_sym(a) and not is_sym(b):
        if isinstance(a, NameK) != isinstance(b, NameK) and not (a is None or b is None):
            # int-coded scenario name against a python literal: names are str, never equal to numbers;
            # against an interned literal string they differ (codes are disjoint)
            return False
        return a == b
    if ka == "name" or kb == "name":
        if ka == "name" and kb == "name":
            return nameval(a) == nameval(b)
        # name vs number : symbolic names are always str/None
        if (ka == "name" and kb in ("int", "real", "bool")) or (kb == "name" and ka in ("int", "real", "bool")):
            return False
    k = _num_kind(a, b)
    if k == "int":
        return ival(a) == ival(b)
    if k == "real":
        return rval(a) == rval(b)
    raise EngineLimit(f"== between {a!r} and {b!r}")


_TYPE_TAGS = {"builtins.int": TAG_INT, "builtins.bool": TAG_BOOL, "builtins.float": TAG_FLOAT, "builtins.str": TAG_STR}


def compare(I, op, a, b, node=None):
    if isinstance(a, TypeOfSym) or isinstance(b, TypeOfSym):
        if isinstance(op, (ast.Is, ast.IsNot, ast.Eq, ast.NotEq)):
            ts, other = (a, b) if isinstance(a, TypeOfSym) else (b, a)
            if isinstance(other, ExtClass):
                tg = _TYPE_TAGS.get(other.name)
                t = (ts.tag == tg) if tg is not None else z3.BoolVal(False)
                pos = isinstance(op, (ast.Is, ast.Eq))
                return mk(t if pos else z3.Not(t), "bool")
        raise EngineLimit("comparison of a symbolic type")
    if isinstance(op, (ast.Eq, ast.NotEq)):
        t = _eq_term(I, a, b)
        if isinstance(t, bool):
            return t if isinstance(op, ast.Eq) else (not t)
        return mk(t if isinstance(op, ast.Eq) else z3.Not(t), "bool")
    if isinstance(op, (ast.Is, ast.IsNot)):
        if b is None or a is None:
            x = a if b is None else b
            if isinstance(x, SymV):
                if x.ty == "name":
                    t = x.t == NONE_ID
                    return mk(t if isinstance(op, ast.Is) else z3.Not(t), "bool")
                r = False
            else:
                r = x is None
            return r if isinstance(op, ast.Is) else (not r)
        if isinstance(a, (ClassRef, ExtClass)) and isinstance(b, (ClassRef, ExtClass)):
            r = (a == b)
            return r if isinstance(op, ast.Is) else (not r)
        if isinstance(a, bool) and isinstance(b, bool):
            r = a is b
            return r if isinstance(op, ast.Is) else (not r)
        if isinstance(a, (Obj, PyList, PyDict, NpArr)) or isinstance(b, (Obj, PyList, PyDict, NpArr)):
            r = a is b
            return r if isinstance(op, ast.Is) else (not r)
        if isinstance(a, tuple) and isinstance(b, tuple):
            # identity of tuple objects is not tracked: unequal tuples are distinct objects; for equal ones the
            # answer is an unconstrained boolean (python gives no guarantee either way)
            t = _eq_term(I, a, b)
            if t is False:
                r = False
                return r if isinstance(op, ast.Is) else (not r)
            ident = I.ctx.fresh("tuple_is", z3.BoolSort())
            if t is not True:
                I.ctx.assume(z3.Implies(ident, t))
            return mk(ident if isinstance(op, ast.Is) else z3.Not(ident), "bool")
        raise EngineLimit(f"'is' between {a!r} and {b!r}")
    if isinstance(op, (ast.In, ast.NotIn)):
        t = contains(I, b, a, node)
        if isinstance(t, bool):
            return t if isinstance(op, ast.In) else (not t)
        return mk(t if isinstance(op, ast.In) else z3.Not(t), "bool")
    # ordering
    if isinstance(a, PySet) and isinstance(b, PySet):
        if a.sym or b.sym:
            raise EngineLimit("ordering of sets with abstract parts")
        ina = [contains(I, b, x, node) for x in a.items]
        inb = [contains(I, a, x, node) for x in b.items]
        if any(not isinstance(t, bool) for t in ina + inb):
            raise EngineLimit("subset test over symbolic set elements")
        sub, sup = all(ina), all(inb)
        return {ast.LtE: sub, ast.Lt: sub and not sup, ast.GtE: sup, ast.Gt: sup and not sub}[type(op)]
    if not is_sym(a) and not is_sym(b) and not (isinstance(a, (int, float, str, tuple, bool)) and
                                                   isinstance(b, (int, float, str, tuple, bool))):
        raise EngineLimit(f"ordering between {type(a).__name__} and {type(b).__name__}")
    if not is_sym(a) and not is_sym(b):
        try:
            if isinstance(op, ast.Lt):
                return a < b
            if isinstance(op, ast.LtE):
                return a <= b
            if isinstance(op, ast.Gt):
                return a > b
            if isinstance(op, ast.GtE):
                return a >= b
        except TypeError:
            I.raise_("TypeError", node)
    for v in (a, b):
        if isinstance(v, float) and math.isinf(v):
            # comparisons with +-inf are decided without the solver
            other = b if v is a else a
            pos = v > 0
            if v is a:
                res = {ast.Lt: not pos, ast.LtE: not pos, ast.Gt: pos, ast.GtE: pos}[type(op)]
            else:
                res = {ast.Lt: pos, ast.LtE: pos, ast.Gt: not pos, ast.GtE: not pos}[type(op)]
            return res
    k = _num_kind(a, b)
    if k is None:
        raise EngineLimit(f"ordering between {a!r} and {b!r}")
    x, y = (ival(a), ival(b)) if k == "int" else (rval(a), rval(b))
    t = {ast.Lt: x < y, ast.LtE: x <= y, ast.Gt: x > y, ast.GtE: x >= y}[type(op)]
    return mk(t, "bool")


def contains(I, coll, x, node=None):
    if isinstance(coll, PyList) and getattr(coll, "sym_view", None) is not None:
        return contains(I, coll.sym_view, x, node)
    """x in coll -> z3 Bool / python bool"""
    if isinstance(coll, SymColl):
        return coll.contains(x)
    if isinstance(coll, PySet) and coll.sym:
        parts = [contains(I, PySet(list(coll.items)), x, node)] + [c.contains(x) for c in coll.sym]
        parts = [p_ for p_ in parts if p_ is not False]
        if any(p_ is True for p_ in parts):
            return True
        return z3.Or(*parts) if parts else False
    if isinstance(coll, (PyList, tuple, PySet)):
        items = coll.items if not isinstance(coll, tuple) else list(coll)
        ts = []
        for it in items:
            t = _eq_term(I, x, it)
            if t is True:
                return True
            if t is not False:
                ts.append(t)
        if not ts:
            return False
        return z3.Or(*ts) if len(ts) > 1 else ts[0]
    if isinstance(coll, PyDict):
        return contains(I, PyList(list(coll.d.keys()) + [e[0] for e in coll.sym]), x, node)
    if isinstance(coll, SymDict):
        return coll.dom(x)
    if isinstance(coll, SDict):
        return z3.Select(coll.dom, *key_terms(x, coll.arity))
    if isinstance(coll, RecDict):
        return z3.Select(coll.dom, nameval(x))
    if isinstance(coll, NestedSDict):
        return z3.Select(coll.dom1, nameval(x))
    if isinstance(coll, NestedInner):
        return z3.Select(z3.Select(coll.parent.dom2, coll.k1), nameval(x))
    if isinstance(coll, SymSeq):
        n = coll.concrete_len()
        if n is not None:
            return contains(I, PyList([coll.elem(i) for i in range(n)]), x, node)
        j = I.ctx.fresh("j_in", z3.IntSort())
        t = _eq_term(I, x, coll.elem(j))
        if isinstance(t, bool):
            t = z3.BoolVal(t)
        return z3.Exists([j], z3.And(0 <= j, j < coll.n, t))
    if isinstance(coll, str) and isinstance(x, str):
        return x in coll
    raise EngineLimit(f"'in' on {coll!r}")


def key_terms(key, arity):
    if arity == 1:
        if isinstance(key, tuple):
            raise EngineLimit("tuple key for arity-1 sdict")
        return [nameval(key) if kind_of(key) == "name" else ival(key)]
    if not isinstance(key, tuple) or len(key) != arity:
        raise EngineLimit(f"key {key!r} for arity {arity}")
    return [ival(k) for k in key]


# ---------------------------------------------------------------------------- subscripts

def _index_1d(I, idx, length, node):
    """normalise a python index against `length`; forks for negative / out of range"""
    if isinstance(idx, bool):
        idx = int(idx)
    if isinstance(idx, int) and isinstance(length, int):
        if -length <= idx < length:
            return idx % length if idx < 0 else idx
        I.raise_("IndexError", node)
    i = ival(idx)
    n = ival(length)
    if I.ctx.branch(z3.And(0 <= i, i < n)):
        return idx if isinstance(idx, int) else i
    if I.ctx.branch(z3.And(-n <= i, i < 0)):
        return i + n
    I.raise_("IndexError", node)


def _as_index(v):
    if isinstance(v, SymV):
        if v.ty in ("int", "bool"):
            return v
        if v.ty == "real":
            raise EngineLimit("real-valued index")
    return v


def getitem(I, obj, key, node=None):
    if isinstance(obj, PyList) and getattr(obj, "sym_view", None) is not None:
        return getitem(I, obj.sym_view, key, node)
    if isinstance(obj, tuple) or isinstance(obj, PyList):
        items = list(obj) if isinstance(obj, tuple) else obj.items
        if isinstance(key, SliceV):
            if any(is_sym(x) for x in (key.lo, key.hi, key.step)):
                raise EngineLimit("symbolic slice of list")
            r = items[slice(key.lo, key.hi, key.step)]
            return tuple(r) if isinstance(obj, tuple) else PyList(r)
        key = _as_index(key)
        if is_sym(key):
            # symbolic index into a concrete list: fork over positions
            n = len(items)
            i = ival(key)
            for j in range(n):
                if I.ctx.branch(z3.Or(i == j, i == j - n)):
                    return items[j]
            I.raise_("IndexError", node)
        if not isinstance(key, int):
            I.raise_("TypeError", node)
        j = _index_1d(I, key, len(items), node)
        return items[j]
    if isinstance(obj, PyDict):
        if obj.sym or is_sym(key) or (isinstance(key, tuple) and any(is_sym(k) for k in key)):
            for k in obj.d:
                t = _eq_term(I, key, k)
                if t is True or (t is not False and I.ctx.branch(t)):
                    return obj.d[k]
            for ent in obj.sym:
                t = _eq_term(I, key, ent[0])
                if t is True or (t is not False and I.ctx.branch(t)):
                    return ent[1]
            I.raise_("KeyError", node)
        check_hashable_concrete(key)
        if key not in obj.d:
            I.raise_("KeyError", node)
        return obj.d[key]
    if isinstance(obj, SymSeq):
        if isinstance(key, SliceV):
            lo = 0 if key.lo is None else key.lo
            if key.step is not None:
                raise EngineLimit("stepped slice")
            if key.hi is None:
                hi = obj.n
            else:
                hi = key.hi
            if any(isinstance(x, (int,)) and x < 0 for x in (lo, hi) if isinstance(x, int)):
                raise EngineLimit("negative slice bounds on symbolic sequence")
            # assume lo <= hi <= n for slices used by nasim ([1:])
            lo_t = lo if isinstance(lo, int) else ival(lo)
            n_new = (hi - lo) if isinstance(hi, int) and isinstance(lo, int) else (ival(hi) - ival(lo))
            if isinstance(n_new, int):
                pass
            else:
                n_new = z3.simplify(z3.If(n_new < 0, 0, n_new))
            base = obj
            return SymSeq(n_new, lambda i, base=base, lo=lo: base.elem((i + lo) if isinstance(i, int) and isinstance(lo, int)
                                                                  else ival(i) + ival(lo)), obj.label + "[s]")
        key = _as_index(key)
        j = _index_1d(I, key, obj.n, node)
        return obj.elem(j)
    if isinstance(obj, SymDict):
        d = obj.dom(key)
        if isinstance(d, bool):
            if not d:
                I.raise_("KeyError", node)
        elif not I.ctx.branch(d):
            I.raise_("KeyError", node)
        return obj.get(key)
    if isinstance(obj, SDict):
        ks = key_terms(key, obj.arity)
        if not I.ctx.branch(z3.Select(obj.dom, *ks)):
            I.raise_("KeyError", node)
        return mk(z3.Select(obj.val, *ks), obj.vkind)
    if isinstance(obj, NestedSDict):
        k1 = nameval(key)
        if not I.ctx.branch(z3.Select(obj.dom1, k1)):
            I.raise_("KeyError", node)
        return NestedInner(obj, k1)
    if isinstance(obj, NestedInner):
        k2 = nameval(key)
        p = obj.parent
        if not I.ctx.branch(z3.Select(z3.Select(p.dom2, obj.k1), k2)):
            I.raise_("KeyError", node)
        return PyDict({f: mk(z3.Select(z3.Select(arr, obj.k1), k2), kind) for f, (arr, kind) in p.cols.items()}, fresh=False)
    if isinstance(obj, NpArr):
        return np_getitem(I, obj, key, node)
    if isinstance(obj, NpSlice):
        if isinstance(key, SliceV) and key.lo is None and key.hi is None:
            return obj
        raise EngineLimit("index into slice view")
    if isinstance(obj, str):
        if isinstance(key, int):
            try:
                return obj[key]
            except IndexError:
                I.raise_("IndexError", node)
    raise EngineLimit(f"subscript load on {obj!r}")


def np_getitem(I, arr, key, node=None):
    if arr.ndim == 1:
        if isinstance(key, SliceV):
            lo = 0 if key.lo is None else key.lo
            hi = arr.shape[0] if key.hi is None else key.hi
            if key.step is not None:
                raise EngineLimit("stepped numpy slice")
            return NpSlice(arr, lo, hi)
        key = _as_index(key)
        j = _index_1d(I, key, arr.shape[0], node)
        return mk(z3.Select(arr.content(), ival(j)), "real")
    if arr.ndim == 2:
        if isinstance(key, SliceV):
            raise EngineLimit("2-D slice load")
        if isinstance(key, tuple):
            r, c = key
            return np_getitem(I, np_getitem(I, arr, r, node), c, node)
        key = _as_index(key)
        j = _index_1d(I, key, arr.shape[0], node)
        if arr.row is not None:
            raise EngineLimit("3-D")
        return NpArr(arr.cell, ival(j))
    raise EngineLimit("ndim")


def setitem(I, obj, key, v, node=None):
    if isinstance(obj, PyList):
        if not obj.fresh:
            I.ctx.writes.append(("list", obj))
        key = _as_index(key)
        if is_sym(key):
            n = len(obj.items)
            i = ival(key)
            for j in range(n):
                if I.ctx.branch(z3.Or(i == j, i == j - n)):
                    obj.items[j] = v
                    return
            I.raise_("IndexError", node)
        j = _index_1d(I, key, len(obj.items), node)
        obj.items[j] = v
        return
    if isinstance(obj, PyDict):
        if is_sym(key) or (isinstance(key, tuple) and any(is_sym(k) for k in key)):
            if not obj.fresh:
                I.ctx.writes.append(("dict", obj))
            if isinstance(key, tuple) and all(kind_of(k) in ("int", "name") for k in key):
                # a symbolic tuple key: overwrite the entry it equals (decided by forking), else a new entry
                for k in obj.d:
                    t = _eq_term(I, key, k)
                    if t is True or (t is not False and I.ctx.branch(t)):
                        obj.d[k] = v
                        return
                for ent in obj.sym:
                    t = _eq_term(I, key, ent[0])
                    if t is True or (t is not False and I.ctx.branch(t)):
                        ent[1] = v
                        return
                obj.sym.append([key, v])
                return
            raise EngineLimit("symbolic key stored into a concrete dict")
        check_hashable_concrete(key)
        if not obj.fresh:
            I.ctx.writes.append(("dict", obj))
        obj.d[key] = v
        return
    if isinstance(obj, NestedSDict):
        # parent[k1] = {}   (only an empty inner dict can be stored: that is how the nested maps are built)
        if not (isinstance(v, PyDict) and not v.d and not v.sym):
            raise EngineLimit("store of a non-empty dict into a symbolic nested dict")
        if not obj.fresh:
            I.ctx.writes.append(("nested", obj))
        k1 = nameval(key)
        obj.dom1 = z3.Store(obj.dom1, k1, z3.BoolVal(True))
        obj.dom2 = z3.Store(obj.dom2, k1, z3.K(z3.IntSort(), z3.BoolVal(False)))
        return
    if isinstance(obj, NestedInner):
        p = obj.parent
        if not (isinstance(v, PyDict) and not v.sym and set(v.d.keys()) == set(p.cols.keys())):
            raise EngineLimit("record with other fields stored into a symbolic nested dict")
        if not p.fresh:
            I.ctx.writes.append(("nested", p))
        k1, k2 = obj.k1, nameval(key)
        conv = {"bool": bval, "int": ival, "real": rval, "name": nameval}
        p.dom2 = z3.Store(p.dom2, k1, z3.Store(z3.Select(p.dom2, k1), k2, z3.BoolVal(True)))
        for f, (arr, kind) in list(p.cols.items()):
            p.cols[f] = (z3.Store(arr, k1, z3.Store(z3.Select(arr, k1), k2, conv[kind](v.d[f]))), kind)
        return
    if isinstance(obj, RecDict):
        if not isinstance(v, PyDict) or set(v.d) != set(obj.cols) or v.sym:
            raise EngineLimit("record of another shape stored into a record dict")
        k = nameval(key)
        if not obj.fresh:
            I.ctx.writes.append(("dict", obj))
        present = z3.Select(obj.dom, k)
        obj.size = z3.simplify(z3.If(present, obj.size, obj.size + 1))
        obj.dom = z3.Store(obj.dom, k, z3.BoolVal(True))
        conv = {"name": nameval, "int": ival, "real": rval, "bool": bval}
        for f, (arr, kind) in list(obj.cols.items()):
            obj.cols[f] = (z3.Store(arr, k, conv[kind](v.d[f])), kind)
        return
    if isinstance(obj, SDict):
        ks = key_terms(key, obj.arity)
        if not obj.fresh:
            I.ctx.writes.append(("sdict", obj))
        obj.dom = z3.Store(obj.dom, *ks, z3.BoolVal(True))
        vt = {"bool": bval, "int": ival, "real": rval, "name": nameval}[obj.vkind](v)
        obj.val = z3.Store(obj.val, *ks, vt)
        return
    if isinstance(obj, NpArr):
        return np_setitem(I, obj, key, v, node)
    raise EngineLimit(f"subscript store on {obj!r}")


def _note_cell_write(I, cell):
    if not cell.fresh:
        I.ctx.writes.append(("cell", cell))


def np_setitem(I, arr, key, v, node=None):
    if arr.ndim == 1:
        if isinstance(key, SliceV):
            lo = 0 if key.lo is None else key.lo
            hi = arr.shape[0] if key.hi is None else key.hi
            old = arr.content()
            k = z3.Int("_sl_k")
            if isinstance(v, NpSlice):
                # obs[a:b] = vec[a:b]  (same bounds in nasim; general: offset copy)
                src = v.arr.content()
                off = ival(v.lo) - ival(lo)
                new = z3.Lambda([k], z3.If(z3.And(ival(lo) <= k, k < ival(hi)), z3.Select(src, k + off),
                                           z3.Select(old, k)))
            elif isinstance(v, NpArr) and v.ndim == 1:
                src = v.content()
                if key.lo is None and key.hi is None:
                    new = src
                else:
                    new = z3.Lambda([k], z3.If(z3.And(ival(lo) <= k, k < ival(hi)), z3.Select(src, k - ival(lo)),
                                               z3.Select(old, k)))
            elif kind_of(v) in ("int", "real", "bool"):
                new = z3.Lambda([k], z3.If(z3.And(ival(lo) <= k, k < ival(hi)), rval(v), z3.Select(old, k)))
            else:
                raise EngineLimit(f"slice store of {v!r}")
            _note_cell_write(I, arr.cell)
            arr.set_content(new)
            return
        key = _as_index(key)
        j = _index_1d(I, key, arr.shape[0], node)
        _note_cell_write(I, arr.cell)
        arr.set_content(z3.Store(arr.content(), ival(j), rval(v)))
        return
    if arr.ndim == 2:
        if isinstance(key, SliceV):
            # self.tensor[:aux_row] = state.tensor
            if key.lo is not None or key.step is not None:
                raise EngineLimit("2-D slice store with lower bound")
            hi = arr.shape[0] if key.hi is None else key.hi
            if not (isinstance(v, NpArr) and v.ndim == 2):
                raise EngineLimit("2-D slice store of non-array")
            old = arr.content()
            src = v.content()
            k = z3.Int("_sl_r")
            new = z3.Lambda([k], z3.If(z3.And(0 <= k, k < ival(hi)), z3.Select(src, k), z3.Select(old, k)))
            _note_cell_write(I, arr.cell)
            arr.set_content(new)
            return
        key = _as_index(key)
        j = _index_1d(I, key, arr.shape[0], node)
        if isinstance(v, NpArr) and v.ndim == 1:
            _note_cell_write(I, arr.cell)
            arr.set_content(z3.Store(arr.content(), ival(j), v.content()))
            return
        raise EngineLimit(f"row store of {v!r}")
    raise EngineLimit("ndim")


# ---------------------------------------------------------------------------- attributes of values

def value_attr(I, obj, name, node=None):
    if isinstance(obj, (PyList, PyDict, PySet, SymSeq, SymDict, SDict, str, tuple, SymColl)):
        kind = {PyList: "list", PyDict: "dict", PySet: "set", SymSeq: "list", SymDict: "dict", SDict: "dict",
                str: "str", tuple: "tuple", SymColl: "set"}[type(obj)]
        return ExtFunc(kind + "." + name, bound=obj)
    if isinstance(obj, NpArr):
        if name == "shape":
            return tuple(mk(s, "int") if z3.is_expr(s) else s for s in obj.shape)
        if name == "size":
            if obj.ndim == 1:
                s = obj.shape[0]
                return mk(s, "int") if z3.is_expr(s) else s
            raise EngineLimit("size of 2-D array")
        if name == "dtype":
            return ExtFunc("numpy." + obj.cell.dtype)
        return ExtFunc("ndarray." + name, bound=obj)
    if isinstance(obj, NpSlice):
        return ExtFunc("ndslice." + name, bound=obj)
    if isinstance(obj, ExtFunc):
        return ExtFunc(obj.name + "." + name, bound=obj.bound)
    if isinstance(obj, ExtClass):
        return ExtFunc(obj.name + "." + name)
    if isinstance(obj, SymV) and name in ("item",):
        return ExtFunc("scalar.item", bound=obj)
    if isinstance(obj, SymV) and obj.ty == "name" and name == "lower":
        return ExtFunc("str.lower", bound=obj)
    raise EngineLimit(f"attribute {name} of {obj!r}")


# ---------------------------------------------------------------------------- calls

def _len(I, v, node=None):
    if isinstance(v, (tuple, str)):
        return len(v)
    if isinstance(v, PyList):
        if getattr(v, "sym_view", None) is not None:
            return _len(I, v.sym_view)
        return len(v.items)
    if isinstance(v, PyDict):
        return len(v.d) + len(v.sym)
    if isinstance(v, PySet):
        if getattr(v, "symlen", None) is not None:
            return mk(v.symlen, "int")
        return len(v.items)
    if isinstance(v, RecDict):
        return mk(v.size, "int")
    if isinstance(v, SymSeq):
        return v.n if isinstance(v.n, int) else mk(v.n, "int")
    if isinstance(v, SymDict):
        if v.n is None:
            raise EngineLimit("len of unordered symdict")
        return v.n if isinstance(v.n, int) else mk(v.n, "int")
    if isinstance(v, NpArr):
        s = v.shape[0]
        return s if isinstance(s, int) else mk(s, "int")
    if isinstance(v, Obj):
        mem = I.find_member(v.cls, "__len__")
        if mem and mem[0] == "func":
            return I.call_function(mem[1], [v], {})
    raise EngineLimit(f"len of {v!r}")


def _isinstance(I, v, t):
    if isinstance(t, tuple):
        rs = [_isinstance(I, v, x) for x in t]
        if any(r is True for r in rs):
            return True
        ts = [r for r in rs if r is not False]
        if not ts:
            return False
        return mk(z3.Or(*[bval(x) for x in ts]), "bool")
    if t is None:
        I.raise_("TypeError")
    if isinstance(v, Obj):
        if isinstance(t, (ClassRef, ExtClass)):
            if isinstance(t, ExtClass) and t.name == "builtins.object":
                return True
            return I.subclass_of(v.cls, t)
        return False
    if isinstance(t, ClassRef):
        return False
    if not isinstance(t, ExtClass):
        raise EngineLimit(f"isinstance against {t!r}")
    n = t.name
    if isinstance(v, SymV) and v.pytag is not None:
        tag = v.pytag
        table = {"builtins.int": [TAG_INT, TAG_BOOL], "builtins.float": [TAG_FLOAT], "builtins.bool": [TAG_BOOL],
                 "builtins.str": [TAG_STR], "numpy.integer": [TAG_NPINT], "numpy.floating": [TAG_NPFLOAT]}
        if n in table:
            return mk(z3.Or(*[tag == x for x in table[n]]), "bool")
        if n in ("numpy.int_", "numpy.int64", "numpy.int32", "numpy.int16", "numpy.int8", "numpy.uint8", "numpy.intc",
                 "numpy.signedinteger"):
            # a NumPy integer scalar of unknown width: it may or may not be an instance of this particular subclass
            sub = I.ctx.fresh("np_subclass", z3.BoolSort())
            return mk(z3.And(tag == TAG_NPINT, sub), "bool")
        return False
    k = kind_of(v) if (isinstance(v, (SymV, bool, int, float, str)) or v is None) else None
    if v is None:
        return False
    if n == "builtins.int":
        return k in ("int", "bool")
    if n == "builtins.float":
        return k == "real"
    if n == "builtins.bool":
        return k == "bool"
    if n == "builtins.str":
        return k == "name"
    if n == "builtins.list":
        return isinstance(v, PyList) or (isinstance(v, SymSeq) and v.label != "tuple")
    if n == "builtins.tuple":
        return isinstance(v, tuple)
    if n == "builtins.dict":
        return isinstance(v, (PyDict, SymDict, SDict))
    if n == "builtins.set":
        return isinstance(v, PySet)
    if n == "numpy.ndarray":
        return isinstance(v, NpArr)
    if n == "builtins.object":
        return True
    if n in ("numpy.integer", "numpy.floating"):
        return False
    raise EngineLimit(f"isinstance({v!r}, {n})")


def _minmax(I, which, args):
    if len(args) == 1 and isinstance(args[0], SymSeq) and args[0].concrete_len() is None:
        # assumed contract of min/max over a non-empty sequence of ints: a bound that is attained
        seq = args[0]
        if I.ctx.branch(ival(seq.n) <= 0):
            I.raise_("ValueError")
        m = I.ctx.fresh("seq_" + which, z3.IntSort())
        j = I.ctx.fresh("mmj", z3.IntSort())
        w = I.ctx.fresh("mmw", z3.IntSort())
        cmp_ = (lambda a, b: a >= b) if which == "min" else (lambda a, b: a <= b)
        I.ctx.assume(z3.ForAll([j], z3.Implies(z3.And(0 <= j, j < ival(seq.n)), cmp_(ival(seq.elem(j)), m))))
        I.ctx.assume(z3.And(0 <= w, w < ival(seq.n), ival(seq.elem(w)) == m))
        return SymV(m, "int")
    if len(args) == 1:
        args = I.iter_concrete(args[0])
        if not args:
            I.raise_("ValueError")
    cur = args[0]
    for x in args[1:]:
        # python: min keeps the first of equal elements; result value identical in that case
        if isinstance(cur, float) and math.isinf(cur):
            take_x = (cur > 0) if which == "min" else (cur < 0)
            cur = x if take_x else cur
            continue
        if isinstance(x, float) and math.isinf(x):
            take_x = (x < 0) if which == "min" else (x > 0)
            cur = x if take_x else cur
            continue
        if not is_sym(cur) and not is_sym(x):
            cur = min(cur, x) if which == "min" else max(cur, x)
            continue
        k = _num_kind(cur, x)
        if k is None:
            raise EngineLimit("min/max of non-numbers")
        a, b = (ival(cur), ival(x)) if k == "int" else (rval(cur), rval(x))
        c = (b < a) if which == "min" else (b > a)
        cur = mk(z3.If(c, b, a), k)
    return cur


def _to_int(I, v, node=None):
    if isinstance(v, SymV):
        if v.ty in ("int",):
            return v
        if v.ty == "bool":
            return mk(ival(v), "int")
        if v.ty == "real":
            # int() truncates towards zero; nasim only converts integral floats / bools
            t = v.t
            return mk(z3.If(t >= 0, z3.ToInt(t), -z3.ToInt(-t)), "int")
        raise EngineLimit("int() of name")
    if isinstance(v, (bool, int, float)):
        return int(v)
    if isinstance(v, str):
        try:
            return int(v)
        except ValueError:
            I.raise_("ValueError", node)
    raise EngineLimit(f"int({v!r})")


def _to_float(I, v, node=None):
    if isinstance(v, str):
        try:
            f = float(v)
        except ValueError:
            I.raise_("ValueError", node)
        if math.isinf(f) and INF_SYMBOL is not None:
            return SymV(INF_SYMBOL if f > 0 else -INF_SYMBOL, "real")
        return f
    if isinstance(v, SymV):
        if v.ty in ("int", "real", "bool"):
            return mk(rval(v), "real")
        raise EngineLimit("float() of name")
    if isinstance(v, (bool, int, float)):
        return float(v)
    raise EngineLimit(f"float({v!r})")


def call_extclass(I, c, args, kwargs, node=None):
    n = c.name
    if n == "builtins.int":
        return _to_int(I, args[0], node) if args else 0
    if n == "builtins.float":
        return _to_float(I, args[0], node) if args else 0.0
    if n == "builtins.bool":
        if not args:
            return False
        t = I.truth_term(args[0])
        return t if isinstance(t, bool) else mk(t, "bool")
    if n == "builtins.str":
        v = args[0] if args else ""
        if isinstance(v, SymV) and v.ty == "name":
            # str(x) of a string is x itself; of anything else (run-time type tag not str) some other string: ASSUMED
            if v.pytag is None:
                return v
            return SymV(z3.If(v.pytag == TAG_STR, v.t, STR_OF(v.t)), "name")
        if isinstance(v, (str, int, float, bool, tuple)) or v is None:
            if isinstance(v, tuple) and any(is_sym(x) for x in v):
                if len(v) == 2 and all(kind_of(x) == "int" for x in v):
                    return addr_str(I, v[0], v[1])
                return Opaque("str(tuple)")
            if isinstance(v, tuple) and len(v) == 2 and I.ext_state.get("addr_axioms_assumed") \
                    and all(isinstance(x, int) and not isinstance(x, bool) for x in v):
                # inside a task whose document keys are symbolic address strings, the key of a literal address is the
                # same canonical term (otherwise a literal "(0, 1)" and ADDR_STR(0, 1) would be unrelated names)
                return addr_str(I, v[0], v[1])
            return str(v)
        return Opaque("str()")
    if n == "builtins.list":
        if not args:
            return PyList()
        v = args[0]
        if isinstance(v, SymSeq) and v.concrete_len() is None:
            return SymSeq(v.n, v.elem, v.label, v.order_determined)
        od = getattr(v, "order_determined", True)
        return PyList(I.iter_concrete(v), order_determined=od)
    if n == "builtins.tuple":
        return tuple(I.iter_concrete(args[0])) if args else ()
    if n == "builtins.dict":
        d = PyDict()
        if args:
            src = args[0]
            if isinstance(src, PyDict):
                d.d.update(src.d)
            else:
                for kv in I.iter_concrete(src):
                    k, v = I.unpack(kv, 2)
                    check_hashable_concrete(k)
                    d.d[k] = v
        d.d.update(kwargs)
        return d
    if n == "builtins.set":
        if not args:
            return PySet()
        if isinstance(args[0], SymSeq) and args[0].concrete_len() is None:
            seq = args[0]
            cnt = I.ctx.fresh("set_len", z3.IntSort())
            i_, j_ = z3.Int("_sd_i"), z3.Int("_sd_j")
            ei, ej = seq.elem(i_), seq.elem(j_)
            distinct = z3.ForAll([i_, j_], z3.Implies(z3.And(0 <= i_, i_ < j_, j_ < ival(seq.n)),
                                                      z3.Not(bval_eq(I, ei, ej))))
            # assumed contract of set(): 0 <= len(set(xs)) <= len(xs), equal iff xs is pairwise distinct
            I.ctx.assume(z3.And(cnt >= 0, cnt <= ival(seq.n), (cnt == ival(seq.n)) == distinct,
                                z3.Implies(ival(seq.n) > 0, cnt > 0)))
            s_ = PySet()
            s_.symlen = cnt
            return s_
        items = []
        for x in I.iter_concrete(args[0]):
            if not any(_eq_term(I, x, y) is True for y in items):
                items.append(x)
        return PySet(items)
    if n == "builtins.slice":
        a = list(args) + [None] * (3 - len(args))
        if len(args) == 1:
            return SliceV(None, a[0], None)
        return SliceV(a[0], a[1], a[2])
    if n.startswith("builtins.") and n.endswith(("Error", "Exception")):
        return Opaque("exception")
    if n == "gymnasium.spaces.Box":
        o = {"low": kwargs.get("low", args[0] if args else None), "high": kwargs.get("high", args[1] if len(args) > 1 else None),
             "shape": kwargs.get("shape"), "dtype": "float32"}
        return PyDict({"__box__": True, **o})
    raise EngineLimit(f"call of external class {n}")


def call_ext(I, f, args, kwargs, node=None):
    n = f.name
    b = f.bound
    h = _EXT.get(n)
    if h is not None:
        if n in _MAX_POS and len(args) > _MAX_POS[n]:
            raise EngineLimit(f"{n} called with {len(args)} positional arguments: only {_MAX_POS[n]} are modelled")
        if kwargs and n in _IGNORES_KW():
            extra = set(kwargs) - _KW_HARMLESS.get(n, set())
            if extra:
                # the dependency model does not look at keyword arguments: silently dropping one would be unsound
                raise EngineLimit(f"keyword argument(s) {sorted(extra)} of {n} not modelled")
        return h(I, b, args, kwargs, node)
    raise EngineLimit(f"no model for external function {n}")


# positional arguments the models look at (a further one - `size`, `start`, `order`, `key` ... - is not modelled)
_MAX_POS = {"numpy.random.randint": 2, "list.index": 1, "builtins.len": 1, "builtins.abs": 1, "builtins.all": 1,
            "builtins.any": 1, "builtins.sorted": 1, "dict.get": 2, "dict.pop": 2, "dict.setdefault": 2, "math.isclose": 2,
            "math.ceil": 1, "set.add": 1, "list.append": 1, "list.insert": 2, "str.lower": 0, "numpy.copy": 1,
            "ndarray.copy": 0, "ndarray.flatten": 0, "numpy.array_equal": 2, "numpy.float32": 1, "numpy.int64": 1,
            "numpy.random.seed": 1, "numpy.random.random_sample": 1, "builtins.hash": 1, "builtins.divmod": 2,
            "builtins.isinstance": 2, "builtins.type": 1, "builtins.enumerate": 2, "builtins.round": 2, "builtins.sum": 2,
            "list.remove": 1, "list.pop": 1, "list.clear": 0, "list.reverse": 0, "list.count": 1}
# keyword arguments that cannot change what the model states (documented per entry)
_KW_HARMLESS = {
    "builtins.print": {"end", "sep", "file", "flush"},             # output only
    "gymnasium.Env.reset": {"seed", "options"},                    # assumed contract: only touches self.np_random
    "gymnasium.spaces.Discrete.__init__": {"seed", "start"} - {"start"},
    "gymnasium.spaces.MultiDiscrete.__init__": {"seed", "dtype"},
}
_IGN = None


def _IGNORES_KW():
    """models whose body never mentions `kw` (computed once from this module's source)"""
    global _IGN
    if _IGN is None:
        import inspect
        _IGN = set()
        for name, fn in _EXT.items():
            try:
                body = inspect.getsource(fn).split(":", 1)[1]
            except Exception:
                continue
            if "kw" not in body.replace("kwargs", ""):
                _IGN.add(name)
    return _IGN


_EXT = {}


def ext(name):
    def deco(fn):
        _EXT[name] = fn
        return fn
    return deco


@ext("builtins.len")
def _m_len(I, b, a, kw, node):
    return _len(I, a[0], node)


@ext("builtins.isinstance")
def _m_isinstance(I, b, a, kw, node):
    return _isinstance(I, a[0], a[1])


@ext("builtins.min")
def _m_min(I, b, a, kw, node):
    return _minmax(I, "min", list(a))


@ext("builtins.max")
def _m_max(I, b, a, kw, node):
    return _minmax(I, "max", list(a))


@ext("builtins.abs")
def _m_abs(I, b, a, kw, node):
    v = a[0]
    if not is_sym(v):
        return abs(v)
    k = "real" if v.ty == "real" else "int"
    t = rval(v) if k == "real" else ival(v)
    return mk(z3.If(t >= 0, t, -t), k)


@ext("builtins.round")
def _m_round(I, b, a, kw, node):
    """round(x[, nd]): the result times 10**nd is an integer within 1/2 of x * 10**nd (both tie directions allowed:
    an over-approximation of banker's rounding on mathematical reals)"""
    v = a[0]
    nd = a[1] if len(a) > 1 else kw.get("ndigits")
    if nd is not None and not isinstance(nd, int):
        raise EngineLimit("round with symbolic ndigits")
    if not is_sym(v):
        return round(v) if nd is None else round(v, nd)
    if v.ty == "int" and (nd is None or nd >= 0):
        return v
    scale = 10 ** (nd or 0)
    k = I.ctx.fresh("round_k", z3.IntSort())
    x = rval(v) * scale
    I.ctx.assume(z3.And(z3.ToReal(k) - x <= z3.RealVal("1/2"), x - z3.ToReal(k) <= z3.RealVal("1/2")))
    if nd is None:
        return mk(k, "int")
    return mk(z3.ToReal(k) / scale, "real")


@ext("builtins.sum")
def _m_sum(I, b, a, kw, node):
    tot = a[1] if len(a) > 1 else 0
    for x in I.iter_concrete(a[0]):
        tot = binop(I, ast.Add(), tot, x, node)
    return tot


@ext("builtins.range")
def _m_range(I, b, a, kw, node):
    if len(a) == 1:
        lo, hi = 0, a[0]
    elif len(a) == 2:
        lo, hi = a
    else:
        raise EngineLimit("range with step")
    if not is_sym(lo) and not is_sym(hi):
        return PyList(list(range(lo, hi)))
    n = z3.simplify(z3.If(ival(hi) - ival(lo) < 0, 0, ival(hi) - ival(lo)))
    return SymSeq(n, lambda i, lo=lo: mk(ival(i) + ival(lo), "int"), "range")


@ext("builtins.enumerate")
def _m_enumerate(I, b, a, kw, node):
    seq = I.as_sequence(a[0])
    start = a[1] if len(a) > 1 else kw.get("start", 0)
    if set(kw) - {"start"}:
        raise EngineLimit(f"enumerate with keyword {sorted(kw)}")
    if isinstance(seq, list):
        if isinstance(start, int):
            return PyList([(i, x) for i, x in enumerate(seq, start)])
        return PyList([(mk(ival(start) + i, "int"), x) for i, x in enumerate(seq)])
    if isinstance(start, int) and start == 0:
        return SymSeq(seq.n, lambda i, s=seq: (mk(ival(i), "int") if not isinstance(i, int) else i, s.elem(i)),
                      "enumerate", seq.order_determined)
    return SymSeq(seq.n, lambda i, s=seq, st=start: (mk(ival(i) + ival(st), "int"), s.elem(i)),
                  "enumerate", seq.order_determined)


@ext("builtins.zip")
def _m_zip(I, b, a, kw, node):
    seqs = [I.as_sequence(x) for x in a]
    if all(isinstance(s, list) for s in seqs):
        return PyList([tuple(t) for t in zip(*seqs)])
    if kw:
        raise EngineLimit("zip with keyword arguments")
    # symbolic length: the zip of sequences is as long as the shortest of them, element i is the tuple of the i-th elements
    ss = [s if isinstance(s, SymSeq) else SymSeq(len(s), (lambda i, s=s: _pick(s, i)), "list") for s in seqs]
    n = ss[0].n if not isinstance(ss[0].n, int) else z3.IntVal(ss[0].n)
    for s_ in ss[1:]:
        m = s_.n if not isinstance(s_.n, int) else z3.IntVal(s_.n)
        n = z3.If(m < n, m, n)
    return SymSeq(z3.simplify(n), lambda i, ss=ss: tuple(s_.elem(i) for s_ in ss), "zip")


def _pick_t(row, c):
    """element c of a row given as a python list of values"""
    return _pick(row, c)


def _pick(items, i):
    """element i (a z3 Int term or python int) of a python list of values"""
    if isinstance(i, int):
        return items[i]
    cur = items[-1]
    for j in range(len(items) - 2, -1, -1):
        cur = ite_value(ival(i) == j, items[j], cur)
    return cur


def _quant_over(I, seq, forall):
    j = I.ctx.fresh("q_all" if forall else "q_any", z3.IntSort())
    t = I.truth_term(seq.elem(j))
    if isinstance(t, bool):
        t = z3.BoolVal(t)
    rng = z3.And(0 <= j, j < ival(seq.n))
    return mk(z3.ForAll([j], z3.Implies(rng, t)) if forall else z3.Exists([j], z3.And(rng, t)), "bool")


@ext("builtins.all")
def _m_all(I, b, a, kw, node):
    if isinstance(a[0], SymSeq) and a[0].concrete_len() is None:
        return _quant_over(I, a[0], True)
    ts = []
    for x in I.iter_concrete(a[0]):
        t = I.truth_term(x)
        if t is False:
            return False
        if t is not True:
            ts.append(t)
    return True if not ts else mk(z3.And(*ts), "bool")


@ext("builtins.any")
def _m_any(I, b, a, kw, node):
    if isinstance(a[0], SymSeq) and a[0].concrete_len() is None:
        return _quant_over(I, a[0], False)
    ts = []
    for x in I.iter_concrete(a[0]):
        t = I.truth_term(x)
        if t is True:
            return True
        if t is not False:
            ts.append(t)
    return False if not ts else mk(z3.Or(*ts), "bool")


@ext("builtins.type")
def _m_type(I, b, a, kw, node):
    v = a[0]
    if isinstance(v, SymV) and v.pytag is not None:
        return TypeOfSym(v.pytag)
    k = kind_of(v) if (isinstance(v, (SymV, bool, int, float, str, NameK)) or v is None) else None
    if v is None:
        return ExtClass("builtins.NoneType")
    if k is not None:
        return ExtClass({"int": "builtins.int", "bool": "builtins.bool", "real": "builtins.float",
                         "name": "builtins.str"}[k])
    if isinstance(v, (PyList,)) or (isinstance(v, SymSeq) and v.label != "tuple"):
        return ExtClass("builtins.list")
    if isinstance(v, tuple):
        return ExtClass("builtins.tuple")
    if isinstance(v, (PyDict, SymDict, SDict)):
        return ExtClass("builtins.dict")
    if isinstance(v, PySet):
        return ExtClass("builtins.set")
    if isinstance(v, Obj):
        return ClassRef(v.cls)
    raise EngineLimit(f"type({v!r})")


@ext("builtins.getattr")
def _m_getattr(I, b, a, kw, node):
    from .interp import PyExc
    obj, name = a[0], a[1]
    if not isinstance(name, str):
        raise EngineLimit("getattr with a non-literal name")
    try:
        return I.getattr_value(obj, name, node)
    except PyExc as e:
        if e.kind == "AttributeError" and len(a) > 2:
            return a[2]
        raise


@ext("builtins.hasattr")
def _m_hasattr(I, b, a, kw, node):
    from .interp import PyExc
    try:
        I.getattr_value(a[0], a[1], node)
        return True
    except PyExc as e:
        if e.kind == "AttributeError":
            return False
        raise


@ext("builtins.setattr")
def _m_setattr(I, b, a, kw, node):
    I.setattr_value(a[0], a[1], a[2])
    return None


@ext("builtins.hash")
def _m_hash(I, b, a, kw, node):
    # assumed: hash() is some integer function of the value; nothing else is known about it
    v = a[0]

    def has_str(x):
        if isinstance(x, (str, NameK)) or (isinstance(x, SymV) and x.ty == "name"):
            return True
        return isinstance(x, tuple) and any(has_str(y) for y in x)
    if has_str(v):
        # str hashes are randomised per process (PYTHONHASHSEED): the value is an arbitrary integer and any use of it
        # is a dependence on process-wide state - recorded like a draw, so that the RNG frame obligation of every
        # contract that does not declare it fails (C14: same seed, same scenario in every process)
        h = I.ctx.fresh("str_hash", z3.IntSort())
        I.ctx.draws.append(("hashseed", h))
        return SymV(h, "int")
    if isinstance(v, (int, float, tuple)) and not isinstance(v, bool) and not (isinstance(v, tuple) and any(is_sym(x) for x in v)):
        return hash(v)
    return SymV(I.ctx.fresh("hash", z3.IntSort()), "int")


@ext("builtins.id")
def _m_id(I, b, a, kw, node):
    """identity of a heap object: a distinct integer per live object (ASSUMED: CPython's id() of two simultaneously
    live objects differs; equal for the same object).  Only mutable containers / instances have a modelled identity."""
    v = a[0]
    if isinstance(v, (PyList, PyDict, PySet, Obj, NpCell, SDict)):
        tbl = I.ext_state.setdefault("object_ids", {})
        key = id(v)
        if key not in tbl:
            tbl[key] = (7_000_000 + 16 * len(tbl), v)      # keep the object alive so the key stays unique
        return tbl[key][0]
    raise EngineLimit(f"id() of {type(v).__name__}")


@ext("builtins.divmod")
def _m_divmod(I, b, a, kw, node):
    q = binop(I, ast.FloorDiv(), a[0], a[1], node)
    r = binop(I, ast.Mod(), a[0], a[1], node)
    return (q, r)


@ext("builtins.print")
def _m_print(I, b, a, kw, node):
    return None


@ext("builtins.sorted")
def _m_sorted(I, b, a, kw, node):
    items = I.iter_concrete(a[0])
    if any(is_sym(x) for x in items):
        raise EngineLimit("sorted of symbolic values")
    return PyList(sorted(items), order_determined=True)


# ---- strings with symbolic parts: f-strings and concatenation are ASSUMED to be functions of their parts
STR_CONCAT = z3.Function("str_concat", z3.IntSort(), z3.IntSort(), z3.IntSort())
STR_OF = z3.Function("str_of_non_string", z3.IntSort(), z3.IntSort())
STR_LOWER = z3.Function("str_lower", z3.IntSort(), z3.IntSort())
STR_FMT1 = z3.Function("str_format1", z3.IntSort(), z3.IntSort(), z3.IntSort())     # (template, part) -> string
STR_FMTI = z3.Function("str_format_int", z3.IntSort(), z3.IntSort(), z3.IntSort())  # (template, integer) -> string


# ---- address strings: ASSUMED contract of str() / eval() on "(a, b)" keys of a scenario document
# str((a, b)) of two ints is the canonical key ADDR_STR(a, b); eval is a pure function of the string which either
# yields a pair (components EV_A / EV_B with run-time type tags EV_TA / EV_TB) or does not (then unpacking / using it
# as an address raises); eval inverts str on canonical keys.
ADDR_STR = z3.Function("addr_str", z3.IntSort(), z3.IntSort(), z3.IntSort())
EV_PAIR = z3.Function("eval_is_pair", z3.IntSort(), z3.BoolSort())
EV_A = z3.Function("eval_fst", z3.IntSort(), z3.IntSort())
EV_B = z3.Function("eval_snd", z3.IntSort(), z3.IntSort())
EV_TA = z3.Function("eval_fst_type", z3.IntSort(), z3.IntSort())
EV_TB = z3.Function("eval_snd_type", z3.IntSort(), z3.IntSort())


def addr_axioms(I):
    if I.ext_state.get("addr_axioms_assumed"):
        return
    I.ext_state["addr_axioms_assumed"] = True
    a, b = z3.Int("_as_a"), z3.Int("_as_b")
    k = ADDR_STR(a, b)
    I.ctx.assume(z3.ForAll([a, b], z3.And(EV_PAIR(k), EV_A(k) == a, EV_B(k) == b, EV_TA(k) == TAG_INT, EV_TB(k) == TAG_INT,
                                          k >= 900000), patterns=[ADDR_STR(a, b)]))


def addr_str(I, a, b):
    addr_axioms(I)
    return SymV(ADDR_STR(ival(a), ival(b)), "name")


@ext("builtins.eval")
def _m_eval(I, b, a, kw, node):
    s = a[0]
    if isinstance(s, str):
        try:
            v = ast.literal_eval(s)
        except Exception:
            I.raise_("SyntaxError", node)
        return v
    if isinstance(s, SymV) and s.ty == "name":
        addr_axioms(I)
        if not I.ctx.branch(EV_PAIR(s.t)):
            # anything but a pair: modelled as the evaluation (or the first use as an address) failing
            I.raise_("SyntaxError", node)
        return (SymV(EV_A(s.t), "int", pytag=EV_TA(s.t)), SymV(EV_B(s.t), "int", pytag=EV_TB(s.t)))
    raise EngineLimit("eval of non-concrete string")


# ---- list / dict / set / str methods

@ext("list.append")
def _m_append(I, b, a, kw, node):
    if isinstance(b, PyList):
        if not b.fresh:
            I.ctx.writes.append(("list", b))
        b.items.append(a[0])
        return None
    if isinstance(b, SymSeq) and b.mutable and getattr(b, "rec", None) is not None:
        # record list kept as one z3 array per field (struct of arrays): append = one Store per column
        vals = b.rec["abstract"](a[0])
        pos = b.n if not isinstance(b.n, int) else z3.IntVal(b.n)
        for cname, t in vals.items():
            b.rec["cols"][cname] = z3.Store(b.rec["cols"][cname], pos, t)
        b.n = b.n + 1 if isinstance(b.n, int) else z3.simplify(b.n + 1)
        return None
    if isinstance(b, SymSeq) and b.mutable:
        old_n, old_elem, x = b.n, b.elem, a[0]
        b.elem = lambda i, old_n=old_n, old_elem=old_elem, x=x: ite_value(ival(i) == ival(old_n), x, old_elem(i)) \
            if not (isinstance(i, int) and isinstance(old_n, int)) else (x if i == old_n else old_elem(i))
        b.n = old_n + 1 if isinstance(old_n, int) else z3.simplify(old_n + 1)
        return None
    raise EngineLimit("append on symbolic sequence")


@ext("list.extend")
def _m_extend(I, b, a, kw, node):
    if not b.fresh:
        I.ctx.writes.append(("list", b))
    src = I.as_sequence(a[0])
    if isinstance(b, PyList) and not isinstance(src, list):
        # a concrete list extended by a symbolic-length sequence: from now on the object is viewed through `sym_view`
        # (concrete prefix + symbolic tail); len / indexing / membership / iteration go through the view
        base = getattr(b, "sym_view", None)
        if base is not None:
            raise EngineLimit("second symbolic extend of a list")
        b.sym_view = seq_concat(list(b.items), src)
        return None
    if getattr(b, "sym_view", None) is not None:
        raise EngineLimit("extend of a list that has a symbolic tail")
    b.items.extend(src)


@ext("list.insert")
def _m_insert(I, b, a, kw, node):
    if isinstance(b, PyList) and isinstance(a[0], int):
        if not b.fresh:
            I.ctx.writes.append(("list", b))
        b.items.insert(a[0], a[1])
        return None
    raise EngineLimit("insert")


def _note_list_write(I, b):
    if not isinstance(b, PyList):
        raise EngineLimit("list mutation on a symbolic-length sequence")
    if not b.fresh:
        I.ctx.writes.append(("list", b))


@ext("list.remove")
def _m_lremove(I, b, a, kw, node):
    _note_list_write(I, b)
    for j, it in enumerate(b.items):
        t = _eq_term(I, a[0], it)
        if t is True or (t is not False and I.ctx.branch(t)):
            del b.items[j]
            return None
    I.raise_("ValueError", node)


@ext("list.pop")
def _m_lpop(I, b, a, kw, node):
    _note_list_write(I, b)
    if not b.items:
        I.raise_("IndexError", node)
    idx = a[0] if a else -1
    if not isinstance(idx, int):
        raise EngineLimit("list.pop with a symbolic index")
    if not -len(b.items) <= idx < len(b.items):
        I.raise_("IndexError", node)
    return b.items.pop(idx)


@ext("list.clear")
def _m_lclear(I, b, a, kw, node):
    _note_list_write(I, b)
    b.items.clear()


@ext("list.reverse")
def _m_lreverse(I, b, a, kw, node):
    _note_list_write(I, b)
    b.items.reverse()


@ext("list.count")
def _m_lcount(I, b, a, kw, node):
    if not isinstance(b, PyList):
        raise EngineLimit("count on a symbolic-length sequence")
    tot = 0
    for it in b.items:
        t = _eq_term(I, a[0], it)
        if t is True or (t is not False and I.ctx.branch(t)):
            tot += 1
    return tot


@ext("list.copy")
def _m_lcopy(I, b, a, kw, node):
    return PyList(list(b.items))


@ext("list.index")
def _m_lindex(I, b, a, kw, node):
    for j, it in enumerate(b.items):
        t = _eq_term(I, a[0], it)
        if t is True or (t is not False and I.ctx.branch(t)):
            return j
    I.raise_("ValueError", node)


def _dict_items(I, b, what):
    if isinstance(b, PyDict):
        if what == "items":
            return PyList([(k, v) for k, v in b.d.items()] + [(e[0], e[1]) for e in b.sym])
        if what == "keys":
            return PyList(list(b.d.keys()) + [e[0] for e in b.sym])
        return PyList(list(b.d.values()) + [e[1] for e in b.sym])
    if isinstance(b, SymDict):
        if b.keys is None:
            raise EngineLimit(f"{what}() of unordered symdict")
        ks = b.keys
        if what == "keys":
            return ks
        if what == "items":
            return SymSeq(ks.n, lambda i, ks=ks, b=b: (ks.elem(i), b.get(ks.elem(i))), b.label + ".items")
        return SymSeq(ks.n, lambda i, ks=ks, b=b: b.get(ks.elem(i)), b.label + ".values")
    if isinstance(b, SDict):
        if b.keyseq is None:
            raise EngineLimit("items of sdict without key order")
        ks = b.keyseq
        getv = lambda i: mk(z3.Select(b.val, *key_terms(ks.elem(i), b.arity)), b.vkind)
        if what == "keys":
            return ks
        if what == "items":
            return SymSeq(ks.n, lambda i: (ks.elem(i), getv(i)), b.label + ".items")
        return SymSeq(ks.n, getv, b.label + ".values")
    raise EngineLimit("dict view")


@ext("dict.items")
def _m_items(I, b, a, kw, node):
    return _dict_items(I, b, "items")


@ext("dict.keys")
def _m_keys(I, b, a, kw, node):
    return _dict_items(I, b, "keys")


@ext("dict.values")
def _m_values(I, b, a, kw, node):
    return _dict_items(I, b, "values")


@ext("dict.get")
def _m_get(I, b, a, kw, node):
    key = a[0]
    default = a[1] if len(a) > 1 else None
    if isinstance(b, PyDict):
        if b.sym or is_sym(key) or (isinstance(key, tuple) and any(is_sym(k) for k in key)):
            for k in b.d:
                t = _eq_term(I, key, k)
                if t is True or (t is not False and I.ctx.branch(t)):
                    return b.d[k]
            for ent in b.sym:
                t = _eq_term(I, key, ent[0])
                if t is True or (t is not False and I.ctx.branch(t)):
                    return ent[1]
            return default
        check_hashable_concrete(key)
        return b.d.get(key, default)
    if isinstance(b, SymDict):
        d = b.dom(key)
        if isinstance(d, bool):
            return b.get(key) if d else default
        # special case used by Host.traffic_permitted: firewall.get(addr, []) -> membership collection
        got = b.get(key)
        if isinstance(got, SymColl) and isinstance(default, PyList) and not default.items:
            return SymColl(lambda x, got=got, d=d: z3.And(d, got.contains(x)), "get-or-empty")
        if I.ctx.branch(d):
            return got
        return default
    raise EngineLimit("dict.get")


@ext("builtins.dict.fromkeys")
def _m_fromkeys(I, b, a, kw, node):
    keys = I.iter_concrete(a[0])
    val = a[1] if len(a) > 1 else None
    d = PyDict()
    for k in keys:
        setitem(I, d, k, val, node)
    return d


@ext("ndarray.reshape")
def _m_reshape(I, b, a, kw, node):
    # assumed NumPy contract: reshape is the inverse of the row-major flatten for matching sizes (a view)
    shape = a[0] if len(a) == 1 and isinstance(a[0], tuple) else tuple(a)
    fo = getattr(b.cell, "flat_of", None)
    if b.ndim == 1 and fo is not None and len(shape) == 2:
        src, R, W = fo
        if I.ctx.branch(z3.And(ival(shape[0]) == ival(R), ival(shape[1]) == ival(W))):
            c = NpCell(src, (ival(R) if is_sym(R) or z3.is_expr(R) else R, ival(W) if is_sym(W) or z3.is_expr(W) else W),
                       dtype=b.cell.dtype, fresh=True, label="reshaped")
            return NpArr(c)
        I.raise_("ValueError", node)
    raise EngineLimit("reshape of an array that is not a known flattening")


@ext("dict.setdefault")
def _m_dsetdefault(I, b, a, kw, node):
    key = a[0]
    default = a[1] if len(a) > 1 else None
    if isinstance(b, PyDict):
        if is_sym(key) or (isinstance(key, tuple) and any(is_sym(k) for k in key)) or b.sym:
            for k in b.d:
                t = _eq_term(I, key, k)
                if t is True or (t is not False and I.ctx.branch(t)):
                    return b.d[k]
            for ent in b.sym:
                t = _eq_term(I, key, ent[0])
                if t is True or (t is not False and I.ctx.branch(t)):
                    return ent[1]
            setitem(I, b, key, default, node)
            return default
        check_hashable_concrete(key)
        if key in b.d:
            return b.d[key]
        if not b.fresh:
            I.ctx.writes.append(("dict", b))
        b.d[key] = default
        return default
    raise EngineLimit("dict.setdefault on a symbolic dict")


@ext("dict.pop")
def _m_dpop(I, b, a, kw, node):
    key = a[0]
    has_default = len(a) > 1
    if isinstance(b, PyDict):
        check_hashable_concrete(key)
        if not b.fresh:
            I.ctx.writes.append(("dict", b))
        if key in b.d:
            return b.d.pop(key)
        if has_default:
            return a[1]
        I.raise_("KeyError", node)
    if isinstance(b, SDict):
        ks = key_terms(key, b.arity)
        if not b.fresh:
            I.ctx.writes.append(("sdict", b))
        present = I.ctx.branch(z3.Select(b.dom, *ks))
        if present:
            v = mk(z3.Select(b.val, *ks), b.vkind)
            b.dom = z3.Store(b.dom, *ks, z3.BoolVal(False))
            return v
        if has_default:
            return a[1]
        I.raise_("KeyError", node)
    raise EngineLimit("dict.pop")


@ext("dict.copy")
def _m_dcopy(I, b, a, kw, node):
    if isinstance(b, PyDict):
        return PyDict(dict(b.d))
    raise EngineLimit("dict.copy")


@ext("dict.update")
def _m_dupdate(I, b, a, kw, node):
    if isinstance(b, PyDict) and (not a or isinstance(a[0], PyDict)):
        if not b.fresh:
            I.ctx.writes.append(("dict", b))
        if a:
            if a[0].sym:
                raise EngineLimit("dict.update from a dict with symbolic keys")
            b.d.update(a[0].d)
        b.d.update(kw)
        return None
    if isinstance(b, PyDict) and len(a) == 1 and not b.sym:
        # an iterable of (key, value) pairs of concrete length with concrete keys
        pairs = I.iter_concrete(a[0])
        new = []
        for p_ in pairs:
            if not (isinstance(p_, tuple) and len(p_) == 2):
                raise EngineLimit("dict.update from an iterable whose items are not pairs")
            check_hashable_concrete(p_[0])
            new.append(p_)
        if not b.fresh:
            I.ctx.writes.append(("dict", b))
        for k_, v_ in new:
            b.d[k_] = v_
        b.d.update(kw)
        return None
    raise EngineLimit("dict.update")


@ext("set.add")
def _m_sadd(I, b, a, kw, node):
    if isinstance(b, SymColl):
        I.ctx.writes.append(("set", b))      # in-place write to an abstract (pre-existing) collection
        return None
    if not any(_eq_term(I, a[0], y) is True for y in b.items):
        b.items.append(a[0])


@ext("set.update")
def _m_supdate(I, b, a, kw, node):
    if isinstance(b, SymColl):
        I.ctx.writes.append(("set", b))
        return None
    if not b.fresh:
        I.ctx.writes.append(("set", b))
    for x in a:
        if isinstance(x, SymColl):
            b.sym.append(x)
        elif isinstance(x, PySet) and x.sym:
            b.sym.extend(x.sym)
            for y in x.items:
                _m_sadd(I, b, [y], {}, node)
        else:
            for y in I.iter_concrete(x):
                _m_sadd(I, b, [y], {}, node)
    return None


@ext("set.issubset")
def _m_issubset(I, b, a, kw, node):
    other = a[0] if isinstance(a[0], PySet) else PySet(I.iter_concrete(a[0]))
    return compare(I, ast.LtE(), b, other, node)


@ext("set.issuperset")
def _m_issuperset(I, b, a, kw, node):
    other = a[0] if isinstance(a[0], PySet) else PySet(I.iter_concrete(a[0]))
    return compare(I, ast.GtE(), b, other, node)


@ext("set.copy")
def _m_scopy(I, b, a, kw, node):
    s = PySet(list(b.items))
    return s


@ext("set.remove")
def _m_sremove(I, b, a, kw, node):
    for y in list(b.items):
        if _eq_term(I, a[0], y) is True:
            b.items.remove(y)
            return None
    I.raise_("KeyError", node)


@ext("str.lower")
def _m_lower(I, b, a, kw, node):
    if isinstance(b, SymV) and b.ty == "name":
        return SymV(STR_LOWER(b.t), "name")          # ASSUMED: a function of the string
    return b.lower()


def _concrete_str_method(name):
    def model(I, b, a, kw, node):
        if not isinstance(b, str) or any(not isinstance(x, (str, int, tuple)) or isinstance(x, bool) for x in a) or kw:
            raise EngineLimit(f"str.{name} on a non-concrete string / with symbolic arguments")
        try:
            return getattr(b, name)(*a)
        except (TypeError, ValueError) as e:
            I.raise_(type(e).__name__, node)
    return model


for _n in ("strip", "lstrip", "rstrip", "upper", "title", "capitalize", "startswith", "endswith", "replace", "isdigit",
           "isalpha", "casefold", "count", "find"):
    ext("str." + _n)(_concrete_str_method(_n))


@ext("str.split")
def _m_split(I, b, a, kw, node):
    return PyList(b.split(*a))


@ext("str.join")
def _m_join(I, b, a, kw, node):
    return Opaque("joined")


@ext("str.format")
def _m_format(I, b, a, kw, node):
    return Opaque("formatted")


# ---- numpy

def _shape_of(I, s):
    if isinstance(s, tuple):
        return tuple(ival(x) if is_sym(x) else x for x in s)
    return (ival(s) if is_sym(s) else s,)


@ext("numpy.zeros")
def _m_zeros(I, b, a, kw, node):
    shape = _shape_of(I, a[0] if a else kw["shape"])
    dt = kw.get("dtype", a[1] if len(a) > 1 else None)
    dtype = dt.name.split(".")[-1] if isinstance(dt, ExtFunc) else "float64"
    c = I.new_cell("zeros", shape, fresh=True, zero=True)
    c.dtype = dtype
    return NpArr(c)


@ext("numpy.copy")
def _m_npcopy(I, b, a, kw, node):
    src = a[0]
    if not isinstance(src, NpArr):
        raise EngineLimit("np.copy of non-array")
    c = NpCell(src.content(), src.shape, dtype=src.cell.dtype, fresh=True, label="copy")
    return NpArr(c)


@ext("ndarray.copy")
def _m_ndcopy(I, b, a, kw, node):
    return _m_npcopy(I, None, [b], {}, node)


@ext("ndarray.flatten")
def _m_flatten(I, b, a, kw, node):
    # assumed NumPy contract: fresh 1-D array, row-major: flat[r*W+c] = a[r][c]
    if b.ndim == 1:
        return _m_npcopy(I, None, [b], {}, node)
    R, W = b.shape
    flat = I.ctx.fresh("flat", A1)
    r, c = z3.Int("_fl_r"), z3.Int("_fl_c")
    src = b.content()
    I.ctx.assume(z3.ForAll([r, c], z3.Implies(z3.And(0 <= r, r < ival(R), 0 <= c, c < ival(W)),
                                               z3.Select(flat, r * ival(W) + c) == z3.Select(z3.Select(src, r), c))))
    n = R * W if isinstance(R, int) and isinstance(W, int) else ival(R) * ival(W)
    cell = NpCell(flat, (n,), dtype=b.cell.dtype, fresh=True, label="flat")
    cell.flat_of = (src, R, W)
    return NpArr(cell)


def _np_extreme(I, b, a, kw, node, which):
    """assumed NumPy contract of ndarray.min() / max() without axis: a cell value that bounds every cell (non-empty
    array)"""
    if a or kw:
        raise EngineLimit(f"ndarray.{which} with axis / keyword arguments")
    if not isinstance(b, NpArr):
        raise EngineLimit(f"{which} of {b!r}")
    r = I.ctx.fresh("np_" + which, z3.RealSort())
    le = (lambda x, y: x <= y) if which == "min" else (lambda x, y: x >= y)
    src = b.content()
    if b.ndim == 1:
        n = ival(b.shape[0])
        i, i0 = z3.Int("_mm_i"), I.ctx.fresh("mm_i0", z3.IntSort())
        if I.ctx.branch(n <= 0):
            I.raise_("ValueError", node)
        I.ctx.assume(z3.ForAll([i], z3.Implies(z3.And(0 <= i, i < n), le(r, z3.Select(src, i)))))
        I.ctx.assume(z3.And(0 <= i0, i0 < n, z3.Select(src, i0) == r))
    elif b.ndim == 2:
        R, W = ival(b.shape[0]), ival(b.shape[1])
        i, j = z3.Int("_mm_i"), z3.Int("_mm_j")
        i0, j0 = I.ctx.fresh("mm_i0", z3.IntSort()), I.ctx.fresh("mm_j0", z3.IntSort())
        if I.ctx.branch(z3.Or(R <= 0, W <= 0)):
            I.raise_("ValueError", node)
        I.ctx.assume(z3.ForAll([i, j], z3.Implies(z3.And(0 <= i, i < R, 0 <= j, j < W),
                                                  le(r, z3.Select(z3.Select(src, i), j)))))
        I.ctx.assume(z3.And(0 <= i0, i0 < R, 0 <= j0, j0 < W, z3.Select(z3.Select(src, i0), j0) == r))
    else:
        raise EngineLimit("ndim")
    return SymV(r, "real")


@ext("ndarray.min")
def _m_ndmin(I, b, a, kw, node):
    return _np_extreme(I, b, a, kw, node, "min")


@ext("ndarray.max")
def _m_ndmax(I, b, a, kw, node):
    return _np_extreme(I, b, a, kw, node, "max")


@ext("numpy.empty")
def _m_empty(I, b, a, kw, node):
    shape = _shape_of(I, a[0] if a else kw["shape"])
    c = I.new_cell("empty", shape, fresh=True, zero=False)
    return NpArr(c)


@ext("numpy.random.rand")
def _m_rand(I, b, a, kw, node):
    if a:
        if len(a) != 1:
            raise EngineLimit("rand with a multi-dimensional shape")
        # a batch of draws: every cell an independent uniform in [0,1); counted as len draws
        n = a[0]
        c = I.new_cell("Ubatch", (ival(n) if is_sym(n) else n,), fresh=True)
        k = z3.Int("_ub_k")
        I.ctx.assume(z3.ForAll([k], z3.And(z3.Select(c.content, k) >= 0, z3.Select(c.content, k) < 1)))
        I.ctx.draws.append(("rand-batch", n))
        return NpArr(c)
    u = I.ctx.fresh("U", z3.RealSort())
    I.ctx.assume(z3.And(u >= 0, u < 1))      # assumed NumPy contract: rand() in [0, 1)
    I.ctx.draws.append(("rand", u))
    return SymV(u, "real")


@ext("numpy.random.randint")
def _m_randint(I, b, a, kw, node):
    # assumed NumPy contract: randint(lo, hi) / randint(hi) returns an int in [lo, hi)
    if len(a) == 1:
        lo, hi = 0, a[0]
    else:
        lo, hi = a[0], a[1]
    r = I.ctx.fresh("randint", z3.IntSort())
    if I.ctx.branch(ival(hi) <= ival(lo)):
        I.raise_("ValueError", node)
    I.ctx.assume(z3.And(ival(lo) <= r, r < ival(hi)))
    I.ctx.draws.append(("randint", r))
    return SymV(r, "int")


@ext("numpy.random.random_sample")
def _m_random_sample(I, b, a, kw, node):
    # assumed: n independent uniforms in [0, 1)
    n = a[0] if a else 1
    f = z3.Function(I.ctx.fresh("rs", z3.IntSort()).decl().name() + "_f", z3.IntSort(), z3.RealSort())
    k = z3.Int("_rs_k")
    I.ctx.assume(z3.ForAll([k], z3.And(f(k) >= 0, f(k) < 1)))
    I.ctx.draws.append(("random_sample", n))
    return SymSeq(n if isinstance(n, int) else ival(n), lambda i, f=f: mk(f(ival(i)), "real"), "ndarray-1d")


@ext("numpy.random.choice")
def _m_choice(I, b, a, kw, node):
    seq = a[0]
    size = a[1] if len(a) > 1 else kw.get("size")
    if size is None:
        od = getattr(seq, "order_determined", True)
        if not od:
            I.ctx.oblige("pre@numpy.random.choice:order-determined-argument", z3.BoolVal(False), kind="pre",
                         info={"tags": ["C14"]})
        items = I.as_sequence(seq)
        if isinstance(items, list):
            if not items:
                I.raise_("ValueError", node)
            j = I.ctx.fresh("choice", z3.IntSort())
            I.ctx.draws.append(("choice", j))
            for idx, it in enumerate(items[:-1]):
                if I.ctx.branch(j == idx):
                    return it
            return items[-1]
        j = I.ctx.fresh("choice", z3.IntSort())
        I.ctx.assume(z3.And(0 <= j, j < ival(items.n)))
        I.ctx.draws.append(("choice", j))
        return items.elem(j)
    # choice(seq, n) over a sequence of names / None (object array): n draws, each a member of seq (ASSUMED NumPy contract)
    items0 = I.as_sequence(seq)
    members = items0 if isinstance(items0, SymSeq) else (
        SymSeq(len(items0), lambda i, it=list(items0): _pick(it, i), "list") if items0 and any(
            kind_of(x) == "name" for x in items0) else None)
    if members is not None and not kw.get("p"):
        idx = z3.Function(I.ctx.fresh("chn", z3.IntSort()).decl().name() + "_idx", z3.IntSort(), z3.IntSort())
        q = z3.Int("_chn_q")
        ln = members.n if not isinstance(members.n, int) else z3.IntVal(members.n)
        I.ctx.assume(z3.ForAll([q], z3.And(0 <= idx(q), idx(q) < ln)))
        I.ctx.draws.append(("choice-n", size))
        return SymSeq(size if isinstance(size, int) else z3.simplify(z3.If(ival(size) < 0, 0, ival(size))),
                      lambda i, members=members, idx=idx: members.elem(idx(ival(i))), "ndarray-1d")
    # choice(levels, n, p=...) : n draws, each a member of levels
    levels = I.iter_concrete(seq)
    f = z3.Function(I.ctx.fresh("ch", z3.IntSort()).decl().name() + "_f", z3.IntSort(), z3.RealSort())
    k = z3.Int("_ch_k")
    I.ctx.assume(z3.ForAll([k], z3.Or(*[f(k) == rval(x) for x in levels])))
    I.ctx.draws.append(("choice-n", size))
    return SymSeq(size if isinstance(size, int) else ival(size), lambda i, f=f: mk(f(ival(i)), "real"), "ndarray-1d")


@ext("numpy.random.seed")
def _m_seed(I, b, a, kw, node):
    I.ctx.draws.append(("seed", a[0] if a else None))
    return None


@ext("numpy.array_equal")
def _m_array_equal(I, b, a, kw, node):
    x, y = a
    if isinstance(x, NpArr) and isinstance(y, NpArr):
        return mk(x.content() == y.content(), "bool")
    raise EngineLimit("array_equal")


@ext("numpy.float32")
def _m_f32(I, b, a, kw, node):
    return _to_float(I, a[0], node)


@ext("numpy.int64")
def _m_i64(I, b, a, kw, node):
    return _to_int(I, a[0], node)


# ---- math

@ext("math.isclose")
def _m_isclose(I, b, a, kw, node):
    x, y = a[0], a[1]
    if not is_sym(x) and not is_sym(y):
        return math.isclose(x, y)
    # assumed: isclose is reflexive; modelled as an uninterpreted symmetric relation that holds on equal reals
    f = z3.Function("isclose", z3.RealSort(), z3.RealSort(), z3.BoolSort())
    xr, yr = rval(x), rval(y)
    I.ctx.assume(z3.Implies(xr == yr, f(xr, yr)))
    I.ctx.assume(f(xr, yr) == f(yr, xr))
    return mk(f(xr, yr), "bool")


@ext("math.ceil")
def _m_ceil(I, b, a, kw, node):
    v = a[0]
    if not is_sym(v):
        return math.ceil(v)
    t = rval(v)
    # ceil(a / b) for an integer a and a positive integer literal b: pure integer arithmetic (a + b - 1) div b
    if z3.is_app(t) and t.decl().kind() == z3.Z3_OP_DIV and t.num_args() == 2:
        num, den = t.arg(0), z3.simplify(t.arg(1))
        if z3.is_app(num) and num.decl().kind() == z3.Z3_OP_TO_REAL and z3.is_rational_value(den) \
                and den.denominator_as_long() == 1 and den.numerator_as_long() > 0:
            b_ = den.numerator_as_long()
            return mk((num.arg(0) + (b_ - 1)) / b_, "int")
    if z3.is_app(t) and t.decl().kind() == z3.Z3_OP_MUL and t.num_args() == 2:
        coef, num = z3.simplify(t.arg(0)), t.arg(1)
        if z3.is_rational_value(coef) and coef.numerator_as_long() == 1 and coef.denominator_as_long() > 0 \
                and z3.is_app(num) and num.decl().kind() == z3.Z3_OP_TO_REAL:
            b_ = coef.denominator_as_long()
            return mk((num.arg(0) + (b_ - 1)) / b_, "int")
    return mk(-z3.ToInt(-t), "int")


# ---- gymnasium

@ext("gymnasium.Env.reset")
def _m_envreset(I, b, a, kw, node):
    # gymnasium.Env.reset(seed=None) only (re)seeds self.np_random, which NASim never reads
    return None


@ext("gymnasium.spaces.Discrete.__init__")
def _m_discrete_init(I, b, a, kw, node):
    I.setattr_value(b, "n", a[0])
    return None


@ext("gymnasium.spaces.MultiDiscrete.__init__")
def _m_multidiscrete_init(I, b, a, kw, node):
    I.setattr_value(b, "nvec", a[0])
    return None
