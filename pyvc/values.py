"""pyvc.values -- value domain of the symbolic executor.

Concrete Python values (int, float, bool, str, None, tuple) are used as they are.
Everything else is one of the classes below.  Scalars that are symbolic are `SymV`
(a z3 term + a Python-level type tag).  Strings that are symbolic ("names": services,
OSs, processes, dict keys) are integer-coded; concrete strings are interned on demand.
"""
import itertools
import math
import z3

NONE_ID = -1          # integer code of None inside an optional name
_INTERN = {}
_INTERN_REV = {}
_intern_ctr = itertools.count(1_000_000)


def intern_name(s):
    if s not in _INTERN:
        i = next(_intern_ctr)
        _INTERN[s] = i
        _INTERN_REV[i] = s
    return _INTERN[s]


def name_of(i):
    return _INTERN_REV.get(i)


class NameK:
    """a concrete integer-coded name (service / OS / process number k of the scenario lists)"""
    __slots__ = ("k",)

    def __init__(self, k):
        self.k = int(k)

    def __eq__(self, o):
        return isinstance(o, NameK) and o.k == self.k

    def __hash__(self):
        return hash(("NameK", self.k))

    def __repr__(self):
        return f"name#{self.k}"


class EngineLimit(Exception):
    """The engine met something it does not model: the function is OUT OF REACH (exit 2),
    never 'proved' and never 'violation'."""


class SymV:
    """symbolic scalar.  ty: 'int' | 'real' | 'bool' | 'name'   (name = int-coded str / None)
    pytag: optional symbolic run-time type tag (z3 Int) used where isinstance() on scalars matters."""
    __slots__ = ("t", "ty", "pytag")

    def __init__(self, t, ty, pytag=None):
        self.t = t
        self.ty = ty
        self.pytag = pytag

    def __repr__(self):
        return f"SymV<{self.ty}:{self.t}>"

    def __bool__(self):
        raise EngineLimit("python truth value of a symbolic scalar requested by the engine itself")

    def __hash__(self):
        return hash((self.t.hash() if hasattr(self.t, "hash") else id(self.t), self.ty))

    def __eq__(self, o):
        return isinstance(o, SymV) and self.ty == o.ty and z3.eq(self.t, o.t)


class Opaque:
    """A value the engine does not interpret (f-string results, reprs...).  Using it in a branch
    condition or arithmetic raises EngineLimit."""

    def __init__(self, tag="opaque"):
        self.tag = tag

    def __repr__(self):
        return f"Opaque<{self.tag}>"


class TypeOfSym:
    """type(v) of a scalar whose run-time type is symbolic (v.pytag)"""

    def __init__(self, tag):
        self.tag = tag


class AbsVal:
    """An abstract value of an uninterpreted sort (e.g. the dict returned by HostVector.services).
    Carries a z3 term so equality of two such values is decidable by the solver."""

    def __init__(self, term, kind):
        self.t = term
        self.kind = kind

    def __repr__(self):
        return f"Abs<{self.kind}:{self.t}>"


_oid = itertools.count(1)


class Obj:
    """instance of a repo class.  `fresh` = allocated during the function under verification."""

    def __init__(self, cls, fields=None, fresh=True, label=None):
        self.cls = cls              # ClassInfo
        self.fields = dict(fields or {})
        self.fresh = fresh
        self.oid = next(_oid)
        self.label = label

    def __repr__(self):
        return f"<Obj {self.cls.name}#{self.oid}{' ' + self.label if self.label else ''}>"


class ClassRef:
    def __init__(self, cls):
        self.cls = cls

    def __repr__(self):
        return f"<ClassRef {self.cls.qualname}>"

    def __eq__(self, o):
        return isinstance(o, ClassRef) and o.cls is self.cls

    def __hash__(self):
        return hash(self.cls.qualname)


class ExtClass:
    """A class that lives outside the repository (gymnasium spaces, enum bases, Exception types)."""

    def __init__(self, name):
        self.name = name

    def __repr__(self):
        return f"<ExtClass {self.name}>"

    def __eq__(self, o):
        return isinstance(o, ExtClass) and o.name == self.name

    def __hash__(self):
        return hash(self.name)


class FuncRef:
    def __init__(self, fi):
        self.fi = fi


class BoundMethod:
    def __init__(self, selfval, fi):
        self.selfval = selfval
        self.fi = fi


class ExtFunc:
    """dotted name of an external / builtin function, modelled in builtins.py"""

    def __init__(self, name, bound=None):
        self.name = name
        self.bound = bound

    def __repr__(self):
        return f"<Ext {self.name}>"


class ModRef:
    def __init__(self, dotted, repo_mod=None):
        self.dotted = dotted
        self.repo_mod = repo_mod

    def __repr__(self):
        return f"<Mod {self.dotted}>"


class SuperProxy:
    def __init__(self, selfval, after_cls):
        self.selfval = selfval
        self.after_cls = after_cls


# ------------------------------------------------------------------ containers

class PyList:
    """mutable concrete-length list of values"""

    def __init__(self, items=None, fresh=True, order_determined=True):
        self.items = list(items or [])
        self.fresh = fresh
        self.order_determined = order_determined

    def __repr__(self):
        return f"PyList{self.items}"


class PyDict:
    """mutable dict with concrete hashable keys (str, int, tuple, None), insertion ordered"""

    def __init__(self, d=None, fresh=True):
        self.d = dict(d or {})
        self.fresh = fresh
        self.sym = []        # entries [key, value] whose key is symbolic; kept pairwise distinct from all other keys
                             # on the current path (equality is decided by forking when an entry is stored)

    def __repr__(self):
        return f"PyDict{self.d}{self.sym if self.sym else ''}"


class PySet:
    def __init__(self, items=None, fresh=True):
        self.items = list(items or [])   # concrete hashables, kept in insertion order
        self.fresh = fresh
        self.order_determined = False    # iteration order of a str set depends on PYTHONHASHSEED
        self.sym = []                    # abstract parts (SymColl) merged in by update(): membership only


class SymSeq:
    """immutable sequence of symbolic (or concrete) length n with element function elem(i)
    (i is a z3 Int term or a python int); used for lists / tuples / dict key views / range."""

    def __init__(self, n, elem, label="seq", order_determined=True, mutable=False):
        self.n = n
        self.elem = elem
        self.label = label
        self.order_determined = order_determined
        self.mutable = mutable     # a python list of symbolic length built by list ops (append / += allowed)

    def concrete_len(self):
        if isinstance(self.n, int):
            return self.n
        s = z3.simplify(self.n)
        if z3.is_int_value(s):
            return s.as_long()
        return None

    def __repr__(self):
        return f"SymSeq<{self.label},n={self.n}>"


class SymDict:
    """immutable mapping given by a domain predicate and a getter over keys.
    dom(key) -> z3 Bool / python bool ; get(key) -> value ; keys: optional SymSeq (iteration order)"""

    def __init__(self, dom, get, keys=None, label="dict", n=None):
        self.dom = dom
        self.get = get
        self.keys = keys
        self.label = label
        self.n = n if n is not None else (keys.n if keys is not None else None)

    def __repr__(self):
        return f"SymDict<{self.label}>"


class SymColl:
    """membership-only collection: contains(x) -> z3 Bool"""

    def __init__(self, contains, label="coll", nonempty=None):
        self.contains = contains
        self.label = label
        self.nonempty = nonempty     # z3 Bool: the collection has at least one element (None: unknown)


class SDict:
    """mutable dict keyed by tuples of `arity` ints (or a single int/name), built inside loops over
    symbolic sequences.  dom/val are z3 arrays; keyseq (SymSeq) is the ghost iteration order
    supplied by a loop contract."""

    def __init__(self, arity, vkind, dom, val, keyseq=None, fresh=True, label="sdict"):
        self.arity = arity
        self.vkind = vkind      # 'bool' | 'int' | 'real' | 'name'
        self.dom = dom
        self.val = val
        self.keyseq = keyseq
        self.fresh = fresh
        self.label = label

    @staticmethod
    def sorts(arity, vkind):
        vs = {"bool": z3.BoolSort(), "int": z3.IntSort(), "real": z3.RealSort(), "name": z3.IntSort()}[vkind]
        return [z3.IntSort()] * arity, vs

    @staticmethod
    def empty(arity, vkind, label="sdict"):
        ks, vs = SDict.sorts(arity, vkind)
        dom = z3.K(ks[0], z3.BoolVal(False)) if arity == 1 else None
        if arity == 1:
            default = {"bool": z3.BoolVal(False), "int": z3.IntVal(0), "real": z3.RealVal(0),
                       "name": z3.IntVal(0)}[vkind]
            val = z3.K(ks[0], default)
        else:
            # multi-index constant arrays: use fresh array constrained by lambda
            idx = [z3.Int(f"_k{i}") for i in range(arity)]
            dom = z3.Lambda(idx, z3.BoolVal(False))
            default = {"bool": z3.BoolVal(False), "int": z3.IntVal(0), "real": z3.RealVal(0),
                       "name": z3.IntVal(0)}[vkind]
            val = z3.Lambda(idx, default)
        return SDict(arity, vkind, dom, val, None, True, label)


class NestedSDict:
    """mutable two-level dict  {k1: {k2: record}}  built inside a loop over a symbolic-length collection (keys are
    ints / names, records are dicts with a fixed set of concrete field names).  dom1: Int->Bool, dom2: Int->(Int->Bool),
    cols[field] = (Int->(Int->sort), kind).  Inner dicts are views (NestedInner) that alias this object."""

    def __init__(self, dom1, dom2, cols, fresh=True, label="nested"):
        self.dom1 = dom1
        self.dom2 = dom2
        self.cols = dict(cols)
        self.fresh = fresh
        self.label = label

    def __repr__(self):
        return f"NestedSDict<{self.label}>"


class RecDict:
    """mutable dict  {name: record}  built inside a loop with symbolic trip count (keys are names, records are dicts
    with a fixed set of concrete field names).  dom: Int->Bool, cols[field] = (Int->sort, kind), size: z3 Int (number of
    keys - a ghost the store operation maintains: +1 exactly when the key was absent)."""

    def __init__(self, dom, cols, size, fresh=True, label="recdict"):
        self.dom = dom
        self.cols = dict(cols)
        self.size = size
        self.fresh = fresh
        self.label = label

    def __repr__(self):
        return f"RecDict<{self.label}>"


class NestedInner:
    """the inner dict  parent[k1]  (a view: stores go to the parent)"""

    def __init__(self, parent, k1):
        self.parent = parent
        self.k1 = k1

    def __repr__(self):
        return f"NestedInner<{self.parent.label}[{self.k1}]>"


# ------------------------------------------------------------------ numpy

_cid = itertools.count(1)


class NpCell:
    """storage of one ndarray.  content: z3 Array Int->Real (ndim 1) or Int->(Int->Real) (ndim 2).
    shape: tuple of z3 Int terms / python ints.  `fresh` as for Obj."""

    def __init__(self, content, shape, dtype="float32", fresh=True, label=None):
        self.content = content
        self.shape = tuple(shape)
        self.ndim = len(self.shape)
        self.dtype = dtype
        self.fresh = fresh
        self.cid = next(_cid)
        self.label = label
        self.init_content = content

    def __repr__(self):
        return f"<NpCell#{self.cid} {self.label or ''} shape={self.shape}>"


class NpArr:
    """an ndarray object: whole cell (row None) or the row-view `cell[row]` of a 2-D cell."""

    def __init__(self, cell, row=None):
        self.cell = cell
        self.row = row

    @property
    def ndim(self):
        return self.cell.ndim if self.row is None else self.cell.ndim - 1

    @property
    def shape(self):
        return self.cell.shape if self.row is None else self.cell.shape[1:]

    def content(self):
        if self.row is None:
            return self.cell.content
        return z3.Select(self.cell.content, self.row)

    def set_content(self, arr):
        if self.row is None:
            self.cell.content = arr
        else:
            self.cell.content = z3.Store(self.cell.content, self.row, arr)

    def __repr__(self):
        return f"<NpArr {self.cell!r} row={self.row}>"


class NpSlice:
    """arr[lo:hi] of a 1-D array (a view)"""

    def __init__(self, arr, lo, hi):
        self.arr = arr
        self.lo = lo
        self.hi = hi


class SliceV:
    def __init__(self, lo, hi, step=None):
        self.lo = lo
        self.hi = hi
        self.step = step


A1 = z3.ArraySort(z3.IntSort(), z3.RealSort())
A2 = z3.ArraySort(z3.IntSort(), A1)

# ------------------------------------------------------------------ scalar helpers


def is_sym(v):
    return isinstance(v, SymV)


def is_scalar(v):
    return isinstance(v, (SymV, bool, int, float)) and not isinstance(v, str)


def ival(x):
    """z3 Int term of an int-like value"""
    if isinstance(x, SymV):
        if x.ty in ("int", "name"):
            return x.t
        if x.ty == "bool":
            return z3.If(x.t, z3.IntVal(1), z3.IntVal(0))
        raise EngineLimit(f"int term of {x}")
    if isinstance(x, bool):
        return z3.IntVal(1 if x else 0)
    if isinstance(x, int):
        return z3.IntVal(x)
    if z3.is_expr(x):
        return x
    raise EngineLimit(f"int term of {x!r}")


def rval(x):
    """z3 Real term of a numeric value"""
    if isinstance(x, SymV):
        if x.ty == "real":
            return x.t
        if x.ty == "int":
            return z3.ToReal(x.t)
        if x.ty == "bool":
            return z3.If(x.t, z3.RealVal(1), z3.RealVal(0))
        raise EngineLimit(f"real term of {x}")
    if isinstance(x, bool):
        return z3.RealVal(1 if x else 0)
    if isinstance(x, int):
        return z3.RealVal(x)
    if isinstance(x, float):
        if math.isinf(x) or math.isnan(x):
            raise EngineLimit("inf/nan as a real term")
        return z3.RealVal(repr(x))
    if z3.is_expr(x):
        return z3.ToReal(x) if x.sort() == z3.IntSort() else x
    raise EngineLimit(f"real term of {x!r}")


def bval(x):
    if isinstance(x, SymV):
        if x.ty == "bool":
            return x.t
        if x.ty == "int":
            return x.t != 0
        if x.ty == "real":
            return x.t != 0
        raise EngineLimit(f"truth of {x}")
    if isinstance(x, (bool, int, float)):
        return z3.BoolVal(bool(x))
    if z3.is_expr(x):
        return x
    raise EngineLimit(f"bool term of {x!r}")


def nameval(x):
    """z3 Int code of a name (str / None / symbolic name)"""
    if isinstance(x, SymV):
        if x.ty in ("name", "int"):
            return x.t
        raise EngineLimit(f"name code of {x}")
    if x is None:
        return z3.IntVal(NONE_ID)
    if isinstance(x, NameK):
        return z3.IntVal(x.k)
    if isinstance(x, str):
        return z3.IntVal(intern_name(x))
    if isinstance(x, int) and not isinstance(x, bool):
        return z3.IntVal(x)
    raise EngineLimit(f"name code of {x!r}")


def mk(t, ty):
    """SymV or concrete value when the term simplifies to a literal"""
    if isinstance(t, (bool, int, float)) and not z3.is_expr(t):
        if ty == "name" and isinstance(t, int) and not isinstance(t, bool):
            return None if t == NONE_ID else (name_of(t) if name_of(t) is not None else NameK(t))
        return (float(t) if ty == "real" else t)
    s = z3.simplify(t)
    if ty == "bool":
        if z3.is_true(s):
            return True
        if z3.is_false(s):
            return False
    elif ty == "int":
        if z3.is_int_value(s):
            return s.as_long()
    elif ty == "real":
        if z3.is_rational_value(s):
            n, d = s.numerator_as_long(), s.denominator_as_long()
            if d == 1 and abs(n) < 2 ** 50:
                return float(n)
    elif ty == "name":
        if z3.is_int_value(s):
            k = s.as_long()
            if k == NONE_ID:
                return None
            nm = name_of(k)
            if nm is not None:
                return nm
            return NameK(k)
    return SymV(s, ty)


def kind_of(v):
    if isinstance(v, SymV):
        return v.ty
    if isinstance(v, bool):
        return "bool"
    if isinstance(v, int):
        return "int"
    if isinstance(v, float):
        return "real"
    if isinstance(v, (str, NameK)) or v is None:
        return "name"
    return None


def ite_value(c, a, b):
    """If(c, a, b) for scalar values / tuples of scalars (used for symbolic-length list updates)"""
    if isinstance(c, bool):
        return a if c else b
    if isinstance(a, tuple) and isinstance(b, tuple) and len(a) == len(b):
        return tuple(ite_value(c, x, y) for x, y in zip(a, b))
    if isinstance(a, NpArr) and isinstance(b, NpArr) and a.cell is b.cell and a.row is not None and b.row is not None:
        return NpArr(a.cell, z3.If(c, a.row, b.row))
    if isinstance(a, Obj) and isinstance(b, Obj) and a.cls is b.cls and set(a.fields) == set(b.fields):
        return Obj(a.cls, {k: ite_value(c, a.fields[k], b.fields[k]) for k in a.fields}, fresh=a.fresh and b.fresh)
    ka, kb = kind_of(a), kind_of(b)
    if ka is None or kb is None:
        raise EngineLimit(f"conditional merge of {a!r} and {b!r}")
    if ka == "name" or kb == "name":
        return mk(z3.If(c, nameval(a), nameval(b)), "name")
    if ka == "real" or kb == "real":
        return mk(z3.If(c, rval(a), rval(b)), "real")
    if ka == "bool" and kb == "bool":
        return mk(z3.If(c, bval(a), bval(b)), "bool")
    return mk(z3.If(c, ival(a), ival(b)), "int")


def seq_concat(a_items, b):
    """python list (concrete prefix a_items) + symbolic-length sequence b"""
    na = len(a_items)

    def elem(i, a_items=a_items, b=b, na=na):
        if isinstance(i, int):
            return a_items[i] if i < na else b.elem(i - na)
        cur = b.elem(i - na)
        for j in range(na - 1, -1, -1):
            cur = ite_value(i == j, a_items[j], cur)
        return cur
    n = na + b.n if isinstance(b.n, int) else z3.simplify(na + b.n)
    return SymSeq(n, elem, "list", True, mutable=True)
