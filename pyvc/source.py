"""pyvc.source -- reads the *real* source of /repo/nasim on every run.

Nothing here is a model: the ASTs returned are those of the files in the working tree.
What is dropped is stated in DESIGN.md 2.1 (docstrings, comments, message operands of
assert/raise).  Each function's source segment is hashed so evidence can state exactly
which text was verified.
"""
import ast
import hashlib
import os

REPO_ROOT = os.environ.get("PYVC_REPO", "/repo")


class FuncInfo:
    def __init__(self, node, module, cls=None):
        self.node = node
        self.module = module
        self.cls = cls
        self.name = node.name
        self.kind = "function"          # function | classmethod | staticmethod | property | setter
        self.setter_for = None
        for d in node.decorator_list:
            if isinstance(d, ast.Name) and d.id in ("classmethod", "staticmethod", "property"):
                self.kind = d.id
            elif isinstance(d, ast.Attribute) and d.attr == "setter":
                self.kind = "setter"
                self.setter_for = d.value.id if isinstance(d.value, ast.Name) else None
        q = module.name + "."
        if cls is not None:
            q += cls.name + "."
        self.qualname = q + node.name + (".setter" if self.kind == "setter" else "")
        seg = ast.get_source_segment(module.text, node) or ""
        self.sha = hashlib.sha256(seg.encode()).hexdigest()
        self.lineno = node.lineno
        self._loops = None

    @property
    def loops(self):
        """Loop nodes (For/While/comprehension generators are not included) in pre-order."""
        if self._loops is None:
            out = []

            def walk(n):
                for ch in ast.iter_child_nodes(n):
                    if isinstance(ch, (ast.FunctionDef, ast.ClassDef, ast.Lambda)):
                        continue
                    if isinstance(ch, (ast.For, ast.While)):
                        out.append(ch)
                    walk(ch)
            walk(self.node)
            self._loops = out
        return self._loops

    def loop_ordinal(self, node):
        for i, n in enumerate(self.loops):
            if n is node:
                return i
        raise KeyError("loop not found")

    def __repr__(self):
        return f"<Func {self.qualname}>"


class ClassInfo:
    def __init__(self, node, module):
        self.node = node
        self.module = module
        self.name = node.name
        self.qualname = module.name + "." + node.name
        self.methods = {}      # name -> FuncInfo (plain / classmethod / staticmethod / property getter)
        self.setters = {}      # name -> FuncInfo
        self.attr_nodes = []   # class-level Assign statements, in order
        for st in node.body:
            if isinstance(st, ast.FunctionDef):
                fi = FuncInfo(st, module, self)
                if fi.kind == "setter":
                    self.setters[st.name] = fi
                else:
                    self.methods[st.name] = fi
            elif isinstance(st, (ast.Assign, ast.AnnAssign)):
                self.attr_nodes.append(st)
        self.base_exprs = node.bases

    def __repr__(self):
        return f"<Class {self.qualname}>"


class ModuleInfo:
    def __init__(self, name, path):
        self.name = name
        self.path = path
        with open(path, "r") as f:
            self.text = f.read()
        self.sha = hashlib.sha256(self.text.encode()).hexdigest()
        self.tree = ast.parse(self.text, filename=path)
        self.classes = {}
        self.functions = {}
        self.global_nodes = {}    # name -> value expr (last simple assignment)
        self.imports = {}         # alias -> ("module", dotted) | ("from", dotted_module, name)
        for st in self.tree.body:
            if isinstance(st, ast.ClassDef):
                self.classes[st.name] = ClassInfo(st, self)
            elif isinstance(st, ast.FunctionDef):
                self.functions[st.name] = FuncInfo(st, self)
            elif isinstance(st, ast.Assign):
                for t in st.targets:
                    if isinstance(t, ast.Name):
                        self.global_nodes[t.id] = st.value
            elif isinstance(st, ast.Import):
                for a in st.names:
                    if a.asname:
                        self.imports[a.asname] = ("module", a.name)
                    else:
                        self.imports[a.name.split(".")[0]] = ("module", a.name.split(".")[0])
            elif isinstance(st, ast.ImportFrom):
                for a in st.names:
                    self.imports[a.asname or a.name] = ("from", st.module, a.name)


class Repo:
    """All modules below <root>/nasim, parsed lazily."""

    def __init__(self, root=None):
        self.root = root or REPO_ROOT
        self._mods = {}

    def module_path(self, dotted):
        p = os.path.join(self.root, *dotted.split("."))
        if os.path.isdir(p) and os.path.exists(os.path.join(p, "__init__.py")):
            return os.path.join(p, "__init__.py")
        if os.path.exists(p + ".py"):
            return p + ".py"
        return None

    def is_repo_module(self, dotted):
        return dotted.split(".")[0] == "nasim" and self.module_path(dotted) is not None

    def module(self, dotted):
        if dotted not in self._mods:
            p = self.module_path(dotted)
            if p is None:
                raise KeyError(dotted)
            self._mods[dotted] = ModuleInfo(dotted, p)
        return self._mods[dotted]

    def function(self, qualname):
        """'nasim.envs.network.Network.perform_action' or 'nasim.envs.action.load_action_list'
        (append '.setter' for a property setter)."""
        parts = qualname.split(".")
        setter = False
        if parts[-1] == "setter":
            setter = True
            parts = parts[:-1]
        for cut in range(len(parts) - 1, 0, -1):
            mname = ".".join(parts[:cut])
            if self.module_path(mname) is None:
                continue
            m = self.module(mname)
            rest = parts[cut:]
            if len(rest) == 1 and rest[0] in m.functions:
                return m.functions[rest[0]]
            if len(rest) == 2 and rest[0] in m.classes:
                c = m.classes[rest[0]]
                if setter and rest[1] in c.setters:
                    return c.setters[rest[1]]
                if rest[1] in c.methods:
                    return c.methods[rest[1]]
        raise KeyError(qualname)

    def cls(self, qualname):
        mname, cname = qualname.rsplit(".", 1)
        return self.module(mname).classes[cname]

    def all_module_shas(self):
        out = {}
        base = os.path.join(self.root, "nasim")
        for dp, dn, fn in os.walk(base):
            for f in sorted(fn):
                if f.endswith(".py"):
                    p = os.path.join(dp, f)
                    with open(p, "rb") as fh:
                        out[os.path.relpath(p, self.root)] = hashlib.sha256(fh.read()).hexdigest()
        return out
