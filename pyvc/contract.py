"""pyvc.contract -- sidecar contracts: base classes, registry, policy, verification driver."""
import time
import traceback
import z3

from .values import EngineLimit, SymV, PyList, PyDict, SDict, SymSeq, NpArr, NpCell, Obj, mk, ival
from .interp import Interp, Explorer, PathEnd, PyExc, Frame, _Return, _Break, _Continue


class Scope:
    """what a contract clause can see: parameters (.a), entry snapshot (.old), result (.result)"""

    def __init__(self, **kw):
        self.a = {}
        self.old = {}
        self.result = None
        self.variant = None
        self.sig = None
        self.extra = {}
        self.__dict__.update(kw)


class Contract:
    """Contract of one repo function.  Subclasses define:
       qualname, variants(), setup(I, variant) -> Scope, requires(I,S), ensures(I,S),
       havoc(I,S) -> result (call-site use), tags (label -> property ids)."""
    qualname = None
    tags = {}
    default_tags = ()
    raises_never = True          # under `requires` the function must not raise

    def variants(self):
        return ["default"]

    def setup(self, I, variant):
        raise NotImplementedError

    def requires(self, I, S):
        return []

    def snapshot(self, I, S):
        pass

    def ensures(self, I, S):
        return []

    def frame(self, I, S):
        """extra (label, goal) pairs proving that untouched heap stayed equal"""
        return []

    def modifies(self, I, S):
        """pre-existing heap items (Obj / NpCell / PyList / PyDict / SDict) the function may write"""
        return []

    def must_not_return(self, variant):
        """variants whose every path is expected to raise (no vacuity cover expected)"""
        return False

    def all_props(self):
        out = set(self.default_tags)
        for v in self.tags.values():
            out |= set(v)
        return out

    def havoc(self, I, S):
        raise EngineLimit(f"contract {self.qualname} has no call-site model")

    def allowed_exception(self, I, S, exc):
        """return z3 Bool/bool: condition under which raising `exc` is acceptable"""
        return False

    def concretize(self, I, S):
        """return callable(model) -> JSON-able counterexample description, or None"""
        return None

    def bind(self, I, fi, args, kwargs):
        locs = I.bind_params(fi, args, kwargs)
        return Scope(a=locs)

    def tags_for(self, label):
        """tags of the longest key of `tags` that is a prefix of the label; the "" entry (if any) always applies too"""
        best = None
        for k in self.tags:
            if k and (label == k or label.startswith(k)) and (best is None or len(k) > len(best)):
                best = k
        out = set(self.tags.get("", ())) | set(self.default_tags)
        if best is not None:
            out |= set(self.tags[best])
        return out

    # ---- use at a call site
    def apply(self, I, fi, args, kwargs):
        S = self.bind(I, fi, args, kwargs)
        S.callsite = True
        for label, t in self.requires(I, S):
            I.ctx.oblige(f"pre@{self.qualname}:{label}", t, kind="pre",
                         info={"tags": sorted(self.tags_for("pre:" + label))})
        self.snapshot(I, S)
        S.result = self.havoc(I, S)
        for label, t in self.ensures(I, S):
            I.ctx.assume(t)
        return S.result


class LoopContract:
    """inductive invariant of loop number `ordinal` of function `qualname`"""
    qualname = None
    ordinal = 0
    tags = ()

    def snapshot(self, I, fr, seq):
        return {"locals": dict(fr.locals)}

    def havoc(self, I, fr, entry, seq):
        """replace everything the loop may modify by fresh symbols (locals + heap)"""
        raise NotImplementedError

    def inv(self, I, fr, entry, seq, k):
        raise NotImplementedError

    def name(self):
        return f"{self.qualname}:loop{self.ordinal}"

    def run_for(self, I, st, fr, seq):
        ctx = I.ctx
        self.st = st               # the loop's AST node: invariants name the loop's variables by ROLE (see helpers below)
        entry = self.snapshot(I, fr, seq)
        n = seq.n if not isinstance(seq.n, int) else z3.IntVal(seq.n)
        for label, t in self.inv(I, fr, entry, seq, z3.IntVal(0)):
            ctx.oblige(f"{self.name()}:inv-init:{label}", t, kind="inv-init", info={"tags": sorted(self.tags)})
        choice = ctx.decide([None, None])
        self.havoc(I, fr, entry, seq)
        if choice == 0:
            k = ctx.fresh("k_" + self.qualname.split(".")[-1] + str(self.ordinal), z3.IntSort())
            ctx.assume(z3.And(0 <= k, k < n))
            for label, t in self.inv(I, fr, entry, seq, k):
                ctx.assume(t)
            I.assign(st.target, seq.elem(k), fr)
            try:
                I.exec_block(st.body, fr)
            except _Continue:
                pass
            except _Break:
                return
            for label, t in self.inv(I, fr, entry, seq, k + 1):
                ctx.oblige(f"{self.name()}:inv-step:{label}", t, kind="inv-step", info={"tags": sorted(self.tags)})
            raise PathEnd()
        else:
            for label, t in self.inv(I, fr, entry, seq, n):
                ctx.assume(t)
            # python leaves the loop variable bound to the last element: only modelled (by a fork on emptiness)
            # when the function reads that name after the loop
            if _target_read_after(fr.fi, st):
                if ctx.branch(n > 0):
                    I.assign(st.target, seq.elem(n - 1), fr)
            I.exec_block(st.orelse, fr)
            return


# ---- naming loop variables by role, not by spelling (an invariant must survive a renamed local)

def store_target(st):
    """the local container a loop fills: the unique name X with `X[...] = ...` in the loop body"""
    import ast
    names = {t.value.id for n in ast.walk(st) if isinstance(n, ast.Assign) for t in n.targets
             if isinstance(t, ast.Subscript) and isinstance(t.value, ast.Name)}
    if len(names) != 1:
        raise EngineLimit("loop does not fill exactly one local container by subscript assignment")
    return names.pop()


def append_receiver(st):
    """the local list a loop builds: the unique name X with `X.append(...)` in the loop body"""
    import ast
    names = {n.func.value.id for n in ast.walk(st) if isinstance(n, ast.Call) and isinstance(n.func, ast.Attribute)
             and n.func.attr == "append" and isinstance(n.func.value, ast.Name)}
    if len(names) != 1:
        raise EngineLimit("loop does not append to exactly one local list")
    return names.pop()


def loop_assigned(st):
    """names (re)bound by the loop: its targets and every plain assignment / nested loop target in its body"""
    import ast
    out = {n.id for n in ast.walk(st.target) if isinstance(n, ast.Name)} if hasattr(st, "target") else set()
    for n in ast.walk(st):
        if isinstance(n, ast.Assign):
            out |= {t.id for t in n.targets if isinstance(t, ast.Name)}
            out |= {e.id for t in n.targets if isinstance(t, (ast.Tuple, ast.List)) for e in t.elts if isinstance(e, ast.Name)}
        elif isinstance(n, ast.For):
            out |= {x.id for x in ast.walk(n.target) if isinstance(x, ast.Name)}
    return out


def _run_while(self, I, st, fr):
    """loop rule for `while guard: body` (partial correctness): invariant on entry; from an arbitrary state satisfying the
    invariant either the guard holds - one execution of the body must re-establish the invariant - or it does not and
    execution continues after the loop with invariant and negated guard.  `seq` and the iteration index are None."""
    ctx = I.ctx
    self.st = st
    entry = self.snapshot(I, fr, None)
    for label, t in self.inv(I, fr, entry, None, None):
        ctx.oblige(f"{self.name()}:inv-init:{label}", t, kind="inv-init", info={"tags": sorted(self.tags)})
    self.havoc(I, fr, entry, None)
    for label, t in self.inv(I, fr, entry, None, None):
        ctx.assume(t)
    if I.branch_on(I.eval(st.test, fr)):
        try:
            I.exec_block(st.body, fr)
        except _Continue:
            pass
        except _Break:
            return
        for label, t in self.inv(I, fr, entry, None, None):
            ctx.oblige(f"{self.name()}:inv-step:{label}", t, kind="inv-step", info={"tags": sorted(self.tags)})
        raise PathEnd()
    I.exec_block(st.orelse, fr)


LoopContract.run_while = _run_while


def _target_read_after(fi, loop):
    import ast
    if fi is None:
        return False
    names = {n.id for n in ast.walk(loop.target) if isinstance(n, ast.Name)}
    end = getattr(loop, "end_lineno", loop.lineno)
    for n in ast.walk(fi.node):
        if isinstance(n, ast.Name) and isinstance(n.ctx, ast.Load) and n.id in names and n.lineno > end:
            return True
    return False


class Registry:
    def __init__(self):
        self.contracts = {}
        self.loops = {}

    def add(self, c):
        inst = c() if isinstance(c, type) else c
        self.contracts[inst.qualname] = inst
        return c

    def add_loop(self, c):
        inst = c() if isinstance(c, type) else c
        self.loops[(inst.qualname, inst.ordinal)] = inst
        return c


REG = Registry()


def contract(cls):
    REG.add(cls)
    return cls


def loop_contract(cls):
    REG.add_loop(cls)
    return cls


class Policy:
    """which callees are replaced by their contract; which loops have invariants"""

    def __init__(self, registry=REG, use=None, unroll=64, inline_only=False, always=()):
        self.registry = registry
        self.use = use            # None = every registered contract ; set of qualnames otherwise
        self.unroll = unroll
        self.inline_only = inline_only
        self.always = set(always)

    def contract_for(self, fi, I):
        if self.inline_only and fi.qualname not in self.always:
            return None
        c = self.registry.contracts.get(fi.qualname)
        if c is None:
            return None
        if getattr(c, "inline_when_concrete", False) and I.ext_state.get("concrete") is not None:
            need = getattr(c, "inline_needs_key", None)
            if need is None or need in I.ext_state["concrete"]:
                return None
        if self.use is not None and fi.qualname not in self.use:
            return None
        cb = getattr(c, "callable_by_contract", True)
        if callable(cb):
            cb = cb(I)              # a contract may be usable at call sites only inside particular verification tasks
        if not cb:
            return None
        return c

    def loop_contract(self, fi, node):
        if fi is None:
            return None
        return self.registry.loops.get((fi.qualname, fi.loop_ordinal(node)))

    def unroll_bound(self, fi, node):
        return self.unroll


def run_body(I, fi, args, kwargs):
    """execute the real body of fi (never its contract)"""
    locs = I.bind_params(fi, args, kwargs)
    fr = Frame(fi, fi.module, locs, fi.cls)
    I.call_log.append(("top", fi.qualname))
    try:
        I.exec_block(fi.node.body, fr)
        return None
    except _Return as r:
        return r.value


# class-level containers that are constants (never written by the library)
GLOBAL_READS_ALLOWED = {("nasim.envs.action.ParameterisedActionSpace", "action_types"),
                        ("nasim.envs.environment.NASimEnv", "metadata")}


def emit_heap_frames(c, I, S, ctx, tagsof):
    # heap frame: every write to a pre-existing object must be to something the contract declares
    mods = c.modifies(I, S)
    bad = []
    for w in ctx.writes:
        if w[0] in ("field", "list", "dict", "sdict", "nested", "cell", "set") and not any(w[1] is m for m in mods):
            bad.append(f"{w[0]}:{getattr(w[1], 'label', None) or w[1]!r}" + (f".{w[2]}" if len(w) > 2 else ""))
    inf = tagsof("frame:heap")
    inf["tags"] = sorted(set(inf["tags"]) | set(c.all_props()) | {"C13", "C19"})
    inf["undeclared_writes"] = sorted(set(bad))
    ctx.oblige(f"{c.qualname}:frame:writes-within-modifies", z3.BoolVal(not bad), kind="frame", info=inf)
    # the global NumPy generator is shared state: only functions whose contract says so may draw from it, and nobody
    # re-seeds it (np.random.seed) except the generator's documented `seed` parameter
    allowed_draws = getattr(c, "may_draw", False)
    seeds = [d for d in ctx.draws if d[0] == "seed"]
    nd = [d for d in ctx.draws if d[0] != "seed"]
    inf = tagsof("frame:rng")
    inf["tags"] = sorted(set(inf["tags"]) | {"C14", "C12", "C07"} | set(c.all_props()))
    ctx.oblige(f"{c.qualname}:frame:C14.global-rng-used-only-as-declared",
               z3.BoolVal((allowed_draws or not nd) and (getattr(c, "may_seed", False) or not seeds)), kind="frame", info=inf)
    hr = sorted({f"{getattr(w[1], 'label', None) or w[1]!r}.{w[2]}" for w in ctx.writes if w[0] == "hidden-read"})
    inf = tagsof("frame:heap")
    inf["tags"] = sorted(set(inf["tags"]) | set(c.all_props()) | {"C13", "C19"})
    inf["hidden_state_read"] = hr
    ctx.oblige(f"{c.qualname}:frame:reads-no-hidden-mutable-state", z3.BoolVal(not hr), kind="frame", info=inf)
    # global heap frame (C19): class attributes / module globals written on this path
    gw = sorted({f"{w[1]}.{w[2]}" for w in ctx.writes if w[0] == "classattr"
                 and w[1] not in getattr(c, "global_writes_allowed", ())})
    inf = tagsof("frame:global")
    inf["tags"] = sorted(set(inf["tags"]) | {"C19"})
    inf["global_writes"] = gw
    ctx.oblige(f"{c.qualname}:frame:C19.no-undeclared-global-writes", z3.BoolVal(not gw), kind="frame", info=inf)
    allowed_r = set(GLOBAL_READS_ALLOWED) | set(getattr(c, "global_reads_allowed", ()))
    gr = sorted({f"{w[1]}.{w[2]}" for w in ctx.writes if w[0] == "classattr-read"
                 and (w[1], w[2]) not in allowed_r and w[1] not in getattr(c, "global_writes_allowed", ())
                 and not w[1].endswith(".HostVector")})
    inf = tagsof("frame:global")
    inf["tags"] = sorted(set(inf["tags"]) | {"C19"})
    inf["global_reads"] = gr
    ctx.oblige(f"{c.qualname}:frame:C19.no-undeclared-global-reads", z3.BoolVal(not gr), kind="frame", info=inf)


def verify_contract(repo, c, variant, policy=None, path_timeout_ms=2000, max_paths=20000, concrete=None):
    """symbolically execute the real function under contract c; returns (obligations, stats)"""
    fi = repo.function(c.qualname)
    policy = policy or Policy()
    ex = Explorer([], timeout_ms=path_timeout_ms, max_paths=max_paths, label=f"{c.qualname}[{variant}]")
    stats = {"paths": 0, "exits": {}, "calls": set(), "writes": set()}

    def run(ctx):
        I = Interp(repo, ctx, policy)
        from . import builtins as _B
        _B.INF_SYMBOL = None
        if concrete is not None:
            I.ext_state["concrete"] = concrete
            ctx.expand = True
        S = c.setup(I, variant)
        S.variant = variant
        S.callsite = False
        for label, t in c.requires(I, S):
            ctx.assume(t)
        c.snapshot(I, S)
        cex = c.concretize(I, S)
        tagsof = lambda label: {"tags": sorted(c.tags_for(label)), "cex": cex, "variant": variant}
        try:
            args, kwargs = S.call_args
            S.result = run_body(I, fi, args, kwargs)
        except EngineLimit as lim:
            # out of reach from here on; what was written before is still checked against the frame
            stats.setdefault("limits", []).append(str(lim))
            emit_heap_frames(c, I, S, ctx, tagsof)
            return "limit"
        except PathEnd:
            raise
        except PyExc as e:
            pass_exc = e
        except Exception as e:      # noqa - an engine-internal error while executing the code under test: the construct
            # is not modelled (on the unchanged tree no task raises one; all 20 baselines are recorded without)
            stats.setdefault("limits", []).append(f"engine error {type(e).__name__}: {str(e)[:120]}")
            return "limit"
        else:
            pass_exc = None
        if pass_exc is not None:
            e = pass_exc
            for kind_, q in I.call_log:
                stats["calls"].add((kind_, q))
            ok = c.allowed_exception(I, S, e)
            label = f"raises:{e.kind}"
            if ok is True and hasattr(c, "expected_exception_label"):
                lab = c.expected_exception_label(S)
                ctx.oblige(f"{c.qualname}:post:{lab}", z3.BoolVal(True), kind="post", info=tagsof(lab))
            if ok is not True:
                inf = tagsof("raises")
                inf["where"] = f"{e.where or ''}:{e.lineno}"
                ctx.oblige(f"{c.qualname}:{label}", ok, kind="raises", info=inf)
            S.exc = e
            for label2, t in c.ensures_on_raise(I, S) if hasattr(c, "ensures_on_raise") else []:
                ctx.oblige(f"{c.qualname}:post:{label2}", t, kind="post", info=tagsof(label2))
            return "raise:" + e.kind
        for kind_, q in I.call_log:
            stats["calls"].add((kind_, q))
        S.exc = None
        try:
            post = list(c.ensures(I, S))
        except (EngineLimit, PathEnd, PyExc):
            raise
        except Exception as e:      # noqa - the clauses could not even be stated about this result: it does not have the
            # structure the contract specifies (on the unchanged tree every contract's clauses evaluate)
            inf = tagsof("")
            inf["tags"] = sorted(set(inf["tags"]) | set(c.all_props()))
            inf["why"] = f"{type(e).__name__}: {str(e)[:160]}"
            post = []
            ctx.oblige(f"{c.qualname}:post:result-has-the-specified-structure", z3.BoolVal(False), kind="post", info=inf)
        for label, t in post:
            ctx.oblige(f"{c.qualname}:post:{label}", t, kind="post", info=tagsof(label))
        for label, t in c.frame(I, S):
            inf = tagsof("frame:" + label)
            if c.qualname.startswith("nasim.envs."):
                # "this call leaves its inputs / the environment alone" is part of C13 for everything a step can reach
                inf["tags"] = sorted(set(inf["tags"]) | {"C13"})
            ctx.oblige(f"{c.qualname}:frame:{label}", t, kind="frame", info=inf)
        emit_heap_frames(c, I, S, ctx, tagsof)
        # reachability cover: this normal-exit path is feasible
        return "return"

    obligations = ex.explore(run)
    stats["paths"] = ex.paths
    for k, _ in ex.exits:
        stats["exits"][k] = stats["exits"].get(k, 0) + 1
    stats["feas_checks"] = ex.feas_checks
    stats["calls"] = sorted(stats["calls"])
    for o in obligations:
        if "variant" not in o.info:
            o.info["variant"] = variant
    return obligations, stats
