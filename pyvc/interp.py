"""pyvc.interp -- path-splitting symbolic executor over the real Python AST.

Forking is done by *re-execution*: a path is identified by its list of decisions; when an
undetermined branch is met beyond the recorded prefix, one side is taken and the other is
queued as a new prefix (Explorer).  Execution is deterministic given the prefix (fresh symbols
are numbered per path), so no heap cloning is needed.

Every heap write goes through Interp.* helpers so frame obligations can be generated.
"""
import ast
import z3

from .values import (SymV, Opaque, AbsVal, Obj, ClassRef, ExtClass, FuncRef, BoundMethod, ExtFunc, ModRef,
                     SuperProxy, PyList, PyDict, PySet, SymSeq, SymDict, SymColl, SDict, NpCell, NpArr, RecDict,
                     NpSlice, SliceV, EngineLimit, is_sym, ival, rval, bval, nameval, mk, kind_of, A1, A2)
from . import builtins as B


class PathEnd(Exception):
    """this path is complete (e.g. after an inductive-step check)"""


class PyExc(Exception):
    """a Python exception raised by the program under analysis"""

    def __init__(self, kind, lineno=None, where=None):
        super().__init__(kind)
        self.kind = kind
        self.lineno = lineno
        self.where = where


class _Return(Exception):
    def __init__(self, value):
        self.value = value


class _Break(Exception):
    pass


class _Continue(Exception):
    pass


class Frame:
    def __init__(self, fi, module, locs, selfcls=None, closure=None):
        self.fi = fi
        self.module = module
        self.locals = locs
        self.selfcls = selfcls
        self.closure = closure      # defining frame of a nested function / lambda (free variables, late binding)


class NestedFI:
    """function info of a nested `def` or a lambda (no contract, no loop invariants of its own)"""
    kind = "function"
    cls = None

    def __init__(self, node, outer_fr, body):
        self.node = node
        self.body = body
        self.module = outer_fr.module
        self.name = getattr(node, "name", "<lambda>")
        outer = outer_fr.fi.qualname if outer_fr.fi is not None else outer_fr.module.name
        self.qualname = f"{outer}.<locals>.{self.name}@{node.lineno}"
        self.lineno = node.lineno
        self.sha = None
        self.loops = [n for n in ast.walk(node) if isinstance(n, (ast.For, ast.While))]

    def loop_ordinal(self, node):
        for i, n in enumerate(self.loops):
            if n is node:
                return i
        raise KeyError("loop not found")


class Closure:
    """value of a nested function definition / lambda expression: code + defining frame"""

    def __init__(self, fi, frame):
        self.fi = fi
        self.frame = frame


class Obligation:
    __slots__ = ("name", "hyps", "goal", "trace", "kind", "info")

    def __init__(self, name, hyps, goal, trace, kind="post", info=None):
        self.name = name
        self.hyps = list(hyps)
        self.goal = goal
        self.trace = list(trace)
        self.kind = kind
        self.info = info or {}


_MUTG = {}


def mutated_module_globals(module):
    """names of module-level containers that some function of the module mutates in place
    (X[...] = ..., X.update/append/add/pop/clear/setdefault(...), del X[...])"""
    if module.name in _MUTG:
        return _MUTG[module.name]
    out = set()
    mut = {"add", "append", "update", "pop", "clear", "remove", "discard", "extend", "insert", "setdefault", "popitem"}
    for n in ast.walk(module.tree):
        if isinstance(n, (ast.Assign, ast.AugAssign)):
            tg = n.targets if isinstance(n, ast.Assign) else [n.target]
            for t in tg:
                if isinstance(t, ast.Subscript) and isinstance(t.value, ast.Name):
                    out.add(t.value.id)
        if isinstance(n, ast.Delete):
            for t in n.targets:
                if isinstance(t, ast.Subscript) and isinstance(t.value, ast.Name):
                    out.add(t.value.id)
        if isinstance(n, ast.Call) and isinstance(n.func, ast.Attribute) and n.func.attr in mut \
                and isinstance(n.func.value, ast.Name):
            out.add(n.func.value.id)
    out &= set(module.global_nodes)
    _MUTG[module.name] = out
    return out


_QCACHE = {}


def has_quantifier(t):
    if not z3.is_expr(t):
        return False
    key = t.get_id()
    hit = _QCACHE.get(key)
    if hit is not None and hit[0].eq(t):      # the cached term is kept alive, so its id cannot be reused
        return hit[1]
    stack = [t]
    seen = set()
    res = False
    while stack:
        x = stack.pop()
        i = x.get_id()
        if i in seen:
            continue
        seen.add(i)
        if z3.is_quantifier(x):
            res = True
            break
        stack.extend(x.children())
    if len(_QCACHE) > 20000:
        _QCACHE.clear()
    _QCACHE[key] = (t, res)
    return res


class PathCtx:
    """state of one path: decisions, path condition, obligations, draws"""

    def __init__(self, prefix, axioms, timeout_ms=2000, label=""):
        self.prefix = list(prefix)
        self.trace = []
        self.pending = []
        self.axioms = list(axioms)
        self.pc = []
        self.obligations = []
        self.draws = []
        self.counter = {}
        self.label = label
        self.timeout_ms = timeout_ms
        self.solver = z3.Solver()
        self.solver.set("timeout", timeout_ms)
        for a in self.axioms:
            if not has_quantifier(a):
                self.solver.add(a)
        self.writes = []
        self.feas_checks = 0
        self.notes = []

    # -- fresh symbols (deterministic per path)
    def fresh(self, base, sort):
        k = self.counter.get(base, 0)
        self.counter[base] = k + 1
        return z3.Const(f"{base}!{k}", sort)

    expand = False      # bounded mode: expand literal-range quantifiers (set by verify_contract)

    def assume(self, t):
        if self.expand and z3.is_expr(t):
            from .vc import expand_quantifiers
            t = expand_quantifiers(t)
        if isinstance(t, bool):
            if not t:
                self.pc.append(z3.BoolVal(False))
                self.solver.add(z3.BoolVal(False))
            return
        self.pc.append(t)
        # feasibility pruning uses only the quantifier-free part of the path condition (an
        # over-approximation of feasibility: sound, never prunes a feasible path)
        if not has_quantifier(t):
            self.solver.add(t)

    def feasible(self, t):
        self.feas_checks += 1
        self.solver.push()
        self.solver.add(t)
        r = self.solver.check()
        self.solver.pop()
        return r != z3.unsat

    def decide(self, options):
        """options: list of (z3 Bool condition or None).  Returns chosen index."""
        p = len(self.trace)
        if p < len(self.prefix):
            c = self.prefix[p]
        else:
            feas = [i for i, o in enumerate(options) if o is None or self.feasible(o)]
            if not feas:
                # contradictory path condition: stop quietly
                raise PathEnd()
            c = feas[0]
            for other in feas[1:]:
                self.pending.append(self.trace + [other])
        self.trace.append(c)
        if options[c] is not None:
            self.assume(options[c])
        return c

    def branch(self, cond):
        """cond: z3 Bool term.  Returns python bool for this path."""
        s = z3.simplify(cond)
        if z3.is_true(s):
            return True
        if z3.is_false(s):
            return False
        return self.decide([s, z3.Not(s)]) == 0

    def hyps(self):
        return self.axioms + self.pc

    def oblige(self, name, goal, kind="post", info=None):
        if isinstance(goal, bool):
            goal = z3.BoolVal(goal)
        if self.expand:
            from .vc import expand_quantifiers
            goal = expand_quantifiers(goal)
        self.obligations.append(Obligation(name, self.hyps(), goal, self.trace, kind, info))


class Explorer:
    """enumerates all paths of run_fn(ctx)"""

    def __init__(self, axioms, timeout_ms=2000, max_paths=20000, label=""):
        self.axioms = axioms
        self.timeout_ms = timeout_ms
        self.max_paths = max_paths
        self.label = label
        self.paths = 0
        self.obligations = []
        self.exits = []     # (kind, trace)
        self.feas_checks = 0

    def explore(self, run_fn):
        work = [[]]
        while work:
            prefix = work.pop()
            self.paths += 1
            if self.paths > self.max_paths:
                raise EngineLimit(f"path budget exceeded ({self.max_paths}) in {self.label}")
            ctx = PathCtx(prefix, self.axioms, self.timeout_ms, self.label)
            try:
                kind = run_fn(ctx)
            except PathEnd:
                kind = "end"
            self.exits.append((kind, list(ctx.trace)))
            self.obligations.extend(ctx.obligations)
            self.feas_checks += ctx.feas_checks
            work.extend(ctx.pending)
        return self.obligations


BUILTIN_TYPES = {"int", "float", "bool", "str", "list", "dict", "tuple", "set", "object", "slice",
                 "Exception", "AssertionError", "NotImplementedError", "TypeError", "KeyError", "IndexError",
                 "ValueError", "ZeroDivisionError", "AttributeError"}
BUILTIN_FUNCS = {"type", "setattr", "divmod", "len", "range", "enumerate", "zip", "min", "max", "sum", "abs", "isinstance", "print", "eval",
                 "all", "any", "sorted", "super", "hash", "id", "repr", "round", "getattr", "hasattr", "iter",
                 "next", "reversed", "map", "filter", "open", "issubclass", "callable", "divmod"}


def _memoising_decorator(fi):
    for d in getattr(fi.node, "decorator_list", []):
        t = d.func if isinstance(d, ast.Call) else d
        name = t.attr if isinstance(t, ast.Attribute) else (t.id if isinstance(t, ast.Name) else "")
        if name in ("lru_cache", "cache", "cached_property", "memoize", "memoized"):
            return True
    return False


class Interp:
    def __init__(self, repo, ctx, policy=None):
        self.repo = repo
        self.ctx = ctx
        self.policy = policy          # object with .contract_for(fi) -> contract or None, .loop_contract(fi, ordinal)
        self.class_state = {}
        self.module_globals = {}
        self.depth = 0
        self.call_log = []            # qualnames of repo functions entered (inlined or by contract)
        self.class_writes = []        # (class qualname, attr)
        self.global_writes = []
        self.tracked = []             # (label, object) pre-existing heap items registered by the harness
        self.ext_state = {}

    # ------------------------------------------------------------------ class / module state
    def mro(self, cls):
        out = []
        cur = cls
        while cur is not None:
            out.append(cur)
            nxt = None
            for b in cur.base_exprs:
                v = self.eval_in_module(b, cur.module)
                if isinstance(v, ClassRef):
                    nxt = v.cls
                    break
                elif isinstance(v, ExtClass):
                    out.append(v)
            cur = nxt
        return out

    def find_member(self, cls, name, after=None):
        """search class hierarchy; returns ('func', FuncInfo) | ('attr', owner ClassInfo) | ('ext', ExtClass) | None"""
        seen_after = after is None
        for c in self.mro(cls):
            if not seen_after:
                if c is after:
                    seen_after = True
                continue
            if isinstance(c, ExtClass):
                if B.ext_class_has(c.name, name):
                    return ("ext", c)
                continue
            if name in c.methods:
                return ("func", c.methods[name])
            self.ensure_class_state(c)
            if name in self.class_state[c.qualname]:
                return ("attr", c)
        return None

    def ensure_class_state(self, cls):
        if cls.qualname in self.class_state:
            return
        st = {}
        self.class_state[cls.qualname] = st
        for node in cls.attr_nodes:
            if isinstance(node, ast.AnnAssign):
                if node.value is None:
                    continue
                targets = [node.target]
                value = node.value
            else:
                targets = node.targets
                value = node.value
            fr = Frame(None, cls.module, st)
            v = self.eval(value, fr)
            if isinstance(v, (PyList, PyDict, PySet)):
                v.fresh = False          # class-level containers are pre-existing global heap
                v.label = f"{cls.name}.<class attribute>"
            for t in targets:
                if isinstance(t, ast.Name):
                    st[t.id] = v

    def subclass_of(self, cls, target):
        for c in self.mro(cls):
            if isinstance(target, ClassRef) and c is target.cls:
                return True
            if isinstance(target, ExtClass) and isinstance(c, ExtClass) and c.name == target.name:
                return True
        return False

    def module_global(self, module, name):
        key = (module.name, name)
        if key in self.module_globals:
            return self.module_globals[key]
        if name in module.classes:
            v = ClassRef(module.classes[name])
        elif name in module.functions:
            v = FuncRef(module.functions[name])
        elif name in module.global_nodes:
            v = self.eval(module.global_nodes[name], Frame(None, module, {}))
            if isinstance(v, (PyList, PyDict, PySet)):
                v.fresh = False          # module-level containers are pre-existing global heap
                v.label = f"{module.name}.{name}"
                v.mutated_global = name in mutated_module_globals(module)
            elif isinstance(v, Obj):
                # a module-level INSTANCE is process-wide state shared by every call: it (and what its constructor
                # allocated) exists before any function under contract runs
                def _pre(x, d=3):
                    if isinstance(x, Obj):
                        x.fresh = False
                        for y in x.fields.values():
                            if d:
                                _pre(y, d - 1)
                    elif isinstance(x, (PyList, PyDict, PySet)):
                        x.fresh = False
                _pre(v)
                v.label = f"{module.name}.{name}"
                v.module_level_instance = True
        elif name in module.imports:
            imp = module.imports[name]
            if imp[0] == "module":
                dotted = imp[1]
                v = ModRef(dotted, self.repo.module(dotted) if self.repo.is_repo_module(dotted) else None)
            else:
                _, modname, attr = imp
                if self.repo.is_repo_module(modname):
                    sub = modname + "." + attr
                    if self.repo.is_repo_module(sub) and attr not in self.repo.module(modname).classes \
                            and attr not in self.repo.module(modname).functions \
                            and attr not in self.repo.module(modname).global_nodes \
                            and attr not in self.repo.module(modname).imports:
                        v = ModRef(sub, self.repo.module(sub))
                    else:
                        v = self.module_global(self.repo.module(modname), attr)
                else:
                    v = B.ext_attr(modname, attr)
        else:
            raise KeyError(name)
        self.module_globals[key] = v
        return v

    def eval_in_module(self, node, module):
        return self.eval(node, Frame(None, module, {}))

    # ------------------------------------------------------------------ truth / branching
    def truth_term(self, v):
        """z3 Bool (or python bool) for the truthiness of v"""
        if isinstance(v, bool):
            return v
        if v is None:
            return False
        if isinstance(v, (int, float, str, tuple)):
            return bool(v)
        if isinstance(v, SymV):
            if v.ty == "name":
                raise EngineLimit("truthiness of a symbolic name")
            return bval(v)
        if isinstance(v, PyList):
            return len(v.items) > 0
        if isinstance(v, PyDict):
            return len(v.d) + len(v.sym) > 0
        if isinstance(v, PySet):
            return len(v.items) > 0
        if isinstance(v, SymSeq):
            n = v.n
            return (n > 0) if isinstance(n, int) else (n > 0)
        if isinstance(v, (Obj, ClassRef, FuncRef, ExtClass, ExtFunc, BoundMethod)):
            return True
        if isinstance(v, SymColl) and v.nonempty is not None:
            return v.nonempty
        raise EngineLimit(f"truthiness of {v!r}")

    def branch_on(self, v):
        t = self.truth_term(v)
        if isinstance(t, bool):
            return t
        return self.ctx.branch(t)

    def raise_(self, kind, node=None):
        raise PyExc(kind, getattr(node, "lineno", None))

    # ------------------------------------------------------------------ statements
    def exec_block(self, stmts, fr):
        for st in stmts:
            self.exec_stmt(st, fr)

    def exec_stmt(self, st, fr):
        m = getattr(self, "st_" + type(st).__name__, None)
        if m is None:
            raise EngineLimit(f"statement {type(st).__name__} at line {st.lineno}")
        try:
            return m(st, fr)
        except PyExc as e:
            if e.lineno is None:
                e.lineno = st.lineno
            if e.where is None and fr.fi is not None:
                e.where = fr.fi.qualname
            raise

    def st_Expr(self, st, fr):
        if isinstance(st.value, ast.Constant):
            return   # docstring
        self.eval(st.value, fr)

    def st_Pass(self, st, fr):
        pass

    def st_Assign(self, st, fr):
        v = self.eval(st.value, fr)
        for t in st.targets:
            self.assign(t, v, fr)

    def st_AnnAssign(self, st, fr):
        if st.value is not None:
            self.assign(st.target, self.eval(st.value, fr), fr)

    def st_AugAssign(self, st, fr):
        load = ast.copy_location(_as_load(st.target), st.target)
        cur = self.eval(load, fr)
        rhs = self.eval(st.value, fr)
        if isinstance(cur, PyList) and isinstance(st.op, ast.Add):
            if isinstance(rhs, SymSeq) and rhs.concrete_len() is None:
                # list += symbolic-length list: the local is re-bound to the concatenation (sound only for a list
                # that is not aliased; restricted to plain local names)
                if not isinstance(st.target, ast.Name):
                    raise EngineLimit("+= of a symbolic-length list into a possibly aliased list")
                from .values import seq_concat
                self.assign(st.target, seq_concat(list(cur.items), rhs), fr)
                return
            # list += iterable : in place
            cur.items.extend(self.iter_concrete(rhs))
            return
        v = self.binop(st.op, cur, rhs, st)
        self.assign(st.target, v, fr)

    def st_Return(self, st, fr):
        raise _Return(None if st.value is None else self.eval(st.value, fr))

    def st_If(self, st, fr):
        c = self.eval(st.test, fr)
        if self.branch_on(c):
            self.exec_block(st.body, fr)
        else:
            self.exec_block(st.orelse, fr)

    def st_Assert(self, st, fr):
        c = self.eval(st.test, fr)
        if not self.branch_on(c):
            self.raise_("AssertionError", st)

    def st_Raise(self, st, fr):
        kind = "Exception"
        if st.exc is not None:
            e = st.exc
            if isinstance(e, ast.Call):
                e = e.func
            if isinstance(e, ast.Name):
                kind = e.id
            elif isinstance(e, ast.Attribute):
                kind = e.attr
        self.raise_(kind, st)

    def st_Break(self, st, fr):
        raise _Break()

    def st_Continue(self, st, fr):
        raise _Continue()

    def st_Try(self, st, fr):
        try:
            self.exec_block(st.body, fr)
        except PyExc as e:
            for h in st.handlers:
                if h.type is None or self._handler_matches(h.type, e.kind):
                    self.exec_block(h.body, fr)
                    break
            else:
                raise
        else:
            self.exec_block(st.orelse, fr)
        finally:
            if st.finalbody:
                self.exec_block(st.finalbody, fr)

    def _handler_matches(self, tnode, kind):
        names = []
        if isinstance(tnode, ast.Tuple):
            names = [getattr(e, "id", getattr(e, "attr", None)) for e in tnode.elts]
        else:
            names = [getattr(tnode, "id", getattr(tnode, "attr", None))]
        return "Exception" in names or "BaseException" in names or kind in names

    def st_Import(self, st, fr):
        pass

    def st_ImportFrom(self, st, fr):
        pass

    def st_Delete(self, st, fr):
        raise EngineLimit("del")

    def st_Global(self, st, fr):
        raise EngineLimit("global")

    # ---- loops
    def st_While(self, st, fr):
        lc = self.policy.loop_contract(fr.fi, st) if (self.policy and fr.fi) else None
        if lc is not None:
            return lc.run_while(self, st, fr)
        n = 0
        bound = self.policy.unroll_bound(fr.fi, st) if self.policy else 64
        while True:
            c = self.eval(st.test, fr)
            if not self.branch_on(c):
                self.exec_block(st.orelse, fr)
                return
            n += 1
            if n > bound:
                # bounded unrolling exhausted: this path is cut (reported by the caller as a bound)
                self.ctx.notes.append(("unroll-bound", fr.fi.qualname if fr.fi else "?", st.lineno))
                raise PathEnd()
            try:
                self.exec_block(st.body, fr)
            except _Break:
                return
            except _Continue:
                continue

    def st_For(self, st, fr):
        it = self.eval(st.iter, fr)
        seq = self.as_sequence(it)
        if isinstance(seq, list):
            for el in seq:
                self.assign(st.target, el, fr)
                try:
                    self.exec_block(st.body, fr)
                except _Break:
                    return
                except _Continue:
                    continue
            self.exec_block(st.orelse, fr)
            return
        # symbolic-length iteration: needs a loop contract
        lc = self.policy.loop_contract(fr.fi, st) if (self.policy and fr.fi) else None
        if lc is None:
            raise EngineLimit(f"loop over symbolic-length sequence without loop contract in "
                              f"{fr.fi.qualname if fr.fi else '?'} line {st.lineno}")
        return lc.run_for(self, st, fr, seq)

    def as_sequence(self, it):
        """python list of element values when the length is concrete, else a SymSeq"""
        if isinstance(it, (list, tuple)):
            return list(it)
        if isinstance(it, PyList):
            if getattr(it, "sym_view", None) is not None:
                return self.as_sequence(it.sym_view)
            return list(it.items)
        if isinstance(it, PyDict):
            return list(it.d.keys()) + [e[0] for e in it.sym]
        if isinstance(it, PySet):
            return list(it.items)
        if isinstance(it, SymSeq):
            n = it.concrete_len()
            if n is not None:
                return [it.elem(i) for i in range(n)]
            return it
        if isinstance(it, SymDict):
            if it.keys is None:
                raise EngineLimit(f"iteration over {it} without key order")
            return self.as_sequence(it.keys)
        if isinstance(it, SDict):
            if it.keyseq is None:
                raise EngineLimit(f"iteration over {it.label} without ghost key order")
            return self.as_sequence(it.keyseq)
        if isinstance(it, str):
            return list(it)
        raise EngineLimit(f"iteration over {it!r}")

    def iter_concrete(self, it):
        s = self.as_sequence(it)
        if not isinstance(s, list):
            raise EngineLimit("concrete iteration over a symbolic-length sequence")
        return s

    # ------------------------------------------------------------------ assignment targets
    def assign(self, t, v, fr):
        if isinstance(t, ast.Name):
            fr.locals[t.id] = v
        elif isinstance(t, (ast.Tuple, ast.List)):
            items = self.unpack(v, len(t.elts))
            for e, x in zip(t.elts, items):
                self.assign(e, x, fr)
        elif isinstance(t, ast.Attribute):
            obj = self.eval(t.value, fr)
            self.setattr_value(obj, t.attr, v)
        elif isinstance(t, ast.Subscript):
            obj = self.eval(t.value, fr)
            key = self.eval(t.slice, fr)
            self.setitem(obj, key, v)
        else:
            raise EngineLimit(f"assignment target {type(t).__name__}")

    def unpack(self, v, n):
        if isinstance(v, tuple):
            items = list(v)
        elif isinstance(v, PyList):
            items = list(v.items)
        elif isinstance(v, SymSeq) and v.concrete_len() is not None:
            items = [v.elem(i) for i in range(v.concrete_len())]
        else:
            raise EngineLimit(f"unpacking {v!r}")
        if len(items) != n:
            raise PyExc("ValueError")
        return items

    # ------------------------------------------------------------------ attribute access
    def getattr_value(self, obj, name, node=None):
        if isinstance(obj, Obj):
            if name in obj.fields:
                if name in getattr(obj, "hidden", ()):
                    self.ctx.writes.append(("hidden-read", obj, name))
                return obj.fields[name]
            mem = self.find_member(obj.cls, name)
            if mem is None:
                if name == "__class__":
                    return ClassRef(obj.cls)
                if getattr(obj, "model_object", False):
                    # a harness object that stands for the postcondition of a constructor the engine could not run: a
                    # field the real constructor may have added is unknown here, not absent
                    raise EngineLimit(f"field {name} of a constructor-model object ({obj.cls.name})")
                raise PyExc("AttributeError", getattr(node, "lineno", None))
            return self._bind_member(mem, name, obj, ClassRef(obj.cls))
        if isinstance(obj, ClassRef):
            if name == "__name__":
                return obj.cls.name
            mem = self.find_member(obj.cls, name)
            if mem is None:
                raise PyExc("AttributeError", getattr(node, "lineno", None))
            return self._bind_member(mem, name, None, obj)
        if isinstance(obj, SuperProxy):
            cls = obj.selfval.cls if isinstance(obj.selfval, Obj) else obj.selfval.cls
            mem = self.find_member(cls, name, after=obj.after_cls)
            if mem is None:
                raise PyExc("AttributeError", getattr(node, "lineno", None))
            sv = obj.selfval if isinstance(obj.selfval, Obj) else None
            return self._bind_member(mem, name, sv, ClassRef(cls))
        if isinstance(obj, ModRef):
            if obj.repo_mod is not None:
                try:
                    return self.module_global(obj.repo_mod, name)
                except KeyError:
                    sub = obj.dotted + "." + name
                    if self.repo.is_repo_module(sub):
                        return ModRef(sub, self.repo.module(sub))
                    raise PyExc("AttributeError", getattr(node, "lineno", None))
            return B.ext_attr(obj.dotted, name)
        return B.value_attr(self, obj, name, node)

    def _bind_member(self, mem, name, selfobj, clsref):
        tag, what = mem
        if tag == "func":
            fi = what
            if fi.kind == "property":
                if selfobj is None:
                    return FuncRef(fi)
                return self.call_function(fi, [selfobj], {})
            if fi.kind == "classmethod":
                return BoundMethod(clsref, fi)
            if fi.kind == "staticmethod":
                return FuncRef(fi)
            if selfobj is None:
                return FuncRef(fi)
            return BoundMethod(selfobj, fi)
        if tag == "attr":
            v = self.class_state[what.qualname][name]
            if isinstance(v, (PyDict, PyList, PySet, SDict)):
                # a class-level mutable container is global heap: its use is recorded for the C19 frame
                self.ctx.writes.append(("classattr-read", what.qualname, name))
            return v
        if tag == "ext":
            return ExtFunc(what.name + "." + name, bound=selfobj if selfobj is not None else clsref)
        raise EngineLimit("member kind")

    def setattr_value(self, obj, name, v):
        if isinstance(obj, Obj):
            # property setter?
            for c in self.mro(obj.cls):
                if isinstance(c, ExtClass):
                    continue
                if name in c.setters:
                    return self.call_function(c.setters[name], [obj, v], {})
                if name in c.methods and c.methods[name].kind == "property":
                    raise PyExc("AttributeError")
            if not obj.fresh:
                self.ctx.writes.append(("field", obj, name))
            obj.fields[name] = v
            # a field the function under test has just assigned is no longer unknown left-over state of an earlier call
            hid = getattr(obj, "hidden", None)
            if hid and name in hid:
                hid.discard(name)
            return
        if isinstance(obj, ClassRef):
            self.ensure_class_state(obj.cls)
            # write goes to the class on which the attribute is set (python semantics)
            self.class_state[obj.cls.qualname][name] = v
            self.class_writes.append((obj.cls.qualname, name))
            self.ctx.writes.append(("classattr", obj.cls.qualname, name))
            return
        raise EngineLimit(f"attribute store on {obj!r}")

    # ------------------------------------------------------------------ subscripts
    def getitem(self, obj, key, node=None):
        return B.getitem(self, obj, key, node)

    def setitem(self, obj, key, v, node=None):
        return B.setitem(self, obj, key, v, node)

    # ------------------------------------------------------------------ expressions
    def eval(self, node, fr):
        m = getattr(self, "ex_" + type(node).__name__, None)
        if m is None:
            raise EngineLimit(f"expression {type(node).__name__} at line {getattr(node, 'lineno', '?')}")
        return m(node, fr)

    def ex_Constant(self, n, fr):
        return n.value

    def ex_Name(self, n, fr):
        if n.id in fr.locals:
            return fr.locals[n.id]
        cf = getattr(fr, "closure", None)
        while cf is not None:
            if n.id in cf.locals:
                return cf.locals[n.id]
            cf = getattr(cf, "closure", None)
        try:
            v = self.module_global(fr.module, n.id)
            if getattr(v, "mutated_global", False):
                # a module-level container that the module itself mutates is shared state (C19 frame)
                self.ctx.writes.append(("classattr-read", fr.module.name, n.id))
            return v
        except KeyError:
            pass
        if n.id in BUILTIN_TYPES:
            return ExtClass("builtins." + n.id)
        if n.id in BUILTIN_FUNCS:
            return ExtFunc("builtins." + n.id)
        if n.id == "__name__":
            return fr.module.name
        raise PyExc("NameError", n.lineno)

    def ex_Attribute(self, n, fr):
        obj = self.eval(n.value, fr)
        return self.getattr_value(obj, n.attr, n)

    def ex_Subscript(self, n, fr):
        obj = self.eval(n.value, fr)
        key = self.eval(n.slice, fr)
        return self.getitem(obj, key, n)

    def ex_Slice(self, n, fr):
        return SliceV(None if n.lower is None else self.eval(n.lower, fr),
                      None if n.upper is None else self.eval(n.upper, fr),
                      None if n.step is None else self.eval(n.step, fr))

    def ex_Tuple(self, n, fr):
        out = []
        for e in n.elts:
            if isinstance(e, ast.Starred):
                out.extend(self.iter_concrete(self.eval(e.value, fr)))
            else:
                out.append(self.eval(e, fr))
        return tuple(out)

    def ex_List(self, n, fr):
        out = []
        for e in n.elts:
            if isinstance(e, ast.Starred):
                out.extend(self.iter_concrete(self.eval(e.value, fr)))
            else:
                out.append(self.eval(e, fr))
        return PyList(out)

    def ex_Set(self, n, fr):
        return PySet([self.eval(e, fr) for e in n.elts])

    def ex_Dict(self, n, fr):
        d = PyDict()
        for k, v in zip(n.keys, n.values):
            if k is None:
                src = self.eval(v, fr)
                if not isinstance(src, PyDict):
                    raise EngineLimit("** of non-concrete dict in literal")
                d.d.update(src.d)
            else:
                kk = self.eval(k, fr)
                B.check_hashable_concrete(kk)
                d.d[kk] = self.eval(v, fr)
        return d

    def ex_JoinedStr(self, n, fr):
        parts = []
        for v in n.values:
            if isinstance(v, ast.Constant):
                parts.append(v.value)
            else:
                x = self.eval(v.value, fr)
                if isinstance(x, (str, int)) and not isinstance(x, bool) and v.format_spec is None \
                        and v.conversion == -1:
                    parts.append(str(x))
                elif x is None and v.format_spec is None:
                    parts.append("None")
                elif isinstance(x, SymV) and x.ty in ("name", "int") and v.format_spec is None and v.conversion == -1:
                    parts.append(x)
                else:
                    return Opaque("fstring")
        syms = [q for q in parts if isinstance(q, SymV)]
        if not syms:
            return "".join(parts)
        if len(syms) == 1:
            # one symbolic name inside constant text: a function of (template, name) - ASSUMED, see builtins.STR_FMT1
            from .values import intern_name, nameval
            template = "".join("{}" if isinstance(q, SymV) else q.replace("{", "{{").replace("}", "}}") for q in parts)
            tid = z3.IntVal(intern_name("fmt:" + template))
            if syms[0].ty == "int":
                # decimal rendering of an integer inside constant text: ASSUMED injective in the integer
                if not self.ext_state.get("fmt_int_axiom"):
                    self.ext_state["fmt_int_axiom"] = True
                    t_, a_, b_ = z3.Int("_fi_t"), z3.Int("_fi_a"), z3.Int("_fi_b")
                    self.ctx.assume(z3.ForAll([t_, a_, b_], z3.Implies(B.STR_FMTI(t_, a_) == B.STR_FMTI(t_, b_), a_ == b_)))
                return SymV(B.STR_FMTI(tid, syms[0].t), "name")
            return SymV(B.STR_FMT1(tid, nameval(syms[0])), "name")
        return Opaque("fstring")

    def ex_IfExp(self, n, fr):
        c = self.eval(n.test, fr)
        if self.branch_on(c):
            return self.eval(n.body, fr)
        return self.eval(n.orelse, fr)

    def ex_BoolOp(self, n, fr):
        is_and = isinstance(n.op, ast.And)
        v = None
        for i, e in enumerate(n.values):
            v = self.eval(e, fr)
            if i == len(n.values) - 1:
                return v
            t = self.branch_on(v)
            if is_and and not t:
                return v if not is_sym(v) else False
            if (not is_and) and t:
                return v if not is_sym(v) else True
        return v

    def ex_UnaryOp(self, n, fr):
        v = self.eval(n.operand, fr)
        if isinstance(n.op, ast.Not):
            t = self.truth_term(v)
            if isinstance(t, bool):
                return not t
            return mk(z3.Not(t), "bool")
        if isinstance(n.op, ast.USub):
            if isinstance(v, (int, float)):
                return -v
            if isinstance(v, SymV):
                return mk(-(rval(v) if v.ty == "real" else ival(v)), "real" if v.ty == "real" else "int")
        if isinstance(n.op, ast.UAdd):
            return v
        raise EngineLimit(f"unary op {type(n.op).__name__} on {v!r}")

    def ex_BinOp(self, n, fr):
        a = self.eval(n.left, fr)
        b = self.eval(n.right, fr)
        return self.binop(n.op, a, b, n)

    def binop(self, op, a, b, node=None):
        return B.binop(self, op, a, b, node)

    def ex_Compare(self, n, fr):
        left = self.eval(n.left, fr)
        result = None
        for i, (op, rn) in enumerate(zip(n.ops, n.comparators)):
            right = self.eval(rn, fr)
            r = B.compare(self, op, left, right, n)
            if i == len(n.ops) - 1:
                if result is None:
                    return r
                # chained: result and r   (no side effects in operands already evaluated)
                return B.bool_and(result, r)
            # chained comparison: python short-circuits; operands here are already-evaluated values,
            # evaluation of the next comparator may raise, so fork like python does
            if result is None:
                result = r
            else:
                result = B.bool_and(result, r)
            if not self.branch_on(result):
                return False
            result = True
            left = right
        return result

    def _sym_comp(self, n, fr):
        """[elt for x in <symbolic-length sequence>] with a single generator and no filter: a symbolic sequence whose
        i-th element is elt evaluated with x bound to the i-th source element (elt is evaluated lazily, per probe)"""
        if len(n.generators) != 1 or n.generators[0].ifs:
            return None
        g = n.generators[0]
        it = self.eval(g.iter, fr)
        seq = self.as_sequence(it)
        if isinstance(seq, list):
            return ("concrete", it)
        base_locals = dict(fr.locals)
        made_at = len(self.ctx.writes)
        # an element expression built only from names, constants, f-strings and arithmetic reads no heap: evaluating it
        # later gives what evaluating it now would have given, whatever was written in between
        heap_free = all(isinstance(x, (ast.Name, ast.Constant, ast.JoinedStr, ast.FormattedValue, ast.BinOp, ast.UnaryOp,
                                       ast.Compare, ast.BoolOp, ast.operator, ast.unaryop, ast.cmpop, ast.boolop,
                                       ast.expr_context, ast.Tuple)) for x in ast.walk(n.elt))

        def raw_elem(i):
            f2 = Frame(fr.fi, fr.module, dict(base_locals), fr.selfcls, closure=getattr(fr, "closure", None))
            self.assign(g.target, seq.elem(i), f2)
            w0 = len(self.ctx.writes)
            v = self.eval(n.elt, f2)
            if len(self.ctx.writes) != w0:
                raise EngineLimit("comprehension element with side effects over a symbolic-length sequence")
            return v
        # python evaluates every element NOW: an exception some element raises is raised here.  Probe one arbitrary
        # in-range index (fresh k, only when the sequence is non-empty): the raising paths are explored as real exits.
        nonempty = seq.n > 0 if not isinstance(seq.n, int) else seq.n > 0
        if nonempty is True or (nonempty is not False and self.ctx.branch(nonempty)):
            k = self.ctx.fresh("comp_k", z3.IntSort())
            self.ctx.assume(z3.And(0 <= k, k < (seq.n if not isinstance(seq.n, int) else z3.IntVal(seq.n))))
            raw_elem(k)

        def elem(i):
            # later (lazy) evaluations: the heap must not have changed since, and a raising element was already
            # accounted for by the probe above, so such a branch is not a new behaviour of this path
            if len(self.ctx.writes) != made_at and not heap_free:
                raise EngineLimit("lazily evaluated comprehension read after heap writes")
            try:
                return raw_elem(i)
            except PyExc:
                raise PathEnd()
        return ("symbolic", SymSeq(seq.n, elem, "list", True, mutable=True))

    def ex_ListComp(self, n, fr):
        r = self._sym_comp(n, fr)
        if r is not None and r[0] == "symbolic":
            return r[1]
        out = []
        self._comp(n.generators, 0, fr, lambda f2: out.append(self.eval(n.elt, f2)))
        return PyList(out)

    def ex_GeneratorExp(self, n, fr):
        return self.ex_ListComp(n, fr)

    def ex_SetComp(self, n, fr):
        out = []
        self._comp(n.generators, 0, fr, lambda f2: out.append(self.eval(n.elt, f2)))
        return PySet(out)

    def ex_DictComp(self, n, fr):
        d = PyDict()

        def add(f2):
            k = self.eval(n.key, f2)
            B.check_hashable_concrete(k)
            d.d[k] = self.eval(n.value, f2)
        self._comp(n.generators, 0, fr, add)
        return d

    def _comp(self, gens, i, fr, emit):
        if i == len(gens):
            emit(fr)
            return
        g = gens[i]
        it = self.eval(g.iter, fr)
        seq = self.as_sequence(it)
        if not isinstance(seq, list):
            raise EngineLimit("comprehension over symbolic-length sequence")
        for el in seq:
            f2 = Frame(fr.fi, fr.module, dict(fr.locals), fr.selfcls, closure=getattr(fr, "closure", None))
            self.assign(g.target, el, f2)
            ok = True
            for cond in g.ifs:
                if not self.branch_on(self.eval(cond, f2)):
                    ok = False
                    break
            if ok:
                self._comp(gens, i + 1, f2, emit)

    def ex_Lambda(self, n, fr):
        if n.args.defaults or n.args.kw_defaults:
            raise EngineLimit("lambda with default arguments")
        return Closure(NestedFI(n, fr, [ast.copy_location(ast.Return(value=n.body), n)]), fr)

    def st_FunctionDef(self, st, fr):
        if st.decorator_list or st.args.defaults or any(d is not None for d in st.args.kw_defaults):
            raise EngineLimit(f"nested function {st.name} with decorators / default arguments")
        for n in ast.walk(st):
            if isinstance(n, (ast.Nonlocal, ast.Global, ast.Yield, ast.YieldFrom)):
                raise EngineLimit(f"nested function {st.name} uses nonlocal / global / yield")
        fr.locals[st.name] = Closure(NestedFI(st, fr, st.body), fr)

    def call_closure(self, c, args, kwargs):
        fi = c.fi
        self.call_log.append(("inline", fi.qualname))
        if self.depth > 60:
            raise EngineLimit("call depth")
        locs = self.bind_params(fi, args, kwargs)
        fr = Frame(fi, fi.module, locs, c.frame.selfcls, closure=c.frame)
        self.depth += 1
        try:
            self.exec_block(fi.body, fr)
            return None
        except _Return as r:
            return r.value
        finally:
            self.depth -= 1

    def ex_Starred(self, n, fr):
        raise EngineLimit("starred outside call/tuple")

    # ------------------------------------------------------------------ calls
    def ex_Call(self, n, fr):
        # super() needs the frame
        if isinstance(n.func, ast.Name) and n.func.id == "super" and "super" not in fr.locals:
            selfval = fr.locals.get("self", fr.locals.get("cls"))
            return SuperProxy(selfval, fr.selfcls)
        f = self.eval(n.func, fr)
        args = []
        for a in n.args:
            if isinstance(a, ast.Starred):
                args.extend(self.iter_concrete(self.eval(a.value, fr)))
            else:
                args.append(self.eval(a, fr))
        kwargs = {}
        for k in n.keywords:
            if k.arg is None:
                src = self.eval(k.value, fr)
                if isinstance(src, PyDict):
                    for kk, vv in src.d.items():
                        if not isinstance(kk, str):
                            raise PyExc("TypeError", n.lineno)
                        kwargs[kk] = vv
                else:
                    raise EngineLimit(f"** of {src!r}")
            else:
                kwargs[k.arg] = self.eval(k.value, fr)
        return self.call_value(f, args, kwargs, n)

    def call_value(self, f, args, kwargs, node=None):
        if isinstance(f, BoundMethod):
            return self.call_function(f.fi, [f.selfval] + list(args), kwargs)
        if isinstance(f, FuncRef):
            return self.call_function(f.fi, list(args), kwargs)
        if isinstance(f, Closure):
            return self.call_closure(f, list(args), kwargs)
        if isinstance(f, ClassRef):
            return self.instantiate(f.cls, args, kwargs)
        if isinstance(f, ExtFunc):
            return B.call_ext(self, f, args, kwargs, node)
        if isinstance(f, ExtClass):
            return B.call_extclass(self, f, args, kwargs, node)
        raise EngineLimit(f"call of {f!r}")

    def instantiate(self, cls, args, kwargs):
        obj = Obj(cls, {}, fresh=True)
        mem = self.find_member(cls, "__init__")
        if mem is not None and mem[0] == "func":
            self.call_function(mem[1], [obj] + list(args), kwargs)
        elif mem is not None and mem[0] == "ext":
            B.call_ext(self, ExtFunc(mem[1].name + ".__init__", bound=obj), args, kwargs, None)
        return obj

    def call_function(self, fi, args, kwargs):
        """args includes self/cls for methods"""
        if self.policy is not None:
            c = self.policy.contract_for(fi, self)
            if c is not None and self._optional_args_outside_contract(c, fi, args, kwargs):
                # the call hands over an optional argument the callee's contract does not speak about (the contract was
                # verified for the default only): the contract says nothing about this call, the real body is executed
                self.call_log.append(("inline-optional-argument", fi.qualname))
                c = None
            if c is not None:
                self.call_log.append(("contract", fi.qualname))
                return self._shared_if_memoised(fi, c.apply(self, fi, args, kwargs))
        if _memoising_decorator(fi):
            return self._shared_if_memoised(fi, self._call_inline(fi, args, kwargs))
        return self._call_inline(fi, args, kwargs)

    def _shared_if_memoised(self, fi, r):
        """functools.lru_cache / cache: every caller with equal arguments gets the SAME result object, so a container
        it returns is not the caller's own (writing into it is a write to state that outlives the call)"""
        if not _memoising_decorator(fi):
            return r

        def mark(v, d=2):
            if isinstance(v, (PyList, PyDict, PySet)):
                v.fresh = False
                v.label = getattr(v, "label", None) or f"memoised result of {fi.qualname}"
                if d:
                    for x in (v.items if isinstance(v, (PyList, PySet)) else v.d.values()):
                        mark(x, d - 1)
            elif isinstance(v, Obj):
                v.fresh = False
            elif isinstance(v, tuple):
                for x in v:
                    mark(x, d)
        mark(r)
        return r

    def _call_inline(self, fi, args, kwargs):
        self.call_log.append(("inline", fi.qualname))
        if self.depth > 60:
            raise EngineLimit("call depth")
        locs = self.bind_params(fi, args, kwargs)
        fr = Frame(fi, fi.module, locs, fi.cls)
        self.depth += 1
        try:
            self.exec_block(fi.node.body, fr)
            return None
        except _Return as r:
            return r.value
        finally:
            self.depth -= 1

    def default_value(self, fi, key, node):
        """python evaluates a default argument once, at definition time: a mutable default is one shared,
        pre-existing object for every call"""
        cache = self.ext_state.setdefault("__defaults__", {})
        k = (fi.qualname, key)
        if k not in cache:
            v = self.eval_in_module(node, fi.module)
            if isinstance(v, (PyList, PyDict, PySet)):
                v.fresh = False
                v.label = f"default argument of {fi.qualname}"
            cache[k] = v
        return cache[k]

    def _optional_args_outside_contract(self, c, fi, args, kwargs):
        if not getattr(c, "verify", True):
            return False        # an ASSUMED call-site model (listed as such) describes every call of its function
        a = fi.node.args
        params = [p.arg for p in a.posonlyargs + a.args]
        first_default = len(params) - len(a.defaults)
        given = set(params[first_default:len(args)]) | (set(kwargs) & set(params[first_default:]))
        given |= {p.arg for p, d in zip(a.kwonlyargs, a.kw_defaults) if d is not None and p.arg in kwargs}
        return bool(given - set(getattr(c, "optional_params_modelled", ())))

    def bind_params(self, fi, args, kwargs):
        a = fi.node.args
        params = [p.arg for p in a.posonlyargs + a.args]
        locs = {}
        args = list(args)
        kwargs = dict(kwargs)
        if len(args) > len(params) and a.vararg is None:
            raise PyExc("TypeError", fi.lineno)
        for name, val in zip(params, args):
            locs[name] = val
        if a.vararg is not None:
            locs[a.vararg.arg] = tuple(args[len(params):])
        defaults = a.defaults
        first_default = len(params) - len(defaults)
        for i, name in enumerate(params):
            if name in locs:
                if name in kwargs:
                    raise PyExc("TypeError", fi.lineno)
                continue
            if name in kwargs:
                locs[name] = kwargs.pop(name)
            elif i >= first_default:
                locs[name] = self.default_value(fi, ("pos", i - first_default), defaults[i - first_default])
            else:
                raise PyExc("TypeError", fi.lineno)
        for p, d in zip(a.kwonlyargs, a.kw_defaults):
            if p.arg in kwargs:
                locs[p.arg] = kwargs.pop(p.arg)
            elif d is not None:
                locs[p.arg] = self.default_value(fi, ("kw", p.arg), d)
            else:
                raise PyExc("TypeError", fi.lineno)
        if a.kwarg is not None:
            locs[a.kwarg.arg] = PyDict(kwargs)
        elif kwargs:
            raise PyExc("TypeError", fi.lineno)
        return locs

    # ------------------------------------------------------------------ numpy helpers
    def new_cell(self, base, shape, fresh=True, label=None, zero=False):
        ndim = len(shape)
        if zero:
            z = z3.K(z3.IntSort(), z3.RealVal(0))
            content = z if ndim == 1 else z3.K(z3.IntSort(), z)
        else:
            content = self.ctx.fresh(base, A1 if ndim == 1 else A2)
        return NpCell(content, shape, fresh=fresh, label=label or base)


def _as_load(t):
    if isinstance(t, ast.Name):
        return ast.Name(id=t.id, ctx=ast.Load())
    if isinstance(t, ast.Attribute):
        return ast.Attribute(value=t.value, attr=t.attr, ctx=ast.Load())
    if isinstance(t, ast.Subscript):
        return ast.Subscript(value=t.value, slice=t.slice, ctx=ast.Load())
    raise EngineLimit("augassign target")
